.sweet16
  set r1, 0x2345
  set r1, 0x12345

"""Symbolic bit provenance of integer expressions built from | << >> & casts.

sym() turns an expression into a list of terms (leaf, shift, dmask, neg):
the term contributes ((leaf << shift) & dmask) (shift < 0: >> -shift); dmask None = unbounded.
Constants are terms with leaf None and value in 'dmask'.  Local variables are resolved through their
assignments inside a region (flow-insensitive union; `v |= e` accumulates).  Calls to small repo
helpers (permutate_*) are inlined when the callee's body is a pure accumulate-and-return."""
from .facts import kids, strip, const, show, callee, ckey, call_args

ALL = (1 << 64) - 1


class Term:
    __slots__ = ('leaf', 'shift', 'dmask', 'node')

    def __init__(self, leaf, shift=0, dmask=None, node=None):
        self.leaf, self.shift, self.dmask, self.node = leaf, shift, dmask, node

    def __repr__(self):
        if self.leaf is None:
            return 'const(%#x)' % self.dmask
        m = '' if self.dmask is None else ' & %#x' % self.dmask
        return '(%s %s %d)%s' % (self.leaf, '<<' if self.shift >= 0 else '>>', abs(self.shift), m)

    def bits(self, width=64):
        """{dst_bit: src_bit} for a masked term."""
        out = {}
        if self.dmask is None:
            return None
        for b in range(width):
            if self.dmask >> b & 1:
                out[b] = b - self.shift
        return out


INT_WIDTH = {'char': 8, 'signed char': 8, 'unsigned char': 8, 'short': 16, 'unsigned short': 16,
             'int': 32, 'unsigned int': 32, 'long': 64, 'unsigned long': 64, 'long long': 64,
             'unsigned long long': 64, 'bool': 1}


def type_width(t):
    if t is None:
        return None
    t = t.replace('const ', '').strip()
    return INT_WIDTH.get(t)


class Sym:
    def __init__(self, prog, fn, region=None, inline=True, depth=0, stop=(), single_only=False):
        self.prog, self.fn = prog, fn
        self.region = region if region is not None else fn.body
        self.inline = inline
        self.depth = depth
        self._assign = None
        self.subst = {}
        self.stop = set(stop)
        self.single_only = single_only

    def assignments(self):
        """decl id -> list of (op, rhs node) inside the region."""
        if self._assign is None:
            a = {}
            st = [self.region]
            while st:
                n = st.pop()
                if n is None:
                    continue
                k = n['k']
                if k in ('BinaryOperator', 'CompoundAssignOperator') and n.get('op') in ('=', '|=', '+=', '&=', '<<=', '>>=', '^=', '-='):
                    l = strip(kids(n)[0])
                    if l['k'] == 'DeclRefExpr':
                        a.setdefault(l['d'], []).append((n['op'], kids(n)[1], n))
                elif k == 'DeclStmt':
                    ds = [d for d in n.get('decls', ()) if d.get('init')]
                    for d, i in zip(ds, kids(n)):
                        a.setdefault(d['d'], []).append(('=', i, n))
                elif k == 'UnaryOperator' and n.get('op') in ('++', '--'):
                    l = strip(kids(n)[0])
                    if l['k'] == 'DeclRefExpr':
                        a.setdefault(l['d'], []).append((n['op'], None, n))
                st.extend(kids(n))
            self._assign = a
        return self._assign

    def sym(self, n, seen=()):
        n0 = n
        if n is None:
            return []
        k = n['k']
        c = kids(n)
        v = const(n)
        if v is not None:
            return [Term(None, 0, v & ALL, n)]
        if k in ('ParenExpr', 'ExprWithCleanups', 'ConstantExpr', 'MaterializeTemporaryExpr'):
            return self.sym(c[0], seen)
        if k == 'ImplicitCastExpr' or k in ('CStyleCastExpr', 'CXXStaticCastExpr', 'CXXFunctionalCastExpr'):
            inner = self.sym(c[0], seen)
            ck = n.get('ck')
            if ck in ('IntegralCast',):
                w = type_width(self.fn.type(n))
                sw = type_width(self.fn.type(c[0]))
                if w is not None and (sw is None or w < sw):
                    m = (1 << w) - 1
                    return [self._and(t, m) for t in inner]
            return inner
        if k == 'BinaryOperator':
            op = n['op']
            if op in ('|', '+', '^'):
                return self.sym(c[0], seen) + self.sym(c[1], seen)
            if op == '<<':
                s = const(c[1])
                if s is not None:
                    return [self._shl(t, s) for t in self.sym(c[0], seen)]
            if op == '>>':
                s = const(c[1])
                if s is not None:
                    return [self._shl(t, -s) for t in self.sym(c[0], seen)]
            if op == '&':
                m = const(c[1])
                x = c[0]
                if m is None:
                    m = const(c[0])
                    x = c[1]
                if m is not None:
                    return [self._and(t, m & ALL) for t in self.sym(x, seen)]
            if op == '*':
                m = const(c[1])
                if m is not None and m > 0 and m & (m - 1) == 0:
                    return [self._shl(t, m.bit_length() - 1) for t in self.sym(c[0], seen)]
            if op == '/':
                m = const(c[1])
                if m is not None and m > 0 and m & (m - 1) == 0:
                    return [self._shl(t, -(m.bit_length() - 1)) for t in self.sym(c[0], seen)]
            if op == ',':
                return self.sym(c[1], seen)
            return [Term(show(n), 0, None, n)]
        if k == 'ConditionalOperator':
            return self.sym(c[1], seen) + self.sym(c[2], seen)
        if k == 'DeclRefExpr':
            d = n.get('d')
            if d in self.subst:
                return list(self.subst[d])
            if n.get('dk') in ('local',) and d not in seen and n['n'] not in self.stop:
                asg = self.assignments().get(d)
                if asg and not (self.single_only and len(asg) != 1):
                    return self._resolve(n, d, asg, seen + (d,))
            t = self.fn.type(n) or ''
            w = type_width(t)
            if w is not None and ('unsigned' in t):
                return [Term(n['n'], 0, (1 << w) - 1, n)]
            return [Term(n['n'], 0, None, n)]
        if k in ('CallExpr',) and self.inline and self.depth < 2:
            ck = ckey(n)
            f2 = self.prog.by_key.get(ck) if ck else None
            if f2 is not None and f2.body is not None and len(f2.params()) == len(call_args(n)):
                r = self._inline(f2, call_args(n), seen)
                if r is not None:
                    return r
        return [Term(show(n), 0, None, n)]

    def _resolve(self, ref, d, asg, seen):
        terms = []
        plain = [(op, rhs, st) for op, rhs, st in asg if op == '=']
        acc = [(op, rhs, st) for op, rhs, st in asg if op in ('|=', '+=', '^=')]
        other = [(op, rhs, st) for op, rhs, st in asg if op not in ('=', '|=', '+=', '^=')]
        if other:
            return [Term(ref['n'], 0, None, ref)]
        selfref = []
        for op, rhs, st in plain:
            mentions = any(x['k'] == 'DeclRefExpr' and x.get('d') == d for x in _walk(rhs))
            if mentions:
                selfref.append(rhs)
            else:
                terms += self.sym(rhs, seen)
        for op, rhs, st in acc:
            terms += self.sym(rhs, seen)
        if selfref:
            # v = f(v): evaluate f with v bound to the union of the other definitions
            base = terms if terms else [Term(ref['n'], 0, None, ref)]
            out = list(base)
            for rhs in selfref:
                old = self.subst.get(d)
                self.subst[d] = base
                out = self.sym(rhs, seen)
                if old is None:
                    self.subst.pop(d, None)
                else:
                    self.subst[d] = old
                base = out
            return out
        if not terms:
            return [Term(ref['n'], 0, None, ref)]
        return terms

    def _inline(self, f2, args, seen):
        rets = [x for x in f2.nodes.values() if x['k'] == 'ReturnStmt' and kids(x)]
        if len(rets) != 1:
            return None
        s2 = Sym(self.prog, f2, f2.body, True, self.depth + 1)
        for p, a in zip(f2.params(), args):
            s2.subst[p['d']] = self.sym(a, seen)
        # a parameter that is reassigned cannot be substituted
        for p in f2.params():
            if p['d'] in s2.assignments():
                return None
        return s2.sym(kids(rets[0])[0])

    @staticmethod
    def _shl(t, s):
        if t.leaf is None:
            v = t.dmask
            return Term(None, 0, (v << s) & ALL if s >= 0 else v >> -s, t.node)
        dm = t.dmask
        if dm is not None:
            dm = (dm << s) & ALL if s >= 0 else dm >> -s
        return Term(t.leaf, t.shift + s, dm, t.node)

    @staticmethod
    def _and(t, m):
        if t.leaf is None:
            return Term(None, 0, t.dmask & m, t.node)
        return Term(t.leaf, t.shift, (ALL if t.dmask is None else t.dmask) & m, t.node)


def _walk(n):
    st = [n]
    while st:
        x = st.pop()
        if x is None:
            continue
        yield x
        st.extend(kids(x))


def summarize(terms, width=32):
    """Group by leaf: {leaf: {'shifts': set of shifts of unmasked terms, 'bits': {dst: src}}}; consts OR-ed."""
    wm = (1 << width) - 1
    out = {}
    cval = 0
    for t in terms:
        if t.leaf is None:
            cval |= t.dmask & wm
            continue
        e = out.setdefault(t.leaf, {'shifts': set(), 'bits': {}})
        if t.dmask is None:
            e['shifts'].add(t.shift)
        else:
            for b in range(width):
                if t.dmask >> b & 1:
                    e['bits'][b] = b - t.shift
    return out, cval

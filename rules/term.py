"""Termination rules: R-EOF (reader loops exit at end of input), R-REC (recursion cycles are depth-guarded)."""
import json
import os
from nk.facts import kids, strip, const, callee, ckey, call_args, show, walk
from nk.cfg import natural_loops
from nk.report import Ob, RuleResult, DISCHARGED, VIOLATED, OBSERVATION
from nk.build import AnalysisBroken

HERE = os.path.dirname(os.path.abspath(__file__))
READERS = {'tokens_get': (-1,), 'tokens_get_char': (-1,), 'getc': (-1,), 'fgetc': (-1,), 'macros_get_char': (-1,),
           'fgets': (0,), 'readline': (0,), 'fread': (0,), 'FileIo::get_int8': (-1,), 'get_next_char': (-1,)}


def load_table():
    with open(os.path.join(HERE, 'term_table.json')) as f:
        return json.load(f)


def _is_const_true(fn, b):
    """Loop header with a constant-true condition (while(1)/while(true)/for(;;)): the false edge is pruned."""
    cond = fn.nodes.get(b.get('cond')) if 'cond' in b else None
    if cond is None:
        return len([s for s in b['s'] if s is not None]) == 1 and b.get('termk') in ('WhileStmt', 'ForStmt', 'DoStmt', None)
    v = const(cond)
    return v is not None and v != 0


def _flag_loop(fn, hb, body):
    """`while (running == 1)`: the header tests a local that the body only ever sets to constants — a flag, not a bound taken
    from the data: like `while (1)` the loop ends only where an arm decides to."""
    cond = fn.nodes.get(hb.get('cond')) if 'cond' in hb else None
    if cond is None:
        return False
    c = strip(cond, casts=True)
    v = None
    if c['k'] == 'BinaryOperator' and c.get('op') in ('==', '!='):
        a, b = strip(kids(c)[0], casts=True), strip(kids(c)[1], casts=True)
        if a['k'] == 'DeclRefExpr' and const(b) is not None:
            v = a
        elif b['k'] == 'DeclRefExpr' and const(a) is not None:
            v = b
    elif c['k'] == 'DeclRefExpr':
        v = c
    if v is None or v.get('dk') != 'local':
        return False
    stores = 0
    for n in fn.nodes.values():
        w = fn.where.get(n['i'])
        if w is None or w[0] not in body:
            continue
        if n['k'] in ('BinaryOperator', 'CompoundAssignOperator') and n.get('op', '').endswith('=') and \
                n['op'] not in ('==', '!=', '<=', '>=') and strip(kids(n)[0]).get('d') == v.get('d'):
            if n['op'] != '=' or const(kids(n)[1]) is None:
                return False
            stores += 1
        elif n['k'] == 'UnaryOperator' and n.get('op') in ('++', '--', '&') and strip(kids(n)[0]).get('d') == v.get('d'):
            return False
    return stores > 0


_WRAPPERS = {}


def reader_wrappers(prog):
    """file-local helpers that read through getc/fgetc/get_int8 and hand the value back combined (read_int32): their result
    has no end-of-input value, so only an feof()/EOF test of the stream can end a loop that reads through them."""
    if id(prog) not in _WRAPPERS:
        out = set()
        for fn in prog.functions(lambda f: f.file.startswith('fileio/')):
            if fn.ret_type() == 'void':
                continue
            if any(callee(c) in ('getc', 'fgetc', 'FileIo::get_int8') for c in fn.calls()) and \
                    not any((callee(c) or '') in ('feof',) for c in fn.calls()):
                out.add(fn.key)
        _WRAPPERS[id(prog)] = out
    return _WRAPPERS[id(prog)]


def eof(prog, scope, floor, table=None):
    table = table or load_table()
    accepted = {(e['file'], e['function'], e['construct']): e for e in table.get('eof_accepted', [])}
    wrappers = reader_wrappers(prog)
    obs = []
    for fn in prog.functions(scope):
        if not fn.blocks:
            continue
        loops = natural_loops(fn)
        k = 0
        for h, body in sorted(loops.items(), key=lambda kv: -kv[0]):
            hb = fn.blocks[h]
            # constant-true loops only: loops with a real condition are bounded by it (R-TAINT covers file counts)
            flag = False
            if not _is_const_true(fn, hb):
                # `while (1)` is built by clang as a header without condition whose body starts at its only successor
                if not _flag_loop(fn, hb, body):
                    continue
                flag = True
            reads = []
            wreads = []
            for bid in body:
                for e in fn.blocks[bid]['e']:
                    n = fn.nodes.get(e)
                    if n is not None and callee(n) in READERS:
                        reads.append(n)
                    elif n is not None and n['k'] == 'CallExpr' and ckey(n) in wrappers:
                        wreads.append(n)
            if not reads and wreads:
                # reads only through wrappers: an exit must test the stream itself
                k += 1
                construct = 'reader-loop#%d:%s' % (k, callee(wreads[0]).split('::')[-1])
                ok = False
                for bid in body:
                    bb = fn.blocks[bid]
                    cond = fn.nodes.get(bb.get('cond')) if 'cond' in bb else None
                    if cond is None or bid == h and flag:
                        continue
                    if not any(s_ is not None and (s_ not in body or not _reaches(fn, s_, h, body)) for s_ in bb['s']):
                        continue
                    t = show(cond)
                    if 'feof' in t or 'EOF' in t:
                        ok = True
                        why = 'exit on `%s`' % t[:50]
                acc = accepted.get((fn.file, fn.q, construct))
                if ok:
                    obs.append(Ob('R-EOF', fn.file, wreads[0]['l'], fn.q, construct, DISCHARGED, '', why))
                elif acc:
                    obs.append(Ob('R-EOF', fn.file, wreads[0]['l'], fn.q, construct, DISCHARGED, '', 'accepted: ' + acc['reason']))
                else:
                    obs.append(Ob('R-EOF', fn.file, wreads[0]['l'], fn.q, construct, VIOLATED,
                                  'the loop ends only where one of its arms decides to (%s) and reads its input through %s, whose '
                                  'result has no end-of-input value; no exit tests feof()/EOF of the stream: at the end of a '
                                  'truncated file every read returns all ones and the loop never terminates' % (
                                      'flag `%s`' % show(fn.nodes.get(hb.get('cond')))[:30] if flag else 'constant-true loop',
                                      callee(wreads[0]))))
                continue
            if not reads:
                continue
            k += 1
            construct = 'reader-loop#%d:%s' % (k, callee(reads[0]).split('::')[-1])
            # variables holding reader results (direct assignment / initialiser)
            rvars = {}
            for r in reads:
                p = fn.parent.get(r['i'])
                while p is not None and p['k'] in ('ImplicitCastExpr', 'ParenExpr', 'CStyleCastExpr'):
                    p = fn.parent.get(p['i'])
                if p is not None and p['k'] == 'BinaryOperator' and p.get('op') == '=':
                    l = strip(kids(p)[0])
                    if l['k'] == 'DeclRefExpr':
                        rvars[l['d']] = callee(r)
                elif p is not None and p['k'] == 'DeclStmt':
                    for d in p.get('decls', ()):
                        rvars[d['d']] = callee(r)
            # exit edges: block in body with a successor outside the body, or a return/noreturn inside the body
            ok = False
            why = ''
            for bid in body:
                bb = fn.blocks[bid]
                cond = fn.nodes.get(bb.get('cond')) if 'cond' in bb else None
                if cond is None:
                    continue
                leaves = False
                for s_ in bb['s']:
                    if s_ is None:
                        continue
                    if s_ not in body:
                        leaves = True
                    else:
                        # successor inside the body that returns / cannot come back to the header
                        if not _reaches(fn, s_, h, body):
                            leaves = True
                if not leaves:
                    continue
                cs = strip(cond)
                while cs['k'] == 'BinaryOperator' and cs.get('op') in ('||', '&&'):
                    # any disjunct/conjunct that tests the sentinel counts
                    parts = [strip(kids(cs)[0]), strip(kids(cs)[1])]
                    hit = [x for x in parts if _tests_sentinel(fn, x, rvars)]
                    if hit:
                        cs = hit[0]
                        break
                    cs = parts[1]
                if _tests_sentinel(fn, cs, rvars):
                    ok = True
                    why = 'exit on `%s`' % show(cond)[:50]
                    break
            if ok:
                obs.append(Ob('R-EOF', fn.file, fn.nodes[reads[0]['i']]['l'], fn.q, construct, DISCHARGED, '', why))
                continue
            acc = accepted.get((fn.file, fn.q, construct))
            if acc:
                obs.append(Ob('R-EOF', fn.file, reads[0]['l'], fn.q, construct, DISCHARGED, '', 'accepted: ' + acc['reason']))
                continue
            obs.append(Ob('R-EOF', fn.file, reads[0]['l'], fn.q, construct, VIOLATED,
                          'constant-true loop reads input with %s but no exit of the loop depends on the end-of-input value of '
                          'that read: at end of file the loop never terminates' % callee(reads[0])))
    return RuleResult('R-EOF', obs, floor, {})


def _reaches(fn, src, dst, within):
    seen = {src}
    st = [src]
    while st:
        x = st.pop()
        if x == dst:
            return True
        for y in fn.succs(x):
            if y not in seen and (y in within or y == dst):
                seen.add(y)
                st.append(y)
    return False


def _tests_sentinel(fn, c, rvars):
    """c compares a reader result (directly or through a variable assigned from a reader) with an end-of-input value."""
    if c['k'] != 'BinaryOperator' or c.get('op') not in ('==', '!=', '<', '<=', '>', '>='):
        # `if (fgets(...) == NULL)` spelled as `!x` / `x`
        x = strip(c, casts=True)
        if x['k'] == 'UnaryOperator' and x.get('op') == '!':
            x = strip(kids(x)[0], casts=True)
        if callee(x) in READERS:
            return True
        if x['k'] == 'DeclRefExpr' and x.get('d') in rvars:
            return True
        return False
    a, b = strip(kids(c)[0], casts=True), strip(kids(c)[1], casts=True)
    for x, y in ((a, b), (b, a)):
        src = None
        if callee(x) in READERS:
            src = callee(x)
        elif x['k'] == 'DeclRefExpr' and x.get('d') in rvars:
            src = rvars[x['d']]
        elif x['k'] == 'BinaryOperator' and x.get('op') == '=' and callee(strip(kids(x)[1], casts=True)) in READERS:
            src = callee(strip(kids(x)[1], casts=True))
        if src is None:
            continue
        v = const(y)
        if v is None and y['k'] in ('GNUNullExpr', 'CXXNullPtrLiteralExpr'):
            v = 0
        if v is None:
            continue
        if v in READERS[src]:
            return True
        if c['op'] in ('<', '<=') and v in (0, 1) and src in ('fread', 'tokens_get', 'getc', 'fgetc', 'tokens_get_char'):
            return True
    return False


def rec(prog, cg, roots, table=None, member_scope=None):
    """R-REC: every call-graph cycle reachable from the entry points has a depth guard; cycles without one are
    reported (stack exhaustion on nested input)."""
    table = table or load_table()
    reach = cg.reachable(roots)
    obs = []
    sccs = cg.sccs(reach)
    for comp in sorted(sccs):
        if member_scope is not None and not any(member_scope(prog.by_key[q]) for q in comp if q in prog.by_key):
            continue
        name = '{' + ', '.join(c.split('@')[0].split('(')[0] for c in comp) + '}'
        guard = None
        for q in comp:
            fn = prog.by_key.get(q)
            if fn is None:
                continue
            g = _depth_guard(fn, comp)
            if g:
                guard = g
                break
        fn0 = prog.by_key.get(comp[0])
        acc = [e for e in table.get('rec_accepted', []) if e['cycle'] == name]
        if not guard and acc:
            guard = 'accepted: ' + acc[0]['reason']
        if guard:
            obs.append(Ob('R-REC', fn0.file, fn0.line, fn0.q, 'cycle:' + name, DISCHARGED, '', guard))
        else:
            obs.append(Ob('R-REC', fn0.file, fn0.line, fn0.q, 'cycle:' + name, VIOLATED,
                          'recursion cycle %s has no depth guard (a counter compared with a constant before the recursive call, '
                          'returning an error): nesting in the input is bounded only by the C stack' % name))
    return RuleResult('R-REC', obs, 1 if member_scope is None else 0, {'cycles': len(sccs)})


def _depth_guard(fn, comp):
    """A branch `counter (>=|>|==) K` on a member/static counter whose true edge returns an error, with counter++
    before and counter-- after a call into the cycle, in the same function."""
    incs, decs = {}, {}
    for n in fn.nodes.values():
        if n['k'] == 'UnaryOperator' and n.get('op') in ('++', '--'):
            t0 = strip(kids(n)[0])
            if t0['k'] != 'MemberExpr' and not (t0['k'] == 'DeclRefExpr' and t0.get('dk') in ('global', 'slocal')):
                continue
            t = show(t0)
            (incs if n['op'] == '++' else decs).setdefault(t, []).append(n)
    calls = [c['i'] for c in fn.calls() if ckey(c) in comp]
    cands = set()
    for t in set(incs) & set(decs):
        for i in incs[t]:
            for d in decs[t]:
                if any(i['i'] < c < d['i'] for c in calls):
                    cands.add(t)
    if not cands:
        return None
    for b in fn.blocks.values():
        cond = fn.nodes.get(b.get('cond')) if 'cond' in b else None
        if cond is None:
            continue
        c = strip(cond)
        if c['k'] == 'BinaryOperator' and c.get('op') in ('>=', '>', '=='):
            t = show(strip(kids(c)[0], casts=True))
            if t in cands and const(kids(c)[1]) is not None and b['s'][0] is not None:
                for e in fn.blocks[b['s'][0]]['e']:
                    x = fn.nodes.get(e)
                    if x is not None and x['k'] == 'ReturnStmt' and kids(x) and (const(kids(x)[0]) or 0) != 0:
                        return 'depth guard `%s` in %s' % (show(c), fn.q)
    return None


def pool_fit(prog, cg):
    """POOL-FIT: a loop that walks memory pools until `pool->ptr + SZ < pool->len`, allocating a fresh pool of
    K bytes when it runs out, terminates only if SZ < K: the interval of SZ at the loop (guards of the function, string
    lengths bounded by the callers' buffers) must lie strictly below K."""
    from nk.interval import Analyzer, FnIntervals
    an = Analyzer(prog)
    an.cg = cg
    obs = []
    for fn in prog.functions(lambda f: f.file.startswith('core/')):
        adds = [c for c in fn.calls() if callee(c) == 'memory_pool_add']
        if not adds:
            continue
        K = min((const(call_args(c)[1]) for c in adds if const(call_args(c)[1]) is not None), default=None)
        if K is None:
            continue
        loops = natural_loops(fn)
        for h, body in loops.items():
            exit_cond = None
            for bid in body:
                b = fn.blocks[bid]
                cond = fn.nodes.get(b.get('cond')) if 'cond' in b else None
                if cond is None:
                    continue
                c = strip(cond)
                if c['k'] == 'BinaryOperator' and c.get('op') in ('<', '<=') and 'len' in show(kids(c)[1]) and '->ptr' in show(kids(c)[0]):
                    exit_cond = c
            if exit_cond is None:
                continue
            # SZ = lhs minus the `pool->ptr` term
            lhs = strip(kids(exit_cond)[0], casts=True)
            terms = []
            st = [lhs]
            while st:
                x = strip(st.pop(), casts=True)
                if x['k'] == 'BinaryOperator' and x.get('op') == '+':
                    st.extend(kids(x))
                elif '->ptr' in show(x):
                    continue
                else:
                    terms.append(x)
            fa = an._fa_cache(fn)
            hi = 0
            unknown = None
            for t in terms:
                v = fa.eval_at(t, exit_cond)
                if v[1] is None or v[1] > 2**31 - 2:
                    unknown = show(t)
                    break
                hi += v[1]
            strict = exit_cond['op'] == '<'
            construct = 'pool-loop'
            if unknown:
                obs.append(Ob('POOL-FIT', fn.file, exit_cond['l'], fn.q, construct, VIOLATED,
                              'the size `%s` of the record appended to a %d-byte pool has no established upper bound: a record that '
                              'never fits a fresh pool makes the allocation loop run forever' % (unknown, K)))
                continue
            ok = hi < K if strict else hi <= K
            obs.append(Ob('POOL-FIT', fn.file, exit_cond['l'], fn.q, construct, DISCHARGED if ok else VIOLATED,
                          '' if ok else 'a record of up to %d bytes is admitted but a fresh %d-byte pool accepts only records with '
                          'ptr + size %s len: the loop allocates pools forever for the largest admitted record' % (hi, K, exit_cond['op']),
                          'record size <= %d < pool size %d' % (hi, K)))
    return RuleResult('POOL-FIT', obs, 2, {})


def getc_char(prog, scope):
    """GETC-CHAR: the result of getc()/fgetc()/FileIo::get_int8() is kept in an int as long as it is compared with EOF.
    Stored in a char first, the data byte 0xff equals EOF (signed char) -- the reader stops in the middle of a binary file
    and everything after it is placed at lower addresses -- or EOF never compares equal (unsigned char) and the loop never
    ends."""
    from nk.facts import walk as _walk
    obs = []
    for fn in sorted(prog.functions(scope), key=lambda f: (f.file, f.line)):
        if not fn.blocks:
            continue
        k = 0
        for c in sorted(fn.calls(), key=lambda x: x['i']):
            q = (callee(c) or '').split('(')[0]
            if q not in ('getc', 'fgetc', 'getchar', 'FileIo::get_int8'):
                continue
            p = fn.parent.get(c['i'])
            while p is not None and p['k'] in ('ImplicitCastExpr', 'ParenExpr', 'CStyleCastExpr'):
                p = fn.parent.get(p['i'])
            d = t = name = None
            if p is not None and p['k'] == 'BinaryOperator' and p.get('op') == '=':
                l = strip(kids(p)[0])
                if l['k'] == 'DeclRefExpr':
                    d, t, name = l.get('d'), fn.type(l), l.get('n')
            elif p is not None and p['k'] == 'DeclStmt':
                for dd, i in zip([x for x in p.get('decls', ()) if x.get('init')], kids(p)):
                    if any(x['i'] == c['i'] for x in _walk(i)):
                        d, t, name = dd['d'], fn.types[dd['t']], dd['n']
            if d is None:
                continue
            k += 1
            narrow = (t or '').replace('const ', '') in ('char', 'unsigned char', 'signed char', 'uint8_t', 'int8_t')
            cmp_eof = None
            for n in fn.nodes.values():
                if n['k'] == 'BinaryOperator' and n.get('op') in ('==', '!='):
                    a, b = kids(n)
                    for x, y in ((a, b), (b, a)):
                        if const(y) == -1 and any(z['k'] == 'DeclRefExpr' and z.get('d') == d for z in _walk(x)):
                            cmp_eof = n
            bad = narrow and cmp_eof is not None
            obs.append(Ob('GETC-CHAR', fn.file, c['l'], fn.q, 'read#%d:%s' % (k, name), VIOLATED if bad else DISCHARGED,
                          '' if not bad else '`%s` (%s) receives the result of %s and is then compared with EOF (line %d): a data byte 0xff '
                          'is taken for the end of the file (or EOF is never seen), so a binary file is cut short or the loop never ends' % (
                              name, t, q, cmp_eof['l']),
                          'kept in %s%s' % (t, '' if cmp_eof is None else ' and compared with EOF as an int'), False))
    if len(obs) < 10:
        raise AnalysisBroken('GETC-CHAR: only %d stored getc results' % len(obs))
    return RuleResult('GETC-CHAR', obs, 10, {})

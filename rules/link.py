"""C20 rules: R-SWAP (same-typed argument transposition), LINK-ORDER, RELOC (jal target masked), LINK-NULL."""
from nk.facts import kids, strip, const, callee, ckey, call_args, show, walk
from nk.report import Ob, RuleResult, DISCHARGED, VIOLATED, OBSERVATION
from nk.build import AnalysisBroken


def _argname(a):
    a = strip(a, casts=True)
    if a['k'] == 'UnaryOperator' and a.get('op') == '&':
        a = strip(kids(a)[0], casts=True)
    if a['k'] == 'DeclRefExpr' and a.get('dk') in ('local', 'param'):
        return a['n']
    return None


def swap(prog, scope, floor=50):
    """R-SWAP: (1) every declaration of a function names its parameters in the same order as the definition;
    (2) at a call, two arguments named like two of the callee's parameters are not passed crosswise."""
    obs = []
    for fn in prog.functions(scope):
        names = [p['n'] for p in fn.params()]
        for rd in fn.j.get('redecls', ()):
            rn = rd['params']
            if len(rn) != len(names) or not all(rn) or not all(names):
                continue
            if rn != names and sorted(rn) == sorted(names):
                diff = [(i, a, b) for i, (a, b) in enumerate(zip(rn, names)) if a != b]
                obs.append(Ob('R-SWAP', fn.file, fn.line, fn.q, 'decl-vs-def', VIOLATED,
                              'the declaration at %s:%d names the parameters %s but the definition %s: callers following the '
                              'declaration pass %s crosswise' % (rd['file'], rd['line'], rn, names, [d[1] for d in diff])))
            elif rn == names:
                obs.append(Ob('R-SWAP', fn.file, fn.line, fn.q, 'decl-vs-def', DISCHARGED, '', 'parameter names agree', False))
        for c in fn.calls():
            k = ckey(c)
            f2 = prog.by_key.get(k) if k else None
            if f2 is None:
                continue
            pn = [p['n'] for p in f2.params()]
            args = call_args(c)
            if len(args) != len(pn):
                continue
            an = [_argname(a) for a in args]
            crossed = None
            for i, n1 in enumerate(an):
                if n1 is None or n1 == pn[i] or n1 not in pn:
                    continue
                j = pn.index(n1)
                if j != i and an[j] is not None and an[j] == pn[i]:
                    crossed = (i, j)
                    break
            if any(n1 in pn for n1 in an if n1):
                obs.append(Ob('R-SWAP', fn.file, c['l'], fn.q, 'call:%s@%d' % (f2.name, c['l'] - fn.line),
                              VIOLATED if crossed else DISCHARGED,
                              'call passes `%s` as parameter `%s` and `%s` as parameter `%s` of %s: the two same-typed arguments '
                              'are transposed' % (an[crossed[0]], pn[crossed[0]], an[crossed[1]], pn[crossed[1]], f2.q) if crossed else '',
                              'arguments named like parameters are passed in position', False))
    return RuleResult('R-SWAP', obs, floor, {})


def link_order(prog):
    """LINK-ORDER: AsmContext::link() binds the symbol to the current address before emitting the function, checks the
    results of append / link_function, and a null `code` (symbol not found) is an error."""
    fn = prog.fn('AsmContext::link')
    obs = []
    ap = [c for c in fn.calls() if callee(c) == 'Symbols::append']
    lf = [c for c in fn.calls() if c.get('indirect') and strip(kids(c)[0], casts=True).get('n') == 'link_function']
    gc = [c for c in fn.calls() if callee(c) == 'Linker::get_code_from_symbol']
    if not ap or not lf or not gc:
        raise AnalysisBroken('LINK-ORDER: AsmContext::link not in the recognised shape')
    a_addr = strip(call_args(ap[0])[1], casts=True)
    ok = ap[0]['i'] < lf[0]['i'] and a_addr['k'] == 'MemberExpr' and a_addr['n'] == 'address'
    stores = [n for n in fn.nodes.values() if ap[0]['i'] < n['i'] < lf[0]['i'] and n['k'] in ('BinaryOperator', 'CompoundAssignOperator')
              and n.get('op', '').endswith('=') and n['op'] not in ('==', '!=', '<=', '>=') and strip(kids(n)[0]).get('n') == 'address'
              and strip(kids(n)[0])['k'] == 'MemberExpr']
    ok = ok and not stores
    obs.append(Ob('LINK-ORDER', fn.file, ap[0]['l'], fn.q, 'bind-then-emit', DISCHARGED if ok else VIOLATED,
                  '' if ok else 'the imported symbol is not bound to the location counter immediately before its code is emitted',
                  'symbols.append(symbol, address) precedes link_function with no store to address between'))
    # argument order into link_function: (this, imports, code, function_offset, function_size, obj_file, obj_size)
    la = [_argname(a) for a in call_args(lf[0])]
    ga = [_argname(a) for a in call_args(gc[0])]
    ok = la[3:5] == ga[2:4] and la[5:7] == ga[4:6]
    obs.append(Ob('LINK-ORDER', fn.file, lf[0]['l'], fn.q, 'offset-size-flow', DISCHARGED if ok else VIOLATED,
                  '' if ok else 'link_function receives %s but get_code_from_symbol filled %s' % (la[3:7], ga[2:6]),
                  'offset/size/obj_file/obj_size flow from get_code_from_symbol to link_function in order'))
    return RuleResult('LINK-ORDER', obs, 2, {})


def reloc(prog):
    """RELOC: link_function_mips patches a jal by replacing its 26-bit target field: the opcode bits 31..26 are kept and
    bits 25..0 are exactly bits 27..2 of the callee's address.  The stores to `opcode` that take part in the patch are
    found by provenance (a term from `address`, a kept `opcode & 0xfc000000`), whatever the spelling (two statements, one
    expression, a temporary)."""
    fn = prog.fn('link_function_mips')
    from nk.bitflow import Sym
    s = Sym(prog, fn, fn.body, inline=False, single_only=True)
    obs = []
    keep = None
    ins = []
    for n in sorted(fn.nodes.values(), key=lambda x: x['i']):
        if n['k'] in ('BinaryOperator', 'CompoundAssignOperator') and n.get('op') in ('=', '|=') and \
                strip(kids(n)[0]).get('n') == 'opcode':
            for x in walk(kids(n)[1]):
                if x['k'] == 'BinaryOperator' and x.get('op') == '&' and const(kids(x)[1]) == 0xfc000000 and \
                        strip(kids(x)[0], casts=True).get('n') == 'opcode':
                    keep = n
            terms = [t for t in s.sym(kids(n)[1]) if t.leaf and 'address' in str(t.leaf)]
            if terms:
                ins.append((n, terms))
    if keep is None or not ins:
        raise AnalysisBroken('RELOC: jal patch (opcode & 0xfc000000 kept, target from `address`) not found in link_function_mips')
    for n, terms in ins:
        ok = all(t.shift == -2 and t.dmask == 0x03ffffff for t in terms)
        obs.append(Ob('RELOC', fn.file, n['l'], fn.q, 'jal-field', DISCHARGED if ok else VIOLATED,
                      '' if ok else 'the jal target field is built as %s: it must be exactly address bits 27..2 in bits 25..0 '
                      '((address >> 2) & 0x03ffffff) -- fewer bits send the call to another address of the 256 MB region, more bits '
                      'overwrite the opcode' % ', '.join(repr(t) for t in terms),
                      'target field = (address >> 2) & 0x03ffffff, opcode kept under 0xfc000000'))
    return RuleResult('RELOC', obs, 1, {})


def name_exact(prog):
    """NAME-EXACT: the import parsers identify ELF sections and ar members by their whole name.
    (a) core/imports_obj.cpp: a section name is compared with a literal (".text", ".rel.text", ".strtab", ...) by an
        exact string comparison; a prefix comparison (strncmp with a length that does not cover the terminator) makes
        `.text.unlikely`, `.rel.text.startup` ... match as well and the last match wins.
    (b) core/imports_ar.cpp: the 16-byte member identifier is compared as a whole field (strncmp/memcmp over 16 bytes);
        a test of single characters classifies long-named members (`/123`) as the special `/` or `//` member."""
    obs = []
    # (a)
    k = 0
    for fn in prog.functions(lambda f: f.file == 'core/imports_obj.cpp'):
        for c in sorted(fn.calls(), key=lambda x: x['i']):
            q = callee(c)
            if q not in ('strcmp', 'strncmp', 'strcasecmp', 'strncasecmp', 'memcmp'):
                continue
            args = call_args(c)
            lits = [strip(a, casts=True) for a in args[:2]]
            lit = [x for x in lits if x['k'] == 'StringLiteral']
            if not lit or not (lit[0].get('s') or '').startswith('.'):
                continue
            k += 1
            s_ = lit[0]['s']
            ok = q in ('strcmp', 'strcasecmp')
            if not ok:
                n_ = const(args[2]) if len(args) > 2 else None
                ok = n_ is not None and n_ > len(s_) and q != 'memcmp' or (q == 'memcmp' and n_ == len(s_) + 1)
            obs.append(Ob('NAME-EXACT', fn.file, c['l'], fn.q, 'section:%s#%d' % (s_, k), DISCHARGED if ok else VIOLATED,
                          '' if ok else '`%s` matches every section whose name starts with "%s": with two such sections the '
                          'offsets of the last one are used for the symbols of the first' % (show(c)[:60], s_),
                          'exact comparison with "%s"' % s_))
    na = k
    # (b)
    rec = prog.records.get('Header')
    k = 0
    for fn in prog.functions(lambda f: f.file == 'core/imports_ar.cpp'):
        for n in sorted(fn.nodes.values(), key=lambda x: x['i']):
            if n['k'] != 'MemberExpr' or n.get('n') != 'file_identifier':
                continue
            p = fn.parent.get(n['i'])
            while p is not None and p['k'] in ('ImplicitCastExpr', 'ParenExpr', 'CStyleCastExpr'):
                p = fn.parent.get(p['i'])
            if p is None:
                continue
            if p['k'] in ('CallExpr',) and callee(p) in ('printf', 'fprintf'):
                continue
            k += 1
            if p['k'] == 'CallExpr' and callee(p) in ('strncmp', 'memcmp'):
                args = call_args(p)
                n_ = const(args[2]) if len(args) > 2 else None
                lit = [strip(a, casts=True) for a in args[:2] if strip(a, casts=True)['k'] == 'StringLiteral']
                ok = n_ == 16 and lit and len(lit[0].get('s') or '') == 16
                det = '' if ok else '`%s` does not compare the whole 16-byte identifier field' % show(p)[:70]
            elif p['k'] == 'ArraySubscriptExpr':
                ok = False
                gp = fn.parent.get(p['i'])
                while gp is not None and gp['k'] in ('ImplicitCastExpr', 'ParenExpr'):
                    gp = fn.parent.get(gp['i'])
                det = ('`%s` classifies an archive member by a single character of its identifier: a long-named member '
                       '(`/<offset>`) is taken for the `/` or `//` special member' % show(gp or p)[:60])
            else:
                ok = False
                det = 'identifier used in `%s`' % show(p)[:60]
            obs.append(Ob('NAME-EXACT', fn.file, n['l'], fn.q, 'ar-identifier#%d' % k, DISCHARGED if ok else VIOLATED, det,
                          'whole-field comparison (16 bytes)'))
    if na < 3 or k < 2:
        raise AnalysisBroken('NAME-EXACT: %d section-name tests, %d identifier tests (expected >= 3 and >= 2)' % (na, k))
    return RuleResult('NAME-EXACT', obs, 5, {})

"""C11 (partial): T-SIB(b) pool walkers, FIND-ORDER, T-SIB(h) definition names, SCOPE-WIDTH, R-ERR1/2 on Symbols."""
from nk import report
from rules import sym, err, elf
from . import common
from . import C02 as _c02

EXPLANATION = (
    'Decides the structural clauses listed; does not decide the behaviour as a whole. T-SIB(b): every function that walks the '
    'symbol/macro memory pools restarts its byte offset when it advances to the next pool and dereferences the cursor it '
    'advances (labels beyond one 32 KiB pool). FIND-ORDER: Symbols::find searches the current scope (only inside a scope) '
    'before scope 0. T-SIB(h): names handed to Symbols::append/set/export_symbol/macros_append are read with symbol '
    'substitution off. SCOPE-WIDTH: an entry\'s scope field holds every value of the scope counter. R-ERR1/R-ERR2: '
    'duplicate-label and other symbol errors are propagated by every caller. FIND-EXHAUSTIVE: a symbol/macro lookup loop is left early only '
    'through its strcmp match (no entry is skipped by an early stop). ELF-LAYOUT: the symbol table (and the other ELF structures) are written '
    'with the Elf32/Elf64 field order and widths selected by EI_CLASS. DUP-GLOBAL: with no scope open a second definition of a found name is always rejected. Not decided: scope numbering equality '
    'between the passes for arbitrary programs.')


def run(tier, t0):
    prog = common.program()
    table = err.load_table('err_table.json')
    callers = set()
    for fn in prog.fns.values():
        for c in fn.calls():
            if (c.get('callee') or '').startswith('Symbols::'):
                callers.add(fn.key)

    def scope(fn):
        return fn.file in ('core/Symbols.cpp', 'core/Symbols.h') or (fn.key in callers and fn.file.startswith(('core/', 'main/naken_asm')))
    e1 = err.err1(prog, scope, table, floor=10)
    e1.obs = [o for o in e1.obs if o.construct.split('#')[0] in ('append', 'set', 'export_symbol', 'lookup', 'scope_start')]
    e1.floor = 5
    results = [sym.pool_walkers(prog, 8), sym.find_order(prog), sym.defnames(prog), sym.scope_width(prog), e1,
               sym.find_exhaustive(prog, lambda f: f.file in ("core/Symbols.cpp", "core/Macros.cpp"), 2), elf.layout(prog), elf.strtab_pair(prog), elf.patch_width(prog),
               err.err2(prog, lambda f: f.file in ('core/Symbols.cpp',), table, floor=3), _c02.symset(prog), sym.dup_global(prog)]
    return report.finish('C11', tier, results, EXPLANATION, [], common.TRUSTED, t0)

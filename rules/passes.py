"""State and two-pass rules: R-PASS, T-SIB(a) inter-pass protocol, ADD-SYM, R-UNIT, DOC-RANGE, RES, DIRECTIVE table."""
from nk.facts import kids, strip, const, callee, ckey, call_args, show, walk
from nk.interval import Analyzer
from nk.report import Ob, RuleResult, DISCHARGED, VIOLATED, OBSERVATION
from nk.build import AnalysisBroken

# fields that may legitimately keep their pass-1 value in pass 2 (frozen, one reason each)
ALLOWED_CARRY = {
    ('Memory', 'pages'): 'the image itself', ('Memory', 'low_address'): 'image extent', ('Memory', 'high_address'): 'image extent',
    ('Memory', 'entry_point'): 'set by a directive replayed in pass 2',
    ('AsmContext', 'error'): 'error channel (R-ERR4)', ('AsmContext', 'error_count'): 'error channel (R-ERR4)',
    ('AsmContext', 'ignore_symbols'): 'set and restored inside parse_set/parse_export/parse_equ',
    ('AsmContext', 'write_list_file'): 'reporting switch set by main() for pass 2 (R-OPT)',
}
# carried fields that cannot change the bytes of an accepted program (a rejection or nothing follows): observations
OBSERVE_CARRY = {
    ('Symbols', 'in_scope'): 'scope flag; scope ids are reset by symbols.scope_reset() in main',
    ('Symbols', 'current_scope'): 'reset by symbols.scope_reset() between the passes (T-SIB(a))',
}
# set_cpu() copies: carried, but every program that changes them does so through a CPU directive that pass 2 replays;
# they matter only for statements placed before the first CPU directive
SET_CPU_COPIES = 'copied from cpu_list[] by set_cpu(); replayed by the CPU directive in pass 2'


def _stores(prog, keys, recs):
    out = {}
    for q in keys:
        fn = prog.by_key.get(q)
        if not fn:
            continue
        for n in fn.nodes.values():
            t = None
            if n['k'] in ('BinaryOperator', 'CompoundAssignOperator') and n.get('op', '').endswith('=') and \
                    n['op'] not in ('==', '!=', '<=', '>='):
                t = strip(kids(n)[0])
            elif n['k'] == 'UnaryOperator' and n.get('op') in ('++', '--'):
                t = strip(kids(n)[0])
            if t is not None and t['k'] == 'MemberExpr' and t.get('rec') in recs:
                out.setdefault((t['rec'], t['n']), []).append((fn, n))
    return out


_PD = {}


def _uncond(fn, n):
    """Is the store executed on every path through its function (its block post-dominates the entry)?"""
    from nk.cfg import dominators
    if not fn.blocks:
        return True
    if fn.key not in _PD:
        _PD[fn.key] = dominators(fn, post=True)
    w = fn.block_of(n)
    if w is None:
        return True
    return w[0] == fn.entry or w[0] in _PD[fn.key].get(fn.entry, ())


def rpass(prog, cg):
    """R-PASS: every AsmContext/Memory/Symbols/Tokens/Macros field stored while assembling is either re-initialised
    by AsmContext::init() (and its callees) before pass 2 or on the frozen allowed-carry list."""
    recs = ('AsmContext', 'Memory', 'Tokens', 'Symbols', 'Macros')
    W = _stores(prog, cg.reachable(['AsmContext::assemble']), recs)
    R = _stores(prog, cg.reachable(['AsmContext::init']), recs)
    if not R:
        raise AnalysisBroken('R-PASS: AsmContext::init() stores nothing')
    setcpu = {k for k, v in W.items() if all(fn.q.startswith('AsmContext::set_cpu') for fn, _ in v)}
    obs = []
    for key in sorted(W):
        fn, n = W[key][0]
        name = '%s::%s' % key
        if key in R and not any(_uncond(f2, n2) for f2, n2 in R[key]):
            f2, n2 = R[key][0]
            obs.append(Ob('R-PASS', f2.file, n2['l'], f2.q, name, VIOLATED,
                          '%s is written while assembling (%s:%d) and the only stores that reset it for pass 2 (%s, line %d) are '
                          'conditional: on the other path pass 2 starts with the value pass 1 ended with' % (
                              name, fn.file, n['l'], f2.q, n2['l'])))
        elif key in R:
            obs.append(Ob('R-PASS', fn.file, n['l'], fn.q, name, DISCHARGED, '', 're-initialised by init() at %s:%d' % (
                R[key][0][0].file, R[key][0][1]['l']), False))
        elif key in ALLOWED_CARRY:
            obs.append(Ob('R-PASS', fn.file, n['l'], fn.q, name, DISCHARGED, '', 'allowed carry: ' + ALLOWED_CARRY[key], False))
        elif key in OBSERVE_CARRY:
            obs.append(Ob('R-PASS', fn.file, n['l'], fn.q, name, OBSERVATION, OBSERVE_CARRY[key]))
        else:
            obs.append(Ob('R-PASS', fn.file, n['l'], fn.q, name, VIOLATED,
                          '%s is written while assembling (%s:%d) but AsmContext::init() does not reset it: pass 2 starts '
                          'with the value left by the end of pass 1, so statements before the directive that sets it are '
                          'assembled differently in the two passes' % (name, fn.file, n['l'])))
    return RuleResult('R-PASS', obs, 15, {'written': len(W), 'reset': len(R)})


def interpass(prog):
    """T-SIB(a): between the two assemble() calls of naken_asm's main(): symbols.lock(), symbols.scope_reset(),
    pass = 2 and init() are executed on every path."""
    fn = prog.fn('main', 'main/naken_asm.cpp')
    asm = sorted((c for c in fn.calls() if callee(c) == 'AsmContext::assemble' and fn.where.get(c['i'])), key=lambda c: c['i'])
    if len(asm) != 2:
        raise AnalysisBroken('T-SIB(a): main() has %d assemble() calls' % len(asm))
    a, b = fn.where[asm[0]['i']], fn.where[asm[1]['i']]
    need = {'Symbols::lock': 'without it every label is appended again in pass 2 and rejected as a duplicate',
            'Symbols::scope_reset': 'without it pass-2 scope ids continue from pass 1 and local labels resolve to nothing',
            'AsmContext::init': 'without it the location counter and per-pass state are not restarted',
            'pass=2': 'without it pass-2-only checks and emission are skipped'}
    obs = []
    for what, why in need.items():
        # search: is there a path from a to b avoiding `what`?
        seen = set()
        st = [(a[0], a[1] + 1)]
        avoid = False
        while st and not avoid:
            bid, idx = st.pop()
            if (bid, idx == 0) in seen and idx == 0:
                continue
            if idx == 0:
                seen.add((bid, True))
            hit = False
            els = fn.blocks[bid]['e']
            for pos in range(idx, len(els)):
                n = fn.nodes.get(els[pos])
                if n is None:
                    continue
                if bid == b[0] and pos == b[1]:
                    avoid = True
                    break
                if what == 'pass=2':
                    if n['k'] == 'BinaryOperator' and n.get('op') == '=' and strip(kids(n)[0]).get('n') == 'pass' and const(kids(n)[1]) == 2:
                        hit = True
                        break
                    if n['k'] in ('CallExpr', 'CXXMemberCallExpr') and _must_do(prog, ckey(n), what, 0, call_args(n)):
                        hit = True
                        break
                elif callee(n) == what or (n['k'] in ('CallExpr', 'CXXMemberCallExpr') and _must_do(prog, ckey(n), what, 0)):
                    hit = True
                    break
            if hit or avoid:
                continue
            for s_ in fn.succs(bid):
                st.append((s_, 0))
        obs.append(Ob('T-SIB', fn.file, asm[1]['l'], 'main', 'interpass:' + what, VIOLATED if avoid else DISCHARGED,
                      'a path from the first assemble() to the second skips %s: %s' % (what, why) if avoid else '',
                      'every path between the passes executes ' + what))
    return RuleResult('T-SIB(a)', obs, 4, {})


def _must_do(prog, key, what, depth, args=None):
    """Does every path through function `key` execute `what` (a call of that name, possibly inside a callee that must
    execute it; or, for 'pass=2', a store of 2 -- or of a parameter that receives the constant 2 -- to the pass field)?"""
    f = prog.by_key.get(key) if key else None
    if f is None or not f.blocks or depth > 3:
        return False
    pvals = {}
    if args is not None:
        for p, a in zip(f.params(), args):
            if const(a) is not None:
                pvals[p['d']] = const(a)
    seen = set()
    st = [f.entry]
    while st:
        b = st.pop()
        if b in seen:
            continue
        seen.add(b)
        hit = False
        for e in f.blocks[b]['e']:
            n = f.nodes.get(e)
            if n is None:
                continue
            if what == 'pass=2':
                if n['k'] == 'BinaryOperator' and n.get('op') == '=' and strip(kids(n)[0]).get('n') == 'pass':
                    r = strip(kids(n)[1], casts=True)
                    if const(kids(n)[1]) == 2 or (r['k'] == 'DeclRefExpr' and pvals.get(r.get('d')) == 2):
                        hit = True
                        break
            elif n['k'] in ('CallExpr', 'CXXMemberCallExpr') and (callee(n) == what or _must_do(prog, ckey(n), what, depth + 1)):
                hit = True
                break
        if hit:
            continue
        if b == f.exit:
            return False
        st.extend(f.succs(b))
    return True


def addsym(prog):
    """ADD-SYM: in add_bin8/16/32 the pass-1 skip branch advances `address` by exactly the number of bytes the write
    branch emits."""
    obs = []
    for name, w in (('add_bin8', 1), ('add_bin16', 2), ('add_bin32', 4)):
        fn = prog.fn(name)
        skip = None
        for n in fn.nodes.values():
            if n['k'] == 'CompoundAssignOperator' and n.get('op') == '+=' and strip(kids(n)[0]).get('n') == 'address':
                skip = const(kids(n)[1])
            elif n['k'] == 'UnaryOperator' and n.get('op') == '++' and strip(kids(n)[0]).get('n') == 'address':
                skip = 1
        # bytes emitted on each write path: count memory_write_inc per CompoundStmt branch
        counts = set()
        for n in fn.nodes.values():
            if n['k'] == 'CompoundStmt':
                c = sum(1 for ch in kids(n) if ch is not None and callee(strip(ch)) == 'AsmContext::memory_write_inc')
                if c:
                    counts.add(c)
        if skip is None or not counts:
            raise AnalysisBroken('ADD-SYM: %s not in the recognised shape' % name)
        ok = counts == {w} and skip == w
        obs.append(Ob('ADD-SYM', fn.file, fn.line, fn.q, 'skip-vs-write', DISCHARGED if ok else VIOLATED,
                      '' if ok else 'pass-1 skip advances the address by %s but the write branches emit %s byte(s) (unit is %d): '
                      'labels move between the passes' % (skip, sorted(counts), w), 'skip %d == emitted %d' % (skip, w)))
    return RuleResult('ADD-SYM', obs, 3, {})


def unit(prog):
    """R-UNIT: conversions between byte addresses (AsmContext::address, Memory low/high) and CPU address units
    (symbol values, `$`, .org/.low_address/.high_address operands) apply bytes_per_address exactly once."""
    obs = []

    def bpa_ops(e):
        mul = div = 0
        for x in walk(e):
            if x['k'] == 'BinaryOperator' and x.get('op') in ('*', '/'):
                if any('bytes_per_address' in show(k) for k in kids(x)[1:]) or (x['op'] == '*' and 'bytes_per_address' in show(kids(x)[0])):
                    if x['op'] == '*':
                        mul += 1
                    else:
                        div += 1
        return mul, div
    # A: symbol definitions from the location counter
    for fn in prog.functions(lambda f: f.file.startswith('core/') and 'Util' not in f.file):
        k = 0
        for c in sorted(fn.calls(), key=lambda x: x['i']):
            if callee(c) not in ('Symbols::append', 'Symbols::set'):
                continue
            a = call_args(c)
            if len(a) < 2 or not any(x['k'] == 'MemberExpr' and x['n'] == 'address' for x in walk(a[1])):
                continue
            k += 1
            mul, div = bpa_ops(a[1])
            ok = (mul, div) == (0, 1)
            acc = fn.q == 'AsmContext::link'   # link-capable CPUs all have bytes_per_address == 1 (T-CPU)
            obs.append(Ob('R-UNIT', fn.file, c['l'], fn.q, 'symbol-from-address#%d' % k,
                          DISCHARGED if ok else (OBSERVATION if acc else VIOLATED),
                          '' if ok else 'symbol value `%s` is taken from the byte location counter without exactly one division by '
                          'bytes_per_address' % show(a[1])[:50], 'address / bytes_per_address', False))
    # B: byte addresses from evaluated operands
    for q, field in (('parse_low_address', 'low_address'), ('parse_high_address', 'high_address')):
        fn = [f for f in prog.by_name.get(q, []) if f.file == 'core/directives.cpp']
        if not fn:
            raise AnalysisBroken('R-UNIT: %s not found' % q)
        fn = fn[0]
        for n in fn.nodes.values():
            if n['k'] == 'BinaryOperator' and n.get('op') == '=' and strip(kids(n)[0]).get('n') == field:
                mul, div = bpa_ops(kids(n)[1])
                ok = (mul, div) == (1, 0)
                obs.append(Ob('R-UNIT', fn.file, n['l'], fn.q, 'bytes-from-operand', DISCHARGED if ok else VIOLATED,
                              '' if ok else '`%s` does not scale the operand by bytes_per_address exactly once' % show(n)[:60],
                              'operand * bytes_per_address', False))
    so = prog.fn('AsmContext::set_org')
    for n in so.nodes.values():
        if n['k'] == 'BinaryOperator' and n.get('op') == '=' and strip(kids(n)[0]).get('n') == 'address':
            mul, div = bpa_ops(kids(n)[1])
            ok = (mul, div) == (1, 0)
            obs.append(Ob('R-UNIT', so.file, n['l'], so.q, 'org', DISCHARGED if ok else VIOLATED,
                          '' if ok else '.org does not scale its operand by bytes_per_address exactly once', 'value * bytes_per_address', False))
    # C: `$`
    tg = prog.fn('tokens_get')
    found = False
    for c in tg.calls():
        if callee(c) == 'snprintf':
            a = call_args(c)
            if len(a) >= 4 and any(x['k'] == 'MemberExpr' and x['n'] == 'address' for x in walk(a[3])):
                found = True
                mul, div = bpa_ops(a[3])
                ok = (mul, div) == (0, 1)
                obs.append(Ob('R-UNIT', tg.file, c['l'], tg.q, 'dollar', DISCHARGED if ok else VIOLATED,
                              '' if ok else '`$` is substituted by `%s`: not the byte counter divided once by bytes_per_address' % show(a[3])[:50],
                              '$ = address / bytes_per_address', False))
    if not found:
        raise AnalysisBroken('R-UNIT: `$` substitution in tokens_get not found')
    return RuleResult('R-UNIT', obs, 6, {})


def docrange(prog, an=None):
    """DOC-RANGE: .db accepts exactly -128..255 and .dw/.dc16 exactly -32768..65535 (interval of the value at the
    point where it is narrowed/emitted), and the emitted cast has the directive's width."""
    an = an or Analyzer(prog)
    obs = []
    for q, lo, hi, tname in (('parse_db', -128, 255, 'unsigned char'), ('parse_dc16', -32768, 65535, 'unsigned short')):
        fn = prog.fn(q)
        fa = an._fa_cache(fn)
        sites = []
        for n in fn.nodes.values():
            if n['k'] in ('CStyleCastExpr', 'CXXStaticCastExpr') and fn.type(n) == tname:
                inner = strip(kids(n)[0], casts=False)
                x = inner
                while x['k'] in ('ImplicitCastExpr', 'ParenExpr'):
                    x = kids(x)[0]
                if x['k'] == 'DeclRefExpr' and x.get('dk') == 'local':
                    sites.append((n, x))
        if not sites:
            raise AnalysisBroken('DOC-RANGE: narrowing cast in %s not found' % q)
        for n, x in sites:
            iv = fa.eval_at(x, n)
            ok = iv == (lo, hi)
            obs.append(Ob('DOC-RANGE', fn.file, n['l'], fn.q, 'accepted-range', DISCHARGED if ok else VIOLATED,
                          '' if ok else 'values reaching the %s narrowing are in %s, the documentation says %d..%d are accepted and '
                          'everything else rejected' % (tname, iv, lo, hi), 'value range %s at the narrowing' % (iv,)))
    return RuleResult('DOC-RANGE', obs, 2, {})


def res(prog, cg):
    """RES: .resb/.resw/.align only move the location counter (no memory write reachable)."""
    obs = []
    writers = ('AsmContext::memory_write_inc', 'AsmContext::memory_write', 'Memory::write8', 'Memory::write', 'add_bin8',
               'add_bin16', 'add_bin32', 'Memory::write16', 'Memory::write32')
    for q in ('parse_resb', 'parse_align@core/directives_data.cpp', 'parse_align_bits', 'parse_align_bytes'):
        fn = prog.by_key.get(q)
        if fn is None:
            raise AnalysisBroken('RES: %s not found' % q)
        r = cg.reachable([q])
        # only direct effects: eval_expression can reach tokens/macros but never writes the image; check the
        # function's own calls and static helpers in the same file
        bad = [c for c in fn.calls() if callee(c) in writers]
        moves = any((n['k'] in ('CompoundAssignOperator', 'UnaryOperator') and strip(kids(n)[0]).get('n') == 'address')
                    or callee(n) in ('parse_align',) for n in fn.nodes.values())
        ok = not bad and moves
        obs.append(Ob('RES', fn.file, fn.line, fn.q, 'no-write', DISCHARGED if ok else VIOLATED,
                      '' if ok else ('reserve/align directive writes the image at line %d' % bad[0]['l'] if bad else
                                     'the directive no longer advances the location counter'),
                      'advances address, writes nothing', False))
    return RuleResult('RES', obs, 4, {})


DIRECTIVES = {'db': ('parse_db', 0), 'dc8': ('parse_db', 0), 'ascii': ('parse_db', 0), 'asciiz': ('parse_db', 1),
              'dw': ('parse_dc16', None), 'dc16': ('parse_dc16', None),
              'dl': ('parse_dc32', None), 'dc32': ('parse_dc32', None), 'dd': ('parse_dc32', None),
              'dc64': ('parse_dc64', None), 'dq': ('parse_dc64', None),
              'resb': ('parse_resb', 1), 'resw': ('parse_resb', 2), 'org': ('parse_org', None)}


def directives(prog):
    """DIRECTIVE: AsmContext::directive routes each documented data directive name to the handler of its width."""
    fn = prog.fn('AsmContext::directive')
    got = {}
    for b in fn.blocks.values():
        cond = fn.nodes.get(b.get('cond')) if 'cond' in b else None
        if cond is None:
            continue
        names = []
        for x in walk(cond):
            if callee(x) == 'strcmp':
                lit = strip(call_args(x)[1], casts=True)
                if lit['k'] == 'StringLiteral':
                    names.append(lit['s'])
        if not names:
            continue
    # simpler: walk IfStmt nodes: condition strings + first call in the then-branch
    for n in fn.nodes.values():
        if n['k'] != 'IfStmt':
            continue
        ks = [k for k in kids(n) if k is not None]
        if len(ks) < 2:
            continue
        names = [strip(call_args(x)[1], casts=True).get('s') for x in walk(ks[0]) if callee(x) == 'strcmp']
        handler = None
        for x in walk(ks[1]):
            if x['k'] == 'CallExpr' and (callee(x) or '').startswith('parse_'):
                a = call_args(x)
                handler = (callee(x), const(a[1]) if len(a) > 1 else None)
                break
        for nm in names:
            if nm and handler:
                got[nm] = handler
    obs = []
    for nm, want in DIRECTIVES.items():
        g = got.get(nm)
        ok = g == want
        obs.append(Ob('DIRECTIVE', fn.file, fn.line, fn.q, 'directive:' + nm, DISCHARGED if ok else VIOLATED,
                      '' if ok else 'directive `%s` is handled by %s, the documented width needs %s' % (nm, g, want),
                      '%s -> %s' % (nm, g), False))
    return RuleResult('DIRECTIVE', obs, 12, {})


def default_cpu(prog, cg):
    """DEFAULT-CPU: a source without a CPU directive is assembled by the default CPU with that CPU's complete cpu_list[]
    settings: AsmContext::init() selects it through set_cpu() (not by storing parse_instruction / list_output by hand,
    which leaves pass_1_write_disable, alignment, srec_size ... at other values), and cpu_list_index is never given a
    negative value, because file_write() and include_parse() use it as a subscript of cpu_list[]."""
    init = prog.fn('AsmContext::init')
    reach = cg.reachable(['AsmContext::init'])
    calls_set = any(k.startswith('AsmContext::set_cpu') for k in reach)
    by_hand = [n for n in init.nodes.values() if n['k'] == 'BinaryOperator' and n.get('op') == '=' and
               strip(kids(n)[0]).get('n') in ('parse_instruction', 'list_output')]
    ok = calls_set and not by_hand
    obs = [Ob('DEFAULT-CPU', init.file, init.line, init.q, 'selects-through-set_cpu', DISCHARGED if ok else VIOLATED,
              '' if ok else 'init() %s: the default CPU runs with settings that are not those of its cpu_list[] entry (msp430 needs '
              'pass_1_write_disable = 1 for its pass-1 memo, -type srec/elf read its srec_size/alignment)' % (
                  'installs parse_instruction/list_output itself (line %d)' % by_hand[0]['l'] if by_hand else 'does not call set_cpu()'),
              'init() calls set_cpu()')]
    neg = []
    nstores = 0
    for fn in prog.fns.values():
        if fn.file.startswith('tests/'):
            continue
        for n in fn.nodes.values():
            if n['k'] == 'BinaryOperator' and n.get('op') == '=' and strip(kids(n)[0]).get('n') == 'cpu_list_index' and \
                    strip(kids(n)[0]).get('rec') == 'AsmContext':
                nstores += 1
                v = const(kids(n)[1])
                if v is not None and v < 0:
                    neg.append((fn, n))
    obs.append(Ob('DEFAULT-CPU', neg[0][0].file if neg else init.file, neg[0][1]['l'] if neg else init.line,
                  neg[0][0].q if neg else 'AsmContext', 'cpu_list_index>=0', VIOLATED if neg else DISCHARGED,
                  'cpu_list_index is set to %s: cpu_list[cpu_list_index] in file_write() / include_parse() reads in front of the table' % (
                      const(kids(neg[0][1])[1])) if neg else '', '%d stores, none negative' % nstores))
    if nstores < 1:
        raise AnalysisBroken('DEFAULT-CPU: no store to AsmContext::cpu_list_index found')
    return RuleResult('DEFAULT-CPU', obs, 2, {})


def string_loop(prog):
    """STR-ALL: the loops of the data directives that walk a quoted string character by character (`while (*s != 0)`,
    `while (token[n] != 0)`) emit every character: their only exit is the end-of-string test in the header (no break / return
    in the body), so nothing after an embedded `\\0` escape or any other character is dropped."""
    from nk.cfg import natural_loops
    obs = []
    for fn in sorted(prog.fns.values(), key=lambda f: (f.file, f.line)):
        if not fn.blocks or fn.file not in ('core/directives_data.cpp',):
            continue
        k = 0
        for h, body in sorted(natural_loops(fn).items()):
            cn = fn.nodes.get(fn.blocks[h].get('cond')) if 'cond' in fn.blocks[h] else None
            if cn is None:
                continue
            own = strip(cn)
            if own['k'] != 'BinaryOperator' or own.get('op') != '!=' or const(kids(own)[1]) != 0:
                continue
            l = strip(kids(own)[0], casts=True)
            if not ((l['k'] == 'UnaryOperator' and l.get('op') == '*') or l['k'] == 'ArraySubscriptExpr'):
                continue
            # the body must emit (a string walk that writes the image)
            emits = any(callee(fn.nodes[e]) in ('AsmContext::memory_write_inc', 'add_bin8') for b in body for e in fn.blocks[b]['e']
                        if fn.nodes.get(e) is not None and fn.nodes[e]['k'] in ('CallExpr', 'CXXMemberCallExpr'))
            if not emits:
                continue
            k += 1
            exits = [(b, s_) for b in body if b != h for s_ in fn.blocks[b]['s'] if s_ is not None and s_ not in body]
            ok = not exits
            obs.append(Ob('STR-ALL', fn.file, cn['l'], fn.q, 'string-loop#%d' % k, DISCHARGED if ok else VIOLATED,
                          '' if ok else 'the character loop `%s` can be left from inside its body (block %d): the rest of the string after that '
                          'point is not emitted, later data and labels move down' % (show(own), exits[0][0]),
                          'left only through its end-of-string test', False))
    # .asciiz: the terminator belongs to each string operand: the emission guarded by the null-termination flag lies inside
    # the operand loop (the loop that contains the character loop), not behind it
    nz = 0
    for fn in sorted(prog.fns.values(), key=lambda f: (f.file, f.line)):
        if not fn.blocks or fn.file != 'core/directives_data.cpp':
            continue
        flags = [p for p in fn.params() if 'null' in (p.get('n') or '')]
        if not flags:
            continue
        loops = natural_loops(fn)
        charloops = [body for h, body in loops.items()
                     if any(callee(fn.nodes[e]) in ('AsmContext::memory_write_inc', 'add_bin8') for b in body for e in fn.blocks[b]['e']
                            if fn.nodes.get(e) is not None and fn.nodes[e]['k'] in ('CallExpr', 'CXXMemberCallExpr'))]
        for c in fn.calls():
            if callee(c) not in ('AsmContext::memory_write_inc', 'add_bin8') or const(call_args(c)[0] if callee(c) != 'add_bin8' else call_args(c)[1]) != 0:
                continue
            guarded = False
            prev = c
            for anc in fn.ancestors(c):
                if anc['k'] == 'IfStmt' and any(x['k'] == 'DeclRefExpr' and x.get('d') == flags[0]['d'] for x in walk(kids(anc)[0])):
                    guarded = True
                prev = anc
            if not guarded:
                continue
            nz += 1
            w = fn.block_of(c)
            inloop = w is not None and any(w[0] in body for body in charloops)
            obs.append(Ob('STR-ALL', fn.file, c['l'], fn.q, 'terminator#%d' % nz, DISCHARGED if inloop else VIOLATED,
                          '' if inloop else 'the terminating zero of .asciiz is emitted outside the loop over the operands: with several '
                          'strings only the last one is terminated and every later label moves down', 'emitted once per operand', False))
    if not obs or nz == 0:
        raise AnalysisBroken('STR-ALL: no emitting string loop / no .asciiz terminator in core/directives_data.cpp')
    return RuleResult('STR-ALL', obs, 2, {})

"""Simulator rules (C15)."""
from nk.facts import kids, strip, const, show, walk, callee, call_args
from nk.report import Ob, RuleResult, DISCHARGED, VIOLATED, OBSERVATION
from nk.build import AnalysisBroken

MULTI = {'Memory::read16': 2, 'Memory::write16': 2, 'Memory::read32': 4, 'Memory::write32': 4}
BYTE = ('Memory::read8', 'Memory::write8')


def _wrap_mask(a):
    """The low-ones mask 2^k - 1 applied at the top of an address expression, else None."""
    a = strip(a, casts=True)
    if a['k'] == 'BinaryOperator' and a.get('op') == '&':
        for x in kids(a):
            m = const(x)
            if m is not None and m > 0xff and (m + 1) & m == 0:
                return m
    return None


def addr_space(prog):
    """ADDR-SPACE: a simulator that wraps its addresses to the CPU's address space (`memory->read8((a) & 0xffff)`)
    does so for every byte it touches: a multi-byte accessor (read16/write16/read32/write32) called with such a
    wrapped base address touches base+1.. unwrapped, i.e. a byte outside the address space when the base is the last
    address (Z80 `push` with SP = 1 must wrap to 0xffff/0x0000, not write 0x10000)."""
    obs = []
    byfile = {}
    for fn in prog.functions(lambda f: f.file.startswith('simulate/') and f.blocks):
        for c in fn.calls():
            q = (callee(c) or '').split('(')[0]
            if q in BYTE or q in MULTI:
                args = call_args(c)
                if not args:
                    continue
                m = _wrap_mask(args[0])
                byfile.setdefault(fn.file, []).append((fn, c, q, m))
    nfiles = 0
    for f, sites in sorted(byfile.items()):
        masks = [m for _, _, q, m in sites if q in BYTE and m is not None]
        if len(masks) < 2:
            continue
        nfiles += 1
        space = max(set(masks), key=masks.count)
        bad = [(fn, c, q) for fn, c, q, m in sites if q in MULTI and m == space]
        for fn, c, q in bad:
            obs.append(Ob('ADDR-SPACE', f, c['l'], fn.q, 'wide-access:%s' % q.split('::')[1], VIOLATED,
                          '`%s` wraps only the base address to %#x; the accessor also touches the next %d byte(s) at base+1.., '
                          'which is outside the address space when the base is %#x' % (show(c)[:60], space, MULTI[q] - 1, space)))
        obs.append(Ob('ADDR-SPACE', f, sites[0][1]['l'], '*', 'space:%#x' % space, DISCHARGED if not bad else VIOLATED,
                      '' if not bad else '%d multi-byte accesses with a wrapped base' % len(bad),
                      '%d byte accesses wrapped to %#x, no multi-byte accessor on a wrapped base' % (len(masks), space), False))
    if nfiles < 1:
        raise AnalysisBroken('ADDR-SPACE: no simulator wraps its byte accesses any more')
    return RuleResult('ADDR-SPACE', obs, 1, {'simulators_with_wrapped_addresses': nfiles})


def sim_static(prog):
    """SIM-STATIC (C15): a simulator keeps all of its state in its object: no function of simulate/ stores to a variable with
    static storage (file-scope or function-local static), except the Ctrl-C flag Simulate::stop_running.  Hidden state makes
    a step depend on what was executed before it, from the same visible starting state."""
    from nk.report import Ob, RuleResult, DISCHARGED, VIOLATED
    obs = []
    for name, lst in sorted(prog.global_writes().items()):
        for fn, n in lst:
            if not fn.file.startswith('simulate/'):
                continue
            k = sum(1 for o in obs if o.function == fn.q and o.construct.split('#')[0] == 'store:' + name)
            construct = 'store:' + name + ('#%d' % (k + 1) if k else '')
            if name == 'Simulate::stop_running':
                obs.append(Ob('SIM-STATIC', fn.file, n['l'], fn.q, construct, DISCHARGED, '',
                              'the interrupt flag of the run loop (set by the signal handler, cleared when run() starts)', False))
            else:
                obs.append(Ob('SIM-STATIC', fn.file, n['l'], fn.q, construct, VIOLATED,
                              'store to the static-storage variable `%s` in a simulator: the state survives reset() and a new '
                              'simulator object, so the same step from the same registers and memory can give different results' % name))
    nsim = len([f for f in prog.fns.values() if f.file.startswith('simulate/')])
    obs.append(Ob('SIM-STATIC', 'simulate/', 0, '*', 'scan', DISCHARGED, '',
                  'scanned %d simulator functions for stores rooted at static-storage variables' % nsim, False))
    if nsim < 300:
        from nk.build import AnalysisBroken
        raise AnalysisBroken('SIM-STATIC: only %d simulator functions' % nsim)
    return RuleResult('SIM-STATIC', obs, 1, {'simulator_functions': nsim})

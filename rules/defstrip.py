"""C09 rules about the text stored for a define.

DEFINE-STRIP: a define value that is collected character by character from the source (the `NAME equ VALUE` reader in
AsmContext::assemble and macros_parse) is passed through macros_strip() before macros_append() stores it — `;` and `//`
comments are not part of the value (an expanded `//` would swallow the rest of the line it is used in).

STRIP-CUTS: macros_strip() only cuts at a comment: every store it performs through its argument is control-dependent on a
test of the current character against ';' or '/' (it must not trim anything else: macros_parse appends a separating blank
on purpose)."""
from nk.facts import kids, strip, const, callee, show, walk, call_args
from nk.cfg import dominators
from nk.report import Ob, RuleResult, DISCHARGED, VIOLATED, OBSERVATION
from nk.build import AnalysisBroken


def _buf(arg):
    x = strip(arg, casts=True)
    return x.get('d') if x is not None and x['k'] == 'DeclRefExpr' else None


def define_strip(prog, floor=2):
    obs = []
    for fn in prog.functions(lambda f: f.file.startswith('core/')):
        calls = [c for c in fn.calls() if (callee(c) or '').split('(')[0] == 'macros_append' and len(call_args(c)) >= 3]
        if not calls:
            continue
        dom = None
        for k, c in enumerate(calls, 1):
            d = _buf(call_args(c)[2])
            if d is None:
                continue
            # filled character by character: a store buf[i] = ch in this function
            charfill = any(n['k'] == 'BinaryOperator' and n.get('op') == '=' and strip(kids(n)[0])['k'] == 'ArraySubscriptExpr' and
                           _buf(kids(strip(kids(n)[0]))[0]) == d and const(kids(n)[1]) is None for n in fn.nodes.values())
            if not charfill:
                continue
            if dom is None:
                dom = dominators(fn)
            wc = fn.where.get(c['i'])
            ok = None
            for s_ in fn.calls():
                if (callee(s_) or '').split('(')[0] == 'macros_strip' and call_args(s_) and _buf(call_args(s_)[0]) == d:
                    ws = fn.where.get(s_['i'])
                    if ws and wc and (ws[0] in dom[wc[0]] and (ws[0] != wc[0] or ws[1] < wc[1])):
                        ok = s_
            construct = 'macros_append#%d' % k
            if ok is not None:
                obs.append(Ob('DEFINE-STRIP', fn.file, c['l'], fn.q, construct, DISCHARGED, '',
                              'the value buffer passes macros_strip (line %d) on every path to the call' % ok['l'], True))
            else:
                obs.append(Ob('DEFINE-STRIP', fn.file, c['l'], fn.q, construct, VIOLATED,
                              '`%s` stores a value that was collected character by character from the source line without '
                              'passing it through macros_strip(): a `//` or `;` comment after the value becomes part of the define and '
                              'swallows the rest of every line the name is used in' % show(c)[:60]))
    if len(obs) < floor:
        raise AnalysisBroken('DEFINE-STRIP: only %d define values collected from source text' % len(obs))
    return RuleResult('DEFINE-STRIP', obs, floor, {})


def strip_cuts(prog, floor=1):
    obs = []
    fn = prog.fn_opt('macros_strip')
    if fn is None:
        raise AnalysisBroken('STRIP-CUTS: macros_strip not found')
    p = fn.params()[0]['d']
    # pointers derived from the parameter
    ptrs = {p}
    grew = True
    while grew:
        grew = False
        for n in fn.nodes.values():
            if n['k'] == 'DeclStmt':
                for dd, i in zip([x for x in n.get('decls', ()) if x.get('init')], kids(n)):
                    if dd['d'] not in ptrs and any(x['k'] == 'DeclRefExpr' and x.get('d') in ptrs for x in walk(i)):
                        ptrs.add(dd['d'])
                        grew = True
    from nk.cfg import dominators as _d
    pdom = _d(fn, post=True)
    k = 0
    for n in sorted(fn.nodes.values(), key=lambda x: x['i']):
        if n['k'] not in ('BinaryOperator', 'CompoundAssignOperator') or not n.get('op', '').endswith('=') or \
                n['op'] in ('==', '!=', '<=', '>='):
            continue
        t = strip(kids(n)[0])
        if t['k'] not in ('UnaryOperator', 'ArraySubscriptExpr'):
            continue
        if not any(x['k'] == 'DeclRefExpr' and x.get('d') in ptrs for x in walk(t)):
            continue
        k += 1
        w = fn.where.get(n['i'])
        # controlling conditions: branch blocks that the store's block does not post-dominate but that reach it
        ctl = []
        if w:
            for b, bb in fn.blocks.items():
                if 'cond' in bb and len([s for s in bb['s'] if s is not None]) == 2 and w[0] not in pdom.get(b, ()) and \
                        any(s is not None and (s == w[0] or w[0] in pdom.get(s, ())) for s in bb['s']):
                    ctl.append(fn.nodes.get(bb['cond']))
        comment = [c for c in ctl if c is not None and any(const(x) in (ord(';'), ord('/')) for x in walk(c))]
        construct = 'store#%d:%s' % (k, show(n)[:24])
        if comment:
            obs.append(Ob('STRIP-CUTS', fn.file, n['l'], fn.q, construct, DISCHARGED, '',
                          'the store is taken only under `%s`' % show(comment[0])[:50], True))
        else:
            obs.append(Ob('STRIP-CUTS', fn.file, n['l'], fn.q, construct, VIOLATED,
                          '`%s` in macros_strip does not depend on a comment test (`;` or `//`): the function removes text that is '
                          'not a comment (macros_parse relies on the blank it appends after a define surviving)' % show(n)[:40]))
    if len(obs) < floor:
        raise AnalysisBroken('STRIP-CUTS: no store in macros_strip')
    return RuleResult('STRIP-CUTS', obs, floor, {})


def quote_state(prog, floor=2):
    """QUOTE-STATE (C09): in macros_expand_params the nesting counter of the argument list (`open_parens`) is changed only
    outside string *and* character literals: every `open_parens++/--` is control dependent on a test of each quote-state flag
    the function keeps (`in_string`, `in_ticks`).  A `'('` argument must not change the depth."""
    from rules.passsize import control_deps
    fn = prog.fn_opt('macros_expand_params')
    if fn is None:
        raise AnalysisBroken('QUOTE-STATE: macros_expand_params not found')
    flags = {}
    for n in fn.nodes.values():
        if n['k'] == 'DeclRefExpr' and n.get('dk') == 'local' and (n.get('n') or '').startswith('in_'):
            flags[n['d']] = n['n']
    if len(flags) < 2:
        raise AnalysisBroken('QUOTE-STATE: fewer than two quote-state flags in macros_expand_params')
    from nk.cfg import dominators
    dom = dominators(fn)
    obs = []
    k = 0
    for n in sorted(fn.nodes.values(), key=lambda x: x['i']):
        if n['k'] == 'UnaryOperator' and n.get('op') in ('++', '--') and strip(kids(n)[0]).get('n') == 'open_parens':
            w = fn.where.get(n['i'])
            if w is None:
                continue
            k += 1
            tested = set()
            # a flag counts as tested when a dominating branch on it has an edge from which the update cannot be reached
            # without coming back through that branch (the update lies on one side of the test)
            for b in dom[w[0]]:
                bb = fn.blocks[b]
                cn = fn.nodes.get(bb.get('cond')) if 'cond' in bb else None
                if cn is None or b == w[0]:
                    continue
                # the block's own condition (last operand of a && / || chain)
                own = strip(cn)
                while own['k'] == 'BinaryOperator' and own.get('op') in ('&&', '||'):
                    own = strip(kids(own)[1])
                fl = {x['d'] for x in walk(own) if x['k'] == 'DeclRefExpr' and x.get('d') in flags}
                if not fl:
                    continue
                for s_ in bb['s']:
                    if s_ is None:
                        continue
                    seen = {b, s_}
                    st = [s_]
                    hit = s_ == w[0]
                    while st and not hit:
                        x = st.pop()
                        for y in fn.succs(x):
                            if y == w[0]:
                                hit = True
                                break
                            if y not in seen:
                                seen.add(y)
                                st.append(y)
                    if not hit:
                        tested |= fl
            missing = [flags[d] for d in flags if d not in tested]
            obs.append(Ob('QUOTE-STATE', fn.file, n['l'], fn.q, 'depth#%d:%s' % (k, show(n)), DISCHARGED if not missing else VIOLATED,
                          '' if not missing else '`%s` does not depend on %s: a parenthesis inside such a literal changes the nesting depth '
                          'and the following comma is no longer taken as an argument separator' % (show(n), ', '.join(missing)),
                          'under tests of %s' % ', '.join(sorted(flags.values())), False))
    if len(obs) < floor:
        raise AnalysisBroken('QUOTE-STATE: only %d depth updates in macros_expand_params' % len(obs))
    return RuleResult('QUOTE-STATE', obs, floor, {})

"""C16 (partial): R-IDX, R-CAP, R-EOF, R-REC, R-DIV, R-WRAP, T-TBL, R-NULL over everything reachable from naken_asm."""
from nk import report
from nk.interval import Analyzer
from rules import strs, wrap, idx, term, div, lane, tbl, null, expr, nulstep, onesided, dblstep
from . import common

EXPLANATION = (
    'Decides the structural clauses listed; does not decide the behaviour as a whole. R-IDX: every subscript of a fixed-size '
    'array in asm/, core/ and main/naken_asm.cpp is proven inside the array by interval analysis (branch refinement, '
    'threshold widening, trace partitioning, table ranges, field invariants) or listed as not decided with the invariant '
    'read from the code (idx_table.json). R-CAP: every (buffer, length) call passes an array at least as large as the '
    'length, and every append loop of the (buffer, length) functions tests its cursor against the length. R-EOF: every '
    'constant-true loop that reads input has an exit depending on the reader\'s end-of-input value. R-REC: every call-graph '
    'cycle has a depth guard. R-DIV: every divisor is proven non-zero. R-WRAP: page tests are computed in 64 bits. T-TBL: '
    'every opcode table walked to a null mnemonic ends with a null row. POOL-FIT: the largest record a pool-append loop admits fits a fresh pool (else the loop allocates forever). R-NULL: no dereference on a path where the pointer '
    'was found null. R-STR: a strcpy/strcat whose destination capacity and worst-case source lengths are known (arrays, literals, table columns, caller buffers; flow-sensitive length of the destination) fits; the others are listed as not decided. WRAP-LOOP: no 32-bit counter is compared with an inclusive bound that can be 0xffffffff. NUL-STEP: on the edge on which a scanner finds the terminator of the string it scans, no increment of its cursor is reached before the character is tested again (a step over the terminator makes stale bytes of an earlier line part of the input). ONE-SIDED: a directive argument that is rejected above a limit is also tested from below or against zero. Not decided: time proportional to input, heap exhaustion, string copies whose lengths are not bounded by declarations. STR-GROW: a strcat in a loop driven by input tokens is preceded, inside the loop, by a test of strlen of its destination (or the destination is known to equal a literal). DIV-OVF: a signed division by a variable cannot be MIN / -1 (divisor range, dividend range, or a dominating `== -1` test). SHIFT-TERM: loops that shift a variable right until it is 0 use an unsigned variable. VLA-BOUND: no variable-length array on the stack outside the listed exception.')


def run(tier, t0):
    prog = common.program()
    cg = common.callgraph()
    reach = common.reach_asm()
    an = Analyzer(prog)

    def scope(fn):
        return fn.key in reach and fn.file.startswith(('asm/', 'core/', 'main/naken_asm', 'common/', 'table/'))
    dctx = div.Ctx(prog, an)
    results = [idx.idx(prog, scope, 150, an), idx.cap_callers(prog, scope, 380, cg), idx.cap_callee(prog),
               term.eof(prog, scope, 50), term.rec(prog, cg, [common.ASM_MAIN]), div.div(prog, scope, 60, ctx=dctx),
               lane.wrap_pages(prog, 2), tbl.ttbl(prog), null.null_a(prog, scope, 20), term.pool_fit(prog, cg), expr.cap_protocol(prog), idx.ptr_into_array(prog, scope, an),
               strs.strs(prog, cg, scope, 10), strs.str_loops(prog, scope, an, 0),
               wrap.wrap_loops(prog, lambda f: f.file.startswith(('fileio/write', 'main/naken_asm', 'core/')), an, 8),
               wrap.shift_term(prog), div.div_ovf(prog, scope, 10), strs.str_grow(prog, scope, 8), wrap.vla(prog, lambda f: f.file.startswith(('core/', 'asm/', 'fileio/', 'common/', 'main/'))),
               nulstep.nul_step(prog, lambda f: f.file.startswith(('core/', 'asm/', 'main/naken_asm', 'fileio/write')) and f.file != 'core/UtilContext.cpp', 45), onesided.one_sided(prog), dblstep.double_step(prog)]
    return report.finish('C16', tier, results, EXPLANATION,
                         ['the invariants listed for not-decided subscripts were read from the code and replayed under ASan '
                          'during triage; they are not re-proved by the check'], common.TRUSTED, t0)

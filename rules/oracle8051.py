"""T-ORACLE(8051): the MCS-51 opcode map (Intel MCS-51 programmer's guide, instruction opcodes in hexadecimal order)
against table_8051[] (indexed by opcode byte: mnemonic, up to three operand kinds, register/page number)."""
from nk.facts import kids, strip, const
from nk import tables
from nk.report import Ob, RuleResult, DISCHARGED, VIOLATED
from nk.build import AnalysisBroken

A, C, AB, DPTR = ('OP_A', None), ('OP_C', None), ('OP_AB', None), ('OP_DPTR', None)
D, IMM, IMM16, REL, BIT, NBIT, ADDR16 = ('OP_IRAM_ADDR', None), ('OP_DATA', None), ('OP_DATA_16', None), ('OP_RELADDR', None), \
    ('OP_BIT_ADDR', None), ('OP_SLASH_BIT_ADDR', None), ('OP_CODE_ADDR', None)
AT_A_DPTR, AT_A_PC, AT_DPTR = ('OP_AT_A_PLUS_DPTR', None), ('OP_AT_A_PLUS_PC', None), ('OP_AT_DPTR', None)


def RI(i):
    return ('OP_AT_REG', i)


def RN(n):
    return ('OP_REG', n)


def PAGE(p):
    return ('OP_PAGE', p)


ISA = {}


def put(op, mn, *ops):
    ISA[op] = (mn, ops)


def family(base, mn, pre=(), post=()):
    """the @Ri / Rn columns 6..f of a row"""
    for i in (0, 1):
        put(base + 6 + i, mn, *(pre + (RI(i),) + post))
    for n in range(8):
        put(base + 8 + n, mn, *(pre + (RN(n),) + post))


for hi in range(16):
    put(hi * 16 + 1, 'ajmp' if hi % 2 == 0 else 'acall', PAGE(hi // 2))
put(0x00, 'nop'); put(0x02, 'ljmp', ADDR16); put(0x03, 'rr', A); put(0x04, 'inc', A); put(0x05, 'inc', D); family(0x00, 'inc')
put(0x10, 'jbc', BIT, REL); put(0x12, 'lcall', ADDR16); put(0x13, 'rrc', A); put(0x14, 'dec', A); put(0x15, 'dec', D); family(0x10, 'dec')
put(0x20, 'jb', BIT, REL); put(0x22, 'ret'); put(0x23, 'rl', A); put(0x24, 'add', A, IMM); put(0x25, 'add', A, D); family(0x20, 'add', (A,))
put(0x30, 'jnb', BIT, REL); put(0x32, 'reti'); put(0x33, 'rlc', A); put(0x34, 'addc', A, IMM); put(0x35, 'addc', A, D); family(0x30, 'addc', (A,))
for base, mn in ((0x40, 'orl'), (0x50, 'anl'), (0x60, 'xrl')):
    put(base + 2, mn, D, A); put(base + 3, mn, D, IMM); put(base + 4, mn, A, IMM); put(base + 5, mn, A, D); family(base, mn, (A,))
put(0x40, 'jc', REL); put(0x50, 'jnc', REL); put(0x60, 'jz', REL); put(0x70, 'jnz', REL)
put(0x72, 'orl', C, BIT); put(0x73, 'jmp', AT_A_DPTR); put(0x74, 'mov', A, IMM); put(0x75, 'mov', D, IMM); family(0x70, 'mov', (), (IMM,))
put(0x80, 'sjmp', REL); put(0x82, 'anl', C, BIT); put(0x83, 'movc', A, AT_A_PC); put(0x84, 'div', AB); put(0x85, 'mov', D, D); family(0x80, 'mov', (D,))
put(0x90, 'mov', DPTR, IMM16); put(0x92, 'mov', BIT, C); put(0x93, 'movc', A, AT_A_DPTR); put(0x94, 'subb', A, IMM); put(0x95, 'subb', A, D); family(0x90, 'subb', (A,))
put(0xa0, 'orl', C, NBIT); put(0xa2, 'mov', C, BIT); put(0xa3, 'inc', DPTR); put(0xa4, 'mul', AB); family(0xa0, 'mov', (), (D,))
put(0xb0, 'anl', C, NBIT); put(0xb2, 'cpl', BIT); put(0xb3, 'cpl', C); put(0xb4, 'cjne', A, IMM, REL); put(0xb5, 'cjne', A, D, REL)
family(0xb0, 'cjne', (), (IMM, REL))
put(0xc0, 'push', D); put(0xc2, 'clr', BIT); put(0xc3, 'clr', C); put(0xc4, 'swap', A); put(0xc5, 'xch', A, D); family(0xc0, 'xch', (A,))
put(0xd0, 'pop', D); put(0xd2, 'setb', BIT); put(0xd3, 'setb', C); put(0xd4, 'da', A); put(0xd5, 'djnz', D, REL)
put(0xd6, 'xchd', A, RI(0)); put(0xd7, 'xchd', A, RI(1))
for n in range(8):
    put(0xd8 + n, 'djnz', RN(n), REL)
put(0xe0, 'movx', A, AT_DPTR); put(0xe2, 'movx', A, RI(0)); put(0xe3, 'movx', A, RI(1)); put(0xe4, 'clr', A); put(0xe5, 'mov', A, D); family(0xe0, 'mov', (A,))
put(0xf0, 'movx', AT_DPTR, A); put(0xf2, 'movx', RI(0), A); put(0xf3, 'movx', RI(1), A); put(0xf4, 'cpl', A); put(0xf5, 'mov', D, A); family(0xf0, 'mov', (), (A,))
assert len(ISA) == 255 and 0xa5 not in ISA, len(ISA)


def _names(n):
    out = []
    for x in kids(strip(n)):
        y = strip(x, casts=True)
        while y['k'] != 'DeclRefExpr' and kids(y):
            y = strip(kids(y)[0], casts=True)
        out.append(y.get('n'))
    return out


def oracle(prog):
    rows, fields, g = tables.rows(prog, 'table_8051')
    if len(rows) < 256:
        raise AnalysisBroken('T-ORACLE(8051): table_8051 has %d rows' % len(rows))
    obs = []
    for op in sorted(ISA):
        mn, ops = ISA[op]
        r = rows[op]
        name = tables.strval(r['name'])
        kinds = [k for k in _names(r['op']) if k != 'OP_NONE']
        rng = const(r['range'])
        want_kinds = [k for k, _ in ops]
        want_rng = [v for _, v in ops if v is not None]
        ok = name == mn and kinds == want_kinds and (not want_rng or rng == want_rng[0])
        obs.append(Ob('T-ORACLE', g['file'], r['name']['l'], 'table_8051', 'opcode:%02x' % op, DISCHARGED if ok else VIOLATED,
                      '' if ok else 'opcode $%02X is `%s %s`%s in the MCS-51 opcode map, the table says `%s %s` (range %s)' % (
                          op, mn, want_kinds, ' #%d' % want_rng[0] if want_rng else '', name, kinds, rng),
                      '%s %s' % (mn, want_kinds)))
    return RuleResult('T-ORACLE(8051)', obs, 255, {})

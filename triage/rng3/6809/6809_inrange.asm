.6809
  lda 65535,x
  lda -32768,x
  lda 32767,pc
  lda -32768,pc
  lda 127,pc
  lda -128,pc
  lda 127,x
  lda -128,x
  lda 15,x
  lda -16,x
  lda [4,x]
  ldy 1000,u
  lda fwd,x
  lda fwd,pc
fwd:
  nop

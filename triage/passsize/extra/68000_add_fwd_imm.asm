.68000
.org 0x1000
start:
  add.b #fwd,d7
after1:
  add.w #fwd,(100,a3)
after2:
  sub.b #fwd,d7
after3:
  nop
.set fwd=7

"""Claimed properties (drives MANIFEST.json through tools/mkmanifest.py)."""

CLAIMED = {}

# properties not (yet) claimed, with the reason
NOT_APPLICABLE = {
    'C07': 'a relation between the values computed by two independently written functions over all machine words; '
           'no shape condition is necessary for it (a word the assembler cannot reproduce makes the property vacuous '
           'for that word, not false), so a static rule would prove nothing or be a brittle proxy',
    'C14': 'every clause is about computed register/flag/memory values for all states; static analysis has no oracle '
           'for instruction semantics short of symbolic execution (a different family); the shape-level facts '
           '(index bounds, dispatch defaults) are decided under C15',
}
PENDING = 'check not built yet in this session (see DESIGN.md §9); not claimed until its rules are silent-or-listed on the unchanged tree'

"""C19 (narrow): T-LANE/T-PAIR on Memory 16/32-bit access, UTIL-UNIT, ADVANCE, UTIL-HEX, R-NULL on the command handlers."""
from nk import report
from rules import idx, lane, util, null, nulstep, utilsib
from . import common

EXPLANATION = (
    'Decides the structural clauses listed; does not decide the behaviour as a whole. T-LANE: Memory::read16/32 and '
    'write16/32 use the same offset->lane maps, little-endian under the ENDIAN_LITTLE test and big-endian otherwise. '
    'UTIL-UNIT: a numeric command address is multiplied by bytes_per_address exactly once and printed addresses are '
    'divided by it. ADVANCE: write/write16/write32 and print/print16/print32 use the accessor of their width and step '
    'by that width. UTIL-HEX: get_hex computes n*16+digit for every admitted character. R-NULL: command handlers do not '
    'dereference a pointer on the path where they found it null. NUL-STEP: on the edge on which a scanner finds the terminator of the string it scans, no increment of its cursor is reached before the character is tested again (a step over the terminator makes stale bytes of an earlier line part of the input). ALIGN-SIB: printN and writeN test the same alignment expression of the address. SETPC-ORDER: no reset() follows the start-up call that applies -set_pc. Not decided: number parsing for every spelling, '
    'agreement with what the simulators fetch. UTIL-ORDER: every number spelling get_num recognises by its first characters before the `h`-suffix test contains a non-hex character, so a literal ending in h is always read as hexadecimal. R-IDX(ptr) also follows pointers handed out by a helper (`return page->bin + offset`) into the callers that index them.')


def run(tier, t0):
    prog = common.program()
    ln = lane.lanes(prog, 40)
    ln.obs = [o for o in ln.obs if o.file == 'core/Memory.cpp']
    ln.floor = 8
    results = [ln, util.util_unit(prog), util.advance(prog), util.util_hex(prog), util.util_dec(prog), util.util_order(prog),
               null.null_a(prog, lambda f: f.file in ('core/UtilContext.cpp', 'main/naken_util.cpp', 'common/String.cpp',
                                                     'common/StringTokenizer.cpp'), floor=3),
               idx.ptr_into_array(prog, lambda f: f.file in ('core/Memory.cpp', 'core/Memory.h', 'core/MemoryPage.h', 'core/MemoryPage.cpp', 'core/UtilContext.cpp')),
               nulstep.nul_step(prog, lambda f: f.file in ('core/UtilContext.cpp', 'main/naken_util.cpp') or f.file.startswith('common/'), 15), utilsib.align_sib(prog), utilsib.setpc_order(prog)]
    return report.finish('C19', tier, results, EXPLANATION, [], common.TRUSTED, t0)

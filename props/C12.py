"""C12 failure atomicity: R-ERR1, R-ERR2, R-ERR3, R-ERR4 over everything reachable from naken_asm's main()."""
from nk import report
from rules import err, caselen
from . import common

EXPLANATION = (
    'Decides the structural clauses of C12 listed here; does not decide the behaviour as a whole. '
    'R-ERR2: after each of the ~1 850 diagnostic call sites reachable from naken_asm main(), every CFG path reaches '
    'an error return of that function / error_count++ / error=1 / exit(!=0) (path search with constant tracking of '
    'returned variables and equality refinement; `default:` diagnostics are discharged by comparing the switch cases '
    'with every row of the never-written opcode table). R-ERR1: no result of an error-returning function is dropped. '
    'R-ERR3: abstract interpretation of main() (status variable x pending-failure x unlinked x pass count): file_write '
    'only after two successful passes, every failing path unlinks the output and returns non-zero. R-ERR4: the '
    'error_count / error side channels are tested by assemble() and never reset. CASE-FALLTHROUGH: no arm of an operand-type switch runs into the next one, so a line whose operands do not fit its '
    'instruction reaches the `unknown operands` diagnostic instead of being matched against the pattern of another type. '
    'Not decided: errors the code never detects (C06/C16 rules).')


def run(tier, t0):
    prog = common.program()
    reach = common.reach_asm()
    table = err.load_table('err_table.json')
    in_scope = {fn.file for fn in prog.fns.values() if fn.key in reach}

    def scope(fn):
        return fn.key in reach
    results = [
        err.err2(prog, scope, table, floor=1700),
        err.err1(prog, scope, table, floor=900),
        err.err3(prog),
        err.err4(prog),
        err.eof_err(prog),
        caselen.fallthrough(prog),
    ]
    return report.finish('C12', tier, results, EXPLANATION,
                         ['clang CFG edges are a superset of the feasible control flow',
                          'print_error* and "Error…" printf/fprintf literals are the only diagnostic emitters',
                          'opcode tables are not modified through escaped pointers (no direct store exists: checked)'],
                         common.TRUSTED, t0,
                         extra={'functions_in_scope': len([1 for fn in prog.fns.values() if fn.key in reach]),
                                'files_in_scope': len(in_scope)})

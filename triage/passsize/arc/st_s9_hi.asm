.arc
start:
  st r1, [r3, fwd]
after:
  nop_s
.set fwd=5000

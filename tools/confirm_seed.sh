#!/bin/sh
# confirm_seed.sh <seed-src-dir> <id> <property> : confirm a sub-agent's seeded change in a scratch worktree of
# /repo (current HEAD): applies, builds, demo fails, test suite passes, and on the pristine tree the demo passes.
# On success copies it to /verif/seeded/<id>/ with meta.json.  The worktree is removed afterwards.
src="$1"; id="$2"; prop="$3"; base="${4:-HEAD}"
wt=/tmp/wt/confirm-$id
log=/tmp/seed/confirm-$id.log
exec > "$log" 2>&1
set -x
git -C /repo worktree remove --force "$wt" 2>/dev/null
git -C /repo worktree add -q --detach "$wt" "$base" || exit 9
cp /repo/config.mak "$wt/"
cd "$wt"
res() { echo "RESULT $id: $*"; cd /; git -C /repo worktree remove --force "$wt"; exit 0; }
make -j8 >/dev/null 2>&1 || res "pristine build failed"
sh "$src/demo.sh" "$wt" >/tmp/seed/confirm-$id.pristine.out 2>&1; p0=$?
git apply "$src/patch.diff" || res "patch does not apply to current /repo HEAD"
make -j8 >/dev/null 2>&1 || res "changed tree does not build"
sh "$src/demo.sh" "$wt" >/tmp/seed/confirm-$id.changed.out 2>&1; p1=$?
make tests >/tmp/seed/confirm-$id.tests.out 2>&1; t=$?
npass=$(grep -c PASS /tmp/seed/confirm-$id.tests.out)
git checkout -q -- . 
[ "$p0" = 0 ] || res "demo fails on the pristine tree (exit $p0)"
[ "$p1" != 0 ] || res "demo passes on the changed tree"
[ "$t" = 0 ] || res "test suite fails on the changed tree (exit $t)"
mkdir -p /verif/seeded/$id
cp -r "$src"/* /verif/seeded/$id/
cat > /verif/seeded/$id/meta.json <<EOM
{"id": "$id", "property": "$prop", "source": "independent sub-agent given only the property text and a scratch worktree",
 "confirmed": {"base": "$(git -C /repo rev-parse --short $base)", "applies": true, "builds": true,
  "demo_exit_pristine": $p0, "demo_exit_changed": $p1, "make_tests_exit_changed": $t, "pass_lines": $npass},
 "ran": "tools/confirm_seed.sh $src $id $prop"}
EOM
res "CONFIRMED demo pristine=$p0 changed=$p1 tests=$t pass_lines=$npass"

"""T-ORACLE(4004): the 46 instructions of the Intel 4004 (MCS-4 users manual, instruction set) against table_4004[]
(mnemonic, opcode byte, mask of the fixed bits)."""
from nk import tables
from nk.facts import const
from nk.report import Ob, RuleResult, DISCHARGED, VIOLATED, OBSERVATION
from nk.build import AnalysisBroken

ISA = {
    'nop': (0x00, 0xff), 'jcn': (0x10, 0xf0), 'fim': (0x20, 0xf1), 'src': (0x21, 0xf1), 'fin': (0x30, 0xf1), 'jin': (0x31, 0xf1),
    'jun': (0x40, 0xf0), 'jms': (0x50, 0xf0), 'inc': (0x60, 0xf0), 'isz': (0x70, 0xf0), 'add': (0x80, 0xf0), 'sub': (0x90, 0xf0),
    'ld': (0xa0, 0xf0), 'xch': (0xb0, 0xf0), 'bbl': (0xc0, 0xf0), 'ldm': (0xd0, 0xf0),
    'wrm': (0xe0, 0xff), 'wmp': (0xe1, 0xff), 'wrr': (0xe2, 0xff), 'wpm': (0xe3, 0xff), 'wr0': (0xe4, 0xff), 'wr1': (0xe5, 0xff),
    'wr2': (0xe6, 0xff), 'wr3': (0xe7, 0xff), 'sbm': (0xe8, 0xff), 'rdm': (0xe9, 0xff), 'rdr': (0xea, 0xff), 'adm': (0xeb, 0xff),
    'rd0': (0xec, 0xff), 'rd1': (0xed, 0xff), 'rd2': (0xee, 0xff), 'rd3': (0xef, 0xff),
    'clb': (0xf0, 0xff), 'clc': (0xf1, 0xff), 'iac': (0xf2, 0xff), 'cmc': (0xf3, 0xff), 'cma': (0xf4, 0xff), 'ral': (0xf5, 0xff),
    'rar': (0xf6, 0xff), 'tcc': (0xf7, 0xff), 'dac': (0xf8, 0xff), 'tcs': (0xf9, 0xff), 'stc': (0xfa, 0xff), 'daa': (0xfb, 0xff),
    'kbp': (0xfc, 0xff), 'dcl': (0xfd, 0xff),
}
assert len(ISA) == 46


def oracle(prog):
    rows, fields, g = tables.rows(prog, 'table_4004')
    byname = {}
    for r in rows:
        nm = tables.strval(r.get('instr')) if r else None
        if nm:
            byname.setdefault(nm, []).append(r)
    obs = []
    for mn, (opc, mask) in sorted(ISA.items()):
        rs = byname.get(mn, [])
        got = [(const(r['opcode']), const(r['mask'])) for r in rs]
        if not rs:
            obs.append(Ob('T-ORACLE', g['file'], g.get('line', 0), 'table_4004', 'instr:%s' % mn, OBSERVATION,
                          '%s ($%02X) has no table row: the assembler rejects it and the disassembler shows ???, which the property allows' % (mn, opc)))
            continue
        ok = (opc, mask) in got and len(got) == 1
        obs.append(Ob('T-ORACLE', g['file'], rs[0]['instr']['l'] if rs else g.get('line', 0), 'table_4004', 'instr:%s' % mn,
                      DISCHARGED if ok else VIOLATED,
                      '' if ok else '%s is opcode $%02X with fixed bits $%02X in the 4004 instruction set; the table has %s' % (
                          mn, opc, mask, ['$%02X/$%02X' % x for x in got] or 'no row'), 'opcode $%02X mask $%02X' % (opc, mask)))
    return RuleResult('T-ORACLE(4004)', obs, 40, {})

"""C15 (partial): R-IDX, R-DIV, R-REC, R-EOF on simulate/; API-ONLY."""
from nk import report
from nk.facts import kids, strip, show
from nk.interval import Analyzer
from nk.report import Ob, RuleResult, DISCHARGED, VIOLATED
from rules import idx, term, div, sim
from . import common

EXPLANATION = (
    'Decides the structural clauses listed; does not decide the behaviour as a whole. R-IDX: every subscript of a fixed '
    'array in simulate/*.cpp|h (register files, flag tables, RAM arrays, stacks) is proven in range (field invariants such '
    'as "every store to reg_p is masked with 0xF" are computed from all stores) or listed as not decided with its '
    'invariant. R-DIV: every simulator division has a proven non-zero divisor. R-REC: recursion cycles reachable from '
    'the simulators are depth-guarded (the MIPS delay-slot cycle is a known finding). API-ONLY: simulators do not index '
    'MemoryPage storage directly. ADDR-SPACE: a simulator that wraps byte addresses to its CPU\'s address space does not call a multi-byte accessor on a wrapped base. SIM-STATIC: no simulator function stores to a variable with static storage other than the Ctrl-C flag (hidden state between steps). WORD-ADDR: every word address the LC-3 simulator scales and stores through is a 16-bit value. FIELD-INV: the member-field range invariants that idx_table.json relies on (8008 return-stack pointer in 0..7) hold at every store to the field. Not decided: PC agreement with the disassembler, determinism of results as values.')


def api_only(prog):
    obs = []
    n_fn = 0
    for fn in prog.functions(lambda f: f.file.startswith('simulate/')):
        n_fn += 1
        for n in fn.nodes.values():
            if n['k'] == 'MemberExpr' and n['n'] in ('bin', 'debug_line', 'pages') and n.get('rec') in ('MemoryPage', 'Memory'):
                obs.append(Ob('API-ONLY', fn.file, n['l'], fn.q, 'direct:' + n['n'], VIOLATED,
                              'simulator touches %s::%s directly instead of going through Memory::read*/write*' % (n['rec'], n['n'])))
    obs.append(Ob('API-ONLY', 'simulate/', 0, '*', 'scan', DISCHARGED, '', 'scanned %d simulator functions' % n_fn, False))
    return RuleResult('API-ONLY', obs, 1, {})


def run(tier, t0):
    prog = common.program()
    cg = common.callgraph()
    an = Analyzer(prog)

    def scope(fn):
        return fn.file.startswith('simulate/')
    roots = [q for q in prog.by_key if q.startswith('Simulate') and q.endswith('::run')]
    dctx = div.Ctx(prog, an)
    results = [idx.idx(prog, scope, 60, an), div.div(prog, scope, 10, ctx=dctx), term.rec(prog, cg, roots or ['Simulate::run']),
               api_only(prog), sim.addr_space(prog), sim.sim_static(prog), idx.field_inv(prog), sim.word_addr(prog)]
    return report.finish('C15', tier, results, EXPLANATION, [], common.TRUSTED, t0)

"""Interval analysis over a function's CFG (forward, with widening and branch refinement).

Tracked: integer locals and parameters whose address is never taken.  Values are (lo, hi) with None
for an infinite bound.  Expressions are evaluated with type-based ranges as fallback (an `unsigned
char` expression is in [0,255]), constant tables give [min,max] of the selected field, and calls to
repo functions use a recursively computed return-range summary."""
from .facts import kids, strip, const, callee, ckey, call_args, show

TOP = (None, None)
_DEBUG = None
INF = None

TYPE_RANGE = {
    'bool': (0, 1), 'char': (-128, 127), 'signed char': (-128, 127), 'unsigned char': (0, 255),
    'short': (-32768, 32767), 'unsigned short': (0, 65535),
    'int': (-2**31, 2**31 - 1), 'unsigned int': (0, 2**32 - 1),
    'long': (-2**63, 2**63 - 1), 'unsigned long': (0, 2**64 - 1),
    'long long': (-2**63, 2**63 - 1), 'unsigned long long': (0, 2**64 - 1),
}


def type_range(t):
    if not t:
        return TOP
    t = t.replace('const ', '').replace('volatile ', '').strip()
    return TYPE_RANGE.get(t, TOP)


def join(a, b):
    lo = None if a[0] is None or b[0] is None else min(a[0], b[0])
    hi = None if a[1] is None or b[1] is None else max(a[1], b[1])
    return (lo, hi)


def meet(a, b):
    lo = a[0] if b[0] is None else (b[0] if a[0] is None else max(a[0], b[0]))
    hi = a[1] if b[1] is None else (b[1] if a[1] is None else min(a[1], b[1]))
    return (lo, hi)


def is_empty(a):
    return a[0] is not None and a[1] is not None and a[0] > a[1]


def add(a, b):
    return (None if a[0] is None or b[0] is None else a[0] + b[0],
            None if a[1] is None or b[1] is None else a[1] + b[1])


def neg(a):
    return (None if a[1] is None else -a[1], None if a[0] is None else -a[0])


def clamp_type(v, t):
    """An expression of integer type t cannot leave t's range; a value that would wrap becomes t's range."""
    tr = type_range(t)
    if tr == TOP:
        return v
    if v[0] is None or v[1] is None or v[0] < tr[0] or v[1] > tr[1]:
        # partially outside: for unsigned types wrapping makes the whole range possible
        lo = tr[0] if (v[0] is None or v[0] < tr[0]) else v[0]
        hi = tr[1] if (v[1] is None or v[1] > tr[1]) else v[1]
        if tr[0] == 0 and ((v[0] is not None and v[0] < tr[0]) or (v[1] is not None and v[1] > tr[1])):
            return tr      # unsigned arithmetic wraps: any value of the type is possible
        return (lo, hi)    # signed overflow is undefined: saturate
    return v


def _walk(n):
    st = [n]
    while st:
        x = st.pop()
        if x is None:
            continue
        yield x
        st.extend(kids(x))


def walk_nodes(n):
    st = [n]
    while st:
        x = st.pop()
        if x is None:
            continue
        yield x
        st.extend(kids(x))


class Analyzer:
    """Shared across functions of a Program: return summaries, table ranges."""

    def __init__(self, prog):
        self.prog = prog
        self._ret = {}
        self._table = {}
        self._stack = set()
        self.skip_return = None   # optional predicate (fn, return node) -> True when the return is infeasible
        self.dead_edges = None    # optional function fn -> set of (src block, dst block) known infeasible

    # ---- constant tables
    def table_field_range(self, gname, field):
        key = (gname, field)
        if key in self._table:
            return self._table[key]
        from . import tables
        r = TOP
        try:
            if not self.prog.global_writes().get(gname):
                g = self.prog.global_def(gname)
                if 'init' in g:
                    init = strip(g['init'])
                    if field is None:
                        vals = [const(x) for x in kids(init)]
                        if vals and all(v is not None for v in vals):
                            r = (min(vals), max(vals))
                            if init.get('filler') or ('bound' in g and len(vals) < g['bound']):
                                r = join(r, (0, 0))
                    else:
                        rws, fields, _ = tables.rows(self.prog, gname)
                        vals = []
                        rec = self.prog.records[tables.elem_record(self.prog, g)]
                        first_is_str = 'char' in rec['types'][rec['fields'][0]['t']]
                        for row in rws:
                            if not row or (first_is_str and tables.is_null(row.get(fields[0]))):
                                continue    # terminating sentinel row: lookup loops never select it
                            else:
                                vals.append(const(row.get(field)) if row.get(field) is not None else 0)
                        if vals and all(v is not None for v in vals):
                            r = (min(vals), max(vals))
        except Exception:
            r = TOP
        self._table[key] = r
        return r

    # ---- field invariants
    def _store_index(self):
        if getattr(self, '_stores', None) is None:
            st = {}
            addr = set()
            for fn in self.prog.fns.values():
                for n in fn.nodes.values():
                    k = n['k']
                    if k in ('BinaryOperator', 'CompoundAssignOperator') and n.get('op', '').endswith('=') and \
                            n['op'] not in ('==', '!=', '<=', '>='):
                        t = strip(kids(n)[0])
                        if t['k'] == 'MemberExpr' and t.get('rec'):
                            st.setdefault((t['rec'], t['n']), []).append((fn, n))
                    elif k == 'UnaryOperator' and n.get('op') in ('++', '--', '&'):
                        t = strip(kids(n)[0])
                        if t['k'] == 'MemberExpr' and t.get('rec'):
                            if n['op'] == '&':
                                addr.add((t['rec'], t['n']))
                            else:
                                st.setdefault((t['rec'], t['n']), []).append((fn, n))
                    elif k == 'MemberExpr' and n.get('rec') and n.get('lv'):
                        # passed by reference to a call
                        p = fn.parent.get(n['i'])
                        if p is not None and p['k'] in ('CallExpr', 'CXXMemberCallExpr', 'CXXConstructExpr'):
                            addr.add((n['rec'], n['n']))
            self._stores, self._addr = st, addr
        return self._stores, self._addr

    def field_range(self, rec, field, ftype):
        """Join of every value stored to rec::field anywhere in the program (0 included: objects are
        zero-initialised by constructors/memset); the type's range when a store cannot be bounded.
        Mutually dependent fields (x = y; y = x & 15) are solved by optimistic iteration: a field read while
        its own range is being computed yields the current approximation, and the outermost computation is
        repeated until the approximations are stable (else the type range)."""
        key = (rec, field)
        ov = self.__dict__.get('field_override')
        if ov and key in ov:
            return ov[key]
        fr = self.__dict__.setdefault('_fr', {})
        if key in fr:
            return fr[key]
        tr = type_range(ftype)
        d = self.__dict__
        inprog = d.setdefault('_inprog', [])
        approx = d.setdefault('_approx', {})
        tmp = d.setdefault('_tmp', {})
        if key in inprog:
            d['_cyc'] = True
            return approx.get(key, (0, 0))
        if key in tmp:
            return tmp[key]
        root = not inprog
        if root:
            d['_cyc'] = False
            tmp.clear()
            saved_fac = dict(d.setdefault('_fac', {}))
        rounds = 0
        while True:
            inprog.append(key)
            try:
                r = self._field_range_once(key, ftype, tr)
            finally:
                inprog.pop()
            if not root:
                tmp[key] = r
                return r
            if not d['_cyc']:
                break
            # a cycle was met: everything computed in this round assumed `approx`
            def within(a, b):
                return a[0] is not None and a[1] is not None and b[0] is not None and b[1] is not None and \
                    b[0] <= a[0] and a[1] <= b[1]
            stable = within(r, approx.get(key, (0, 0))) and all(within(v, approx.get(k, (0, 0))) for k, v in tmp.items())
            if stable:
                break
            rounds += 1
            if rounds > 4:
                r = tr
                for k in list(tmp):
                    tmp[k] = None
                break
            approx[key] = join(approx.get(key, (0, 0)), r)
            for k, v in tmp.items():
                approx[k] = join(approx.get(k, (0, 0)), v)
            tmp.clear()
            d['_fac'] = dict(saved_fac)
            d['_cyc'] = False
        fr[key] = r
        for k, v in tmp.items():
            if v is not None:
                fr.setdefault(k, v)
        tmp.clear()
        return r

    def _field_range_once(self, key, ftype, tr):
        rec, field = key
        stores, addr = self._store_index()
        if key in addr:
            return tr
        r = (0, 0)
        recd = self.prog.records.get(rec)
        if recd:
            for f in recd['fields']:
                if f['n'] == field and 'init' in f:
                    v = const(f['init'])
                    r = join(r, (v, v)) if v is not None else tr
        for fn in self.prog.fns.values():
            if fn.j.get('kind') == 'ctor' and fn.j.get('cls') == rec:
                for i in fn.j.get('inits', ()):
                    if i.get('field') == field and i.get('e') is not None:
                        e = strip(i['e'], casts=True)
                        if e['k'] == 'InitListExpr' and kids(e):
                            e = kids(e)[0]
                        v = const(e)
                        r = join(r, (v, v)) if v is not None else tr
        for fn, n in stores.get(key, ()):
            if n['k'] != 'BinaryOperator' or n.get('op') != '=':
                return tr
            fa = self._fa_cache(fn)
            v = fa.eval_at(kids(n)[1], n)
            v = clamp_type(v, ftype)
            r = join(r, v)
            if r[0] is None or r[1] is None:
                return tr
        if tr != TOP:
            r = meet(r, tr) if not is_empty(meet(r, tr)) else tr
        return r

    def outparam_range(self, key, idx, args, depth=0):
        """Join of the values function `key` stores through its pointer parameter number idx (`*p = e`), and of the
        parameter's incoming value when some path to a return stores nothing (None: unknown, e.g. the pointer escapes)."""
        mkey = ('out', key, idx, args, depth)
        if mkey in self._ret:
            return self._ret[mkey]
        fn = self.prog.by_key.get(key)
        self._ret[mkey] = None
        if fn is None or not fn.blocks or key in self._stack or depth > 3:
            return None
        ps = fn.params()
        if idx >= len(ps) or '*' not in (fn.types[ps[idx]['t']] or ''):
            return None
        pd = ps[idx]['d']
        stores = []
        for n in fn.nodes.values():
            if n['k'] == 'DeclRefExpr' and n.get('d') == pd:
                p = fn.parent.get(n['i'])
                while p is not None and p['k'] in ('ImplicitCastExpr', 'ParenExpr'):
                    p = fn.parent.get(p['i'])
                if p is not None and p['k'] == 'UnaryOperator' and p.get('op') == '*':
                    q = fn.parent.get(p['i'])
                    while q is not None and q['k'] in ('ImplicitCastExpr', 'ParenExpr'):
                        q = fn.parent.get(q['i'])
                    if q is not None and q['k'] == 'BinaryOperator' and q.get('op') == '=' and \
                            any(x['i'] == p['i'] for x in _walk(kids(q)[0])):
                        stores.append(q)
                        continue
                    if q is not None and q['k'] in ('CompoundAssignOperator',) :
                        return None
                    # a read of *p: fine
                    continue
                return None             # the pointer itself is used otherwise (passed on, compared, indexed)
        if not stores:
            return None
        self._stack.add(key)
        try:
            init = {p_['d']: a for p_, a in zip(ps, args) if a is not None and a != TOP} if len(args) == len(ps) else None
            fa = FnIntervals(self, fn, depth + 1, init)
            r = None
            for q in stores:
                w = fn.where.get(q['i'])
                if w is None or w[0] not in fa.reached:
                    continue
                v = fa.eval_at(kids(q)[1], q)
                r = v if r is None else join(r, v)
            # a successful return that is reached without a store leaves the caller's value: only error returns
            # (negative constants) may skip the store
            for n in fn.nodes.values():
                if n['k'] == 'ReturnStmt':
                    w = fn.where.get(n['i'])
                    if w is None or w[0] not in fa.reached:
                        continue
                    v = const(kids(n)[0]) if kids(n) else None
                    if v is not None and v != 0:
                        continue
                    dom = None
                    # every non-error return must be dominated by one of the stores
                    from .cfg import dominators
                    dom = self.__dict__.setdefault('_domcache', {}).get(key)
                    if dom is None:
                        dom = dominators(fn)
                        self.__dict__['_domcache'][key] = dom
                    if not any(fn.where.get(q['i']) and fn.where[q['i']][0] in dom[w[0]] for q in stores):
                        r = None
                        break
        finally:
            self._stack.discard(key)
        self._ret[mkey] = r
        return r

    def _fa_cache(self, fn):
        c = self.__dict__.setdefault('_fac', {})
        if fn.key not in c:
            c[fn.key] = FnIntervals(self, fn)
        return c[fn.key]

    # ---- function return summaries
    def return_range(self, key, depth=0, args=None):
        """Range of the values a function can return; `args` (tuple of intervals per parameter, or None)
        makes the summary context-sensitive for helpers that return an updated parameter."""
        mkey = (key, args, depth)       # the depth limit truncates callees: a result is only valid for its own depth
        if mkey in self._ret:
            return self._ret[mkey]
        fn = self.prog.by_key.get(key)
        if fn is None or not fn.blocks or key in self._stack or depth > 4:
            return None
        self._stack.add(key)
        try:
            init = None
            if args is not None and len(args) == len(fn.params()):
                init = {p['d']: a for p, a in zip(fn.params(), args) if a is not None}
            fa = FnIntervals(self, fn, depth + 1, init)
            r = None
            for n in fn.nodes.values():
                if n['k'] == 'ReturnStmt' and kids(n):
                    w = fn.where.get(n['i'])
                    if w is None or w[0] not in fa.reached:
                        continue
                    if self.skip_return is not None and self.skip_return(fn, n):
                        continue
                    v = fa.eval_at(kids(n)[0], n)
                    r = v if r is None else join(r, v)
            if r is not None:
                r = meet(r, type_range(fn.ret_type())) if type_range(fn.ret_type()) != TOP else r
        finally:
            self._stack.discard(key)
        if args is not None:
            # the context-free summary is sound for every context: never be less precise than it (the
            # context-sensitive run can lose precision to the depth limit, which depends on the call order)
            r0 = self.return_range(key, depth, None)
            if r0 is not None:
                if r is None:
                    r = r0
                else:
                    m = meet(r, r0)
                    r = m if not is_empty(m) else r
        self._ret[mkey] = r
        return r


class FnIntervals:
    def __init__(self, an, fn, depth=0, param_init=None):
        self.an, self.fn, self.depth = an, fn, depth
        self.param_init = param_init or {}
        self.prog = an.prog
        self.tracked = self._tracked_vars()
        self.inn = {}
        self.reached = set()
        self._solve()

    def _tracked_vars(self):
        fn = self.fn
        tr = {}
        for p in fn.params():
            t = fn.types[p['t']]
            if type_range(t) != TOP:
                tr[p['d']] = t
        for n in fn.nodes.values():
            if n['k'] == 'DeclStmt':
                for d in n.get('decls', ()):
                    t = fn.types[d['t']]
                    if type_range(t) != TOP and not d.get('static'):
                        tr[d['d']] = t
        # a variable whose address is only ever passed directly to calls (`f(&v)`) or that is bound to a reference
        # parameter stays tracked and is set to its type range at those calls; any other use of its address
        # (stored in a pointer, pointer arithmetic) makes it untracked
        self.killed_at = {}
        for n in fn.nodes.values():
            if n['k'] == 'UnaryOperator' and n.get('op') == '&':
                t = strip(kids(n)[0])
                if t['k'] == 'DeclRefExpr' and t.get('d') in tr:
                    p = fn.parent.get(n['i'])
                    while p is not None and p['k'] in ('ImplicitCastExpr', 'ParenExpr', 'CStyleCastExpr'):
                        p = fn.parent.get(p['i'])
                    if p is not None and p['k'] in ('CallExpr', 'CXXMemberCallExpr', 'CXXConstructExpr'):
                        self.killed_at.setdefault(p['i'], set()).add(t['d'])
                    else:
                        tr.pop(t.get('d'), None)
            elif n['k'] == 'DeclRefExpr' and n.get('d') in tr:
                # passed where a reference is expected: parent is a call and the arg is an lvalue (no L2R cast)
                p = fn.parent.get(n['i'])
                if p is not None and p['k'] in ('CallExpr', 'CXXMemberCallExpr', 'CXXConstructExpr') and n.get('lv'):
                    self.killed_at.setdefault(p['i'], set()).add(n['d'])
        for ds in self.killed_at.values():
            ds &= set(tr)
        # scalar integer members of `this` (and its bases) are tracked as pseudo-variables 'M:<name>';
        # they are killed at every call that can run code of the same class hierarchy
        cls = fn.j.get('cls')
        self.hier = set()
        if cls:
            stack = [cls]
            while stack:
                c = stack.pop()
                if c in self.hier:
                    continue
                self.hier.add(c)
                r = self.prog.records.get(c)
                if r:
                    for f in r['fields']:
                        t = r['types'][f['t']]
                        if type_range(t) != TOP and 'bound' not in f:
                            tr.setdefault('M:' + f['n'], t)
                    stack.extend(b for b in r.get('bases', ()))
            for n in fn.nodes.values():
                if n['k'] == 'UnaryOperator' and n.get('op') == '&':
                    t = strip(kids(n)[0])
                    if t['k'] == 'MemberExpr':
                        tr.pop('M:' + t['n'], None)
                elif n['k'] == 'MemberExpr' and n.get('lv') and ('M:' + n['n']) in tr:
                    p = fn.parent.get(n['i'])
                    if p is not None and p['k'] in ('CallExpr', 'CXXMemberCallExpr', 'CXXConstructExpr'):
                        tr.pop('M:' + n['n'], None)
        return tr

    def _arg_iv(self, a, st):
        t = self.fn.type(a)
        if type_range(t) == TOP:
            return None
        v = self.eval(a, st)
        return v if v[0] is not None and v[1] is not None else None

    def _vid(self, n):
        """Identifier of a tracked scalar l-value (local/param decl id or 'M:<field>' of this), else None."""
        while n is not None and n['k'] in ('ParenExpr',):
            n = kids(n)[0]
        if n is None:
            return None
        if n['k'] == 'DeclRefExpr':
            return n.get('d') if n.get('d') in self.tracked else None
        if n['k'] == 'MemberExpr' and not n.get('method'):
            c = kids(n)
            if c and strip(c[0])['k'] == 'CXXThisExpr':
                key = 'M:' + n['n']
                if key in self.tracked:
                    return key
        if n['k'] in ('MemberExpr', 'ArraySubscriptExpr'):
            return self._path_id(n)
        return None

    def _path_id(self, n):
        """'L:<root decl>:<path>' for an integer element/field of a local array/struct reached through constant
        subscripts and `.` members (operands[2].value); these are tracked like variables and killed whenever the
        root object is passed to a call or stored through a non-constant subscript."""
        t = self.fn.type(n)
        if type_range(t) == TOP:
            return None
        cache = self.__dict__.setdefault('_pid', {})
        if n['i'] in cache:
            return cache[n['i']]
        parts = []
        x = n
        key = None
        while True:
            if x['k'] == 'MemberExpr' and not x.get('arrow') and not x.get('method') and kids(x):
                parts.append('.' + x['n'])
                x = strip(kids(x)[0])
            elif x['k'] == 'ArraySubscriptExpr' and 'bound' in x:
                iv = const(kids(x)[1])
                if iv is None:
                    break
                parts.append('[%d]' % iv)
                x = strip(kids(x)[0])
            elif x['k'] == 'ArraySubscriptExpr' and 'bound' not in x and const(kids(x)[1]) is not None:
                # `token[1]` through a pointer-to-const parameter that the function never re-points: the character is
                # the same at every read (nothing in the function can store through a const pointer)
                b = strip(kids(x)[0], casts=True)
                tb = self.fn.type(b) or ''
                if b['k'] == 'DeclRefExpr' and b.get('dk') == 'param' and tb.startswith('const ') and '*' in tb and \
                        b['d'] not in self.__dict__.setdefault('_reparams', self._reassigned_params()):
                    parts.append('[%d]' % const(kids(x)[1]))
                    key = 'L:%d:%s' % (b['d'], ''.join(reversed(parts)))
                    self.tracked.setdefault(key, t)
                break
            elif x['k'] == 'DeclRefExpr' and x.get('dk') == 'local' and parts:
                key = 'L:%d:%s' % (x['d'], ''.join(reversed(parts)))
                self.tracked.setdefault(key, t)
                self.__dict__.setdefault('_roots', {}).setdefault(x['d'], set()).add(key)
                break
            else:
                break
        cache[n['i']] = key
        return key

    def _kill_root(self, st, d):
        for key in [k for k in st if isinstance(k, str) and k.startswith('L:%d:' % d)]:
            del st[key]
        pre = 'L:%d:' % d
        dead = [kk for kk, v in st.items() if isinstance(kk, tuple) and any(isinstance(x, str) and x.startswith(pre) for x in v[1])]
        for kk in dead:
            del st[kk]

    def _roots_in(self, n):
        """Local root decls mentioned (not through a constant-path read) in an argument expression."""
        out = set()
        st = [n]
        while st:
            x = st.pop()
            if x is None:
                continue
            if x['k'] == 'DeclRefExpr' and x.get('dk') == 'local':
                out.add(x['d'])
            st.extend(kids(x))
        return out

    def _call_kills_members(self, n):
        if not self.hier:
            return False
        k = n['k']
        if k == 'CXXMemberCallExpr':
            me = strip(kids(n)[0])
            rec = me.get('rec')
            obj = strip(kids(me)[0]) if kids(me) else None
            if obj is not None and obj['k'] == 'CXXThisExpr':
                return True
            return rec in self.hier
        if k in ('CallExpr', 'CXXConstructExpr'):
            for a in kids(n)[1:] if k == 'CallExpr' else kids(n):
                if a is not None and strip(a, casts=True)['k'] == 'CXXThisExpr':
                    return True
            if n.get('indirect'):
                return True
        return False

    # ---- evaluation
    def var(self, st, d):
        if d in st:
            return st[d]
        if isinstance(d, str) and d.startswith('M:'):
            rec = self._field_owner(d[2:])
            if rec:
                return self.an.field_range(rec, d[2:], self.tracked.get(d))
        return type_range(self.tracked.get(d))

    def _reassigned_params(self):
        out = set()
        for n in self.fn.nodes.values():
            if n['k'] in ('BinaryOperator', 'CompoundAssignOperator', 'UnaryOperator') and (
                    n.get('op') in ('++', '--') or (n.get('op', '').endswith('=') and n['op'] not in ('==', '!=', '<=', '>='))):
                t = strip(kids(n)[0])
                if t['k'] == 'DeclRefExpr' and t.get('dk') == 'param':
                    out.add(t['d'])
        return out

    def _field_owner(self, name):
        for c in self.hier:
            r = self.prog.records.get(c)
            if r and any(f['n'] == name for f in r['fields']):
                return c
        return None

    def eval(self, n, st):
        r = self._eval0(n, st)
        # a range established for this very expression by a dominating test (`address - page->address < K`)
        if n is not None and ((n['k'] == 'BinaryOperator' and n.get('op') in ('-', '+')) or n['k'] == 'ArraySubscriptExpr'):
            if any(isinstance(k_, tuple) and k_[0] == 'RNE' for k_ in st):
                ek = self.expr_key(n)
                if ek and ('RNE', ek[0]) in st:
                    m = meet(r, st[('RNE', ek[0])][0])
                    if not is_empty(m):
                        r = m
        return r

    def _eval0(self, n, st):
        if n is None:
            return TOP
        v = const(n)
        if v is not None:
            return (v, v)
        k = n['k']
        c = kids(n)
        fn = self.fn
        t = fn.type(n)
        if k in ('ParenExpr', 'ExprWithCleanups', 'ConstantExpr', 'MaterializeTemporaryExpr'):
            return self.eval(c[0], st)
        if k in ('ImplicitCastExpr', 'CStyleCastExpr', 'CXXStaticCastExpr', 'CXXFunctionalCastExpr'):
            inner = self.eval(c[0], st)
            ck = n.get('ck')
            if ck in ('LValueToRValue', 'NoOp'):
                return inner
            if ck in ('IntegralCast', 'IntegralToBoolean', 'BooleanToSignedIntegral'):
                tr = type_range(t)
                if tr == TOP:
                    return inner
                if inner[0] is not None and inner[1] is not None and inner[0] >= tr[0] and inner[1] <= tr[1]:
                    return inner
                return tr
            return type_range(t)
        if k == 'DeclRefExpr':
            d = n.get('d')
            if d in self.tracked:
                return self.var(st, d)
            if n.get('dk') == 'enum':
                return (n['v'], n['v'])
            return type_range(t)
        if k == 'UnaryOperator':
            op = n['op']
            if op == '-':
                return clamp_type(neg(self.eval(c[0], st)), t)
            if op == '+':
                return self.eval(c[0], st)
            if op == '!':
                return (0, 1)
            if op in ('++', '--'):
                v0 = self.eval(c[0], st)
                if n.get('post'):
                    return v0
                return clamp_type(add(v0, (1, 1) if op == '++' else (-1, -1)), t)
            if op == '~':
                return type_range(t)
            return type_range(t)
        if k == 'BinaryOperator':
            op = n['op']
            if op in ('<', '>', '<=', '>=', '==', '!=', '&&', '||'):
                return (0, 1)
            if op == ',':
                return self.eval(c[1], st)
            if op == '=':
                return self.eval(c[1], st)
            a, b = self.eval(c[0], st), self.eval(c[1], st)
            return clamp_type(self._binop(op, a, b, n), t)
        if k == 'CompoundAssignOperator':
            a, b = self.eval(c[0], st), self.eval(c[1], st)
            return clamp_type(self._binop(n['op'][:-1], a, b, n), t)
        if k == 'ConditionalOperator':
            return join(self.eval(c[1], st), self.eval(c[2], st))
        if k == 'ArraySubscriptExpr':
            vid = self._vid(n)
            if vid is not None:
                return self.var(st, vid)
            base = strip(c[0])
            if base['k'] == 'DeclRefExpr' and base.get('dk') == 'global':
                r = self.an.table_field_range(base['n'], None)
                if r != TOP:
                    return meet(r, type_range(t)) if type_range(t) != TOP else r
            return type_range(t)
        if k == 'MemberExpr':
            vid = self._vid(n)
            if vid is not None:
                return self.var(st, vid)
            if c:
                base = strip(c[0])
                if base['k'] == 'ArraySubscriptExpr':
                    arr = strip(kids(base)[0])
                    if arr['k'] == 'DeclRefExpr' and arr.get('dk') == 'global':
                        r = self.an.table_field_range(arr['n'], n['n'])
                        if r != TOP:
                            return r
            if n.get('rec') and not n.get('method') and 'bits' not in n and type_range(t) != TOP:
                return self.an.field_range(n['rec'], n['n'], t)
            if 'bits' in n:
                w = n['bits']
                tr = type_range(t)
                if tr != TOP and tr[0] == 0:
                    return (0, (1 << w) - 1)
                return (-(1 << (w - 1)), (1 << (w - 1)) - 1)
            return type_range(t)
        if k in ('CallExpr', 'CXXMemberCallExpr'):
            ck = ckey(n)
            if ck:
                f2 = self.prog.by_key.get(ck)
                args = None
                if f2 is not None and k == 'CallExpr' and len(call_args(n)) == len(f2.params()):
                    al = []
                    useful = False
                    for p, a in zip(f2.params(), call_args(n)):
                        pt = f2.types[p['t']]
                        if type_range(pt) == TOP:
                            al.append(None)
                            continue
                        v = self.eval(a, st)
                        if v != TOP and v != type_range(pt):
                            useful = True
                            al.append(v)
                        else:
                            al.append(None)
                    if useful:
                        args = tuple(al)
                r = self.an.return_range(ck, self.depth, args)
                if r is not None:
                    return r
                name = ck.split('@')[0]
                if name in ('strlen',):
                    a0 = strip(call_args(n)[0], casts=True) if call_args(n) else None
                    if a0 is not None and a0['k'] == 'DeclRefExpr':
                        ta = fn.type(a0) or ''
                        if '[' in ta:
                            try:
                                return (0, int(ta.split('[')[1].split(']')[0]) - 1)
                            except ValueError:
                                pass
                        if a0.get('dk') == 'param' and getattr(self.an, 'cg', None) is not None:
                            pi = [i for i, pp in enumerate(fn.params()) if pp['d'] == a0['d']]
                            reassigned = a0['d'] in self.__dict__.setdefault('_reassigned', self._reassigned_params())
                            if pi and not reassigned:
                                from rules.idx import _param_bound
                                pb = _param_bound(self.prog, self.an.cg, fn, pi[0], 0, max)
                                if pb:
                                    return (0, pb - 1)
                    return (0, None)
                if name in ('abs',):
                    return (0, None)
            return type_range(t)
        return type_range(t)

    def _binop(self, op, a, b, n):
        if op == '+':
            return add(a, b)
        if op == '-':
            return add(a, neg(b))
        if op == '*':
            if None in a or None in b:
                # sign-only reasoning
                if a[0] is not None and a[0] >= 0 and b[0] is not None and b[0] >= 0:
                    return (a[0] * b[0], None)
                return TOP
            ps = [a[0] * b[0], a[0] * b[1], a[1] * b[0], a[1] * b[1]]
            return (min(ps), max(ps))
        if op == '/':
            if b[0] is not None and b[0] > 0 and a[0] is not None and a[0] >= 0:
                hi = None if a[1] is None else a[1] // b[0]
                lo = 0 if b[1] is None else a[0] // b[1]
                return (lo, hi)
            return TOP
        if op == '%':
            if b[0] is not None and b[1] is not None and b[0] > 0:
                m = b[1] - 1
                if a[0] is not None and a[0] >= 0:
                    return (0, m if a[1] is None else min(m, a[1]))
                return (-m, m)
            return TOP
        if op == '&':
            cands = []
            if a[0] is not None and a[0] >= 0 and a[1] is not None:
                cands.append(a[1])
            if b[0] is not None and b[0] >= 0 and b[1] is not None:
                cands.append(b[1])
            if cands:
                return (0, min(cands))
            return TOP
        if op == '|' or op == '^':
            if a[0] is not None and a[0] >= 0 and b[0] is not None and b[0] >= 0 and a[1] is not None and b[1] is not None:
                m = max(a[1], b[1])
                return (0, (1 << m.bit_length()) - 1)
            return TOP
        if op == '>>':
            if a[0] is not None and a[0] >= 0 and b[0] is not None and b[0] >= 0:
                hi = None if a[1] is None else a[1] >> b[0]
                return (0, hi)
            if b[0] is not None and b[0] >= 0 and a[0] is not None and a[1] is not None:
                return (a[0] >> b[0] if a[0] < 0 else 0, a[1] >> b[0] if a[1] >= 0 else -1)
            return TOP
        if op == '<<':
            if a[0] is not None and a[0] >= 0 and b[0] is not None and b[1] is not None and b[0] >= 0 and b[1] < 64:
                hi = None if a[1] is None else a[1] << b[1]
                return (a[0] << b[0], hi)
            return TOP
        return TOP

    # ---- condition facts (correlation of repeated tests of the same pure condition)
    def fact_key(self, cond):
        """(key, locals) for a side-effect-free condition over tracked locals, constants and never-written
        global tables; None otherwise."""
        c = strip(cond)
        cache = self.__dict__.setdefault('_fk', {})
        if c['i'] in cache:
            return cache[c['i']]
        vars_ = set()
        ok = True
        parts = []
        st = [c]
        while st and ok:
            n = st.pop()
            k = n['k']
            if k in ('CallExpr', 'CXXMemberCallExpr', 'CXXOperatorCallExpr', 'CompoundAssignOperator', 'CXXConstructExpr'):
                ok = False
            elif k == 'UnaryOperator' and n.get('op') in ('++', '--', '*', '&'):
                ok = False
            elif k == 'BinaryOperator' and n.get('op') == '=':
                ok = False
            elif k == 'DeclRefExpr':
                dk = n.get('dk')
                if dk in ('local', 'param'):
                    if n.get('d') not in self.tracked:
                        ok = False
                    vars_.add(n.get('d'))
                    parts.append('v%d' % n['d'])
                elif dk == 'global':
                    if self.prog.global_writes().get(n['n']):
                        ok = False
                    parts.append('g' + n['n'])
                elif dk == 'enum':
                    parts.append('e%d' % n['v'])
                else:
                    ok = False
            elif k == 'MemberExpr':
                vid = self._vid(n)
                if vid is not None:
                    vars_.add(vid)
                    parts.append('m' + n['n'])
                    continue
                if n.get('arrow'):
                    ok = False
                parts.append('.' + n['n'])
            elif k in ('IntegerLiteral', 'CharacterLiteral', 'CXXBoolLiteralExpr'):
                parts.append('#%s' % n.get('v'))
            elif k in ('BinaryOperator', 'UnaryOperator'):
                parts.append(n.get('op', '?'))
            elif k in ('ImplicitCastExpr', 'ParenExpr', 'ArraySubscriptExpr', 'CStyleCastExpr', 'GNUNullExpr',
                       'CXXNullPtrLiteralExpr', 'ConstantExpr'):
                parts.append(k[0])
            else:
                ok = False
            st.extend(reversed(kids(n)))
        inv = False
        if ok and parts and c['k'] == 'BinaryOperator' and c.get('op') == '!=':
            parts[0] = '=='
            inv = True
        r = (' '.join(parts), frozenset(vars_), inv) if ok and vars_ else None
        cache[c['i']] = r
        return r

    PURE_CALLS = ('printf', 'fprintf', 'snprintf', 'sprintf', 'strcmp', 'strcasecmp', 'strncmp', 'strlen', 'putc',
                  'fputc', 'puts', 'fputs', 'memcmp', 'abs')

    def expr_key(self, n):
        """(key, deps) of a call-free expression reading locals / members / array elements; None otherwise.
        deps: decl ids, 'F:<field>', 'A' (some array element), '*mem*' (reads memory that a call may change)."""
        cache = self.__dict__.setdefault('_ek', {})
        if n['i'] in cache:
            return cache[n['i']]
        parts, deps, ok = [], set(), True
        st = [n]
        while st and ok:
            x = st.pop()
            k = x['k']
            if k in ('CallExpr', 'CXXMemberCallExpr', 'CXXOperatorCallExpr', 'CompoundAssignOperator', 'CXXConstructExpr',
                     'ConditionalOperator'):
                ok = False
            elif k == 'UnaryOperator' and x.get('op') in ('++', '--', '&'):
                ok = False
            elif k == 'UnaryOperator' and x.get('op') == '*':
                deps.add('*mem*')
                deps.add('A')
                parts.append('*')
            elif k == 'BinaryOperator' and x.get('op') in ('=', ','):
                ok = False
            elif k == 'DeclRefExpr':
                dk = x.get('dk')
                if dk in ('local', 'param', 'slocal', 'global'):
                    deps.add(x.get('d') if dk != 'global' else 'G:' + x['n'])
                    if dk == 'global':
                        deps.add('*mem*')
                    parts.append('v%s' % x.get('d'))
                elif dk == 'enum':
                    parts.append('e%d' % x['v'])
                else:
                    ok = False
            elif k == 'MemberExpr':
                if x.get('method'):
                    ok = False
                deps.add('F:' + x['n'])
                deps.add('*mem*')
                parts.append('.' + x['n'])
            elif k == 'ArraySubscriptExpr':
                deps.add('A')
                deps.add('*mem*')
                parts.append('[]')
            elif k == 'CXXThisExpr':
                parts.append('this')
            elif k in ('IntegerLiteral', 'CharacterLiteral', 'CXXBoolLiteralExpr'):
                parts.append('#%s' % x.get('v'))
            elif k in ('BinaryOperator', 'UnaryOperator'):
                parts.append(x.get('op', '?'))
            elif k in ('ImplicitCastExpr', 'ParenExpr', 'CStyleCastExpr', 'ConstantExpr', 'CXXStaticCastExpr'):
                pass
            else:
                ok = False
            st.extend(reversed(kids(x)))
        r = (' '.join(parts), frozenset(deps)) if ok and deps else None
        cache[n['i']] = r
        return r

    def _kill_deps(self, st, pred):
        dead = [k for k, v in st.items() if isinstance(k, tuple) and k[0] in ('NZE', 'RNE') and any(pred(x) for x in v[1])]
        for k in dead:
            del st[k]

    def _kill_facts(self, st, d):
        dead = [k for k, v in st.items() if isinstance(k, tuple) and d in v[1]]
        for k in dead:
            del st[k]

    # ---- transfer
    def _assign(self, st, d, v):
        t = self.tracked.get(d)
        v = clamp_type(v, t)
        tr = type_range(t)
        if v == tr or v == TOP:
            st.pop(d, None)
        else:
            st[d] = v

    def step(self, n, st):
        k = n['k']
        ka = self.killed_at.get(n['i']) if k in ('CallExpr', 'CXXMemberCallExpr', 'CXXConstructExpr') else None
        if ka:
            outs = {}
            if k == 'CallExpr' and n.get('ck') and self.depth < 3:
                # `f(..., &v)`: what the callee stores through that pointer parameter, in the context of this call's
                # integer arguments (a range helper such as calc_branch(ctx, operands, 9, &offset))
                args = [a for a in kids(n)[1:] if a is not None]
                for idx, a in enumerate(args):
                    sa = strip(a, casts=True)
                    if sa['k'] == 'UnaryOperator' and sa.get('op') == '&':
                        t_ = strip(kids(sa)[0])
                        if t_['k'] == 'DeclRefExpr' and t_.get('d') in ka:
                            ctx = tuple(self._arg_iv(x, st) for x in args)
                            r = self.an.outparam_range(n['ck'], idx, ctx, self.depth)
                            if r is not None:
                                outs[t_['d']] = r
            for d in ka:
                st.pop(d, None)
                self._kill_facts(st, d)
                if d in outs and outs[d] != TOP:
                    self._assign(st, d, outs[d])
        if k in ('CallExpr', 'CXXMemberCallExpr', 'CXXConstructExpr', 'CXXOperatorCallExpr'):
            if (n.get('callee') or '') not in self.PURE_CALLS:
                self._kill_deps(st, lambda x: x == '*mem*')
            roots = self.__dict__.get('_roots')
            if roots:
                for a in kids(n)[1:] if k != 'CXXConstructExpr' else kids(n):
                    if a is None:
                        continue
                    # an argument that is just the value of a tracked path (operands[0].value) does not expose the object
                    sa = strip(a, casts=True)
                    if sa['k'] in ('MemberExpr', 'ArraySubscriptExpr') and self._path_id(sa) is not None and not sa.get('lv_ref'):
                        pa = self.fn.parent.get(a['i'])
                        if a['k'] == 'ImplicitCastExpr' and a.get('ck') == 'LValueToRValue':
                            continue
                    # an integer passed by value (the argument is read through an lvalue-to-rvalue conversion, possibly
                    # widened) cannot expose the object it was read from: `write8(address++, uf2_block.data[n])`
                    x_ = a
                    byval = False
                    while x_ is not None and x_['k'] in ('ParenExpr', 'ImplicitCastExpr', 'CStyleCastExpr'):
                        if x_['k'] == 'ImplicitCastExpr' and x_.get('ck') == 'LValueToRValue':
                            byval = type_range(self.fn.type(x_)) != TOP
                            break
                        x_ = kids(x_)[0] if kids(x_) else None
                    if byval:
                        continue
                    for d in self._roots_in(a):
                        if d in roots:
                            self._kill_root(st, d)
        if k in ('BinaryOperator', 'CompoundAssignOperator', 'UnaryOperator') and (
                n.get('op') in ('++', '--') or (n.get('op', '').endswith('=') and n['op'] not in ('==', '!=', '<=', '>='))):
            tgt = strip(kids(n)[0])
            if tgt['k'] in ('MemberExpr', 'ArraySubscriptExpr') and self._path_id(tgt) is None:
                # store through a non-constant subscript / pointer: every tracked path of the same root may change
                roots = self.__dict__.get('_roots')
                if roots:
                    for d in self._roots_in(tgt):
                        if d in roots:
                            self._kill_root(st, d)
            if tgt['k'] == 'DeclRefExpr':
                dd = tgt.get('d')
                self._kill_deps(st, lambda x: x == dd or x == 'G:' + tgt.get('n', ''))
            elif tgt['k'] == 'MemberExpr':
                fname = 'F:' + tgt['n']
                self._kill_deps(st, lambda x: x == fname)
            else:
                self._kill_deps(st, lambda x: x in ('A', ) or (isinstance(x, str) and x.startswith('F:')))
        if k in ('CallExpr', 'CXXMemberCallExpr', 'CXXConstructExpr') and self._call_kills_members(n):
            for d in [d for d in st if isinstance(d, str) and d.startswith('M:')]:
                del st[d]
            dead = [kk for kk, v in st.items() if isinstance(kk, tuple) and any(isinstance(x, str) for x in v[1])]
            for kk in dead:
                del st[kk]
            return
        if k in ('BinaryOperator', 'CompoundAssignOperator', 'UnaryOperator') and (
                n.get('op') in ('++', '--') or (n.get('op', '').endswith('=') and n['op'] not in ('==', '!=', '<=', '>='))):
            l0 = strip(kids(n)[0])
            vid0 = self._vid(l0)
            if vid0 is not None:
                self._kill_facts(st, vid0)
            elif l0['k'] == 'DeclRefExpr':
                self._kill_facts(st, l0.get('d'))
        if k in ('BinaryOperator', 'CompoundAssignOperator') and n.get('op', '').endswith('=') and \
                n['op'] not in ('==', '!=', '<=', '>='):
            vid = self._vid(strip(kids(n)[0]))
            if vid is not None:
                self._assign(st, vid, self.eval(n, st))
        elif k == 'UnaryOperator' and n.get('op') in ('++', '--'):
            vid = self._vid(strip(kids(n)[0]))
            if vid is not None:
                v0 = self.var(st, vid)
                self._assign(st, vid, add(v0, (1, 1) if n['op'] == '++' else (-1, -1)))
        elif k == 'DeclStmt':
            inits = list(kids(n))
            ds = [d for d in n.get('decls', ()) if d.get('init')]
            if len(ds) == len(inits):
                for d, i in zip(ds, inits):
                    if d['d'] in self.tracked:
                        self._assign(st, d['d'], self.eval(i, st))

    def _range_guard(self, call):
        """(value arg, lo arg, hi arg, failing return constant) when `call` invokes a range predicate: a function whose
        body is `if (p < a || p > b) { ...; return C; } return 0;` over its own parameters (asm/common.cpp
        check_range and look-alikes).  Recognised from the callee's syntax tree, cached per callee."""
        from .facts import ckey, call_args
        ck = ckey(call)
        cache = self.an.__dict__.setdefault('_range_guards', {})
        if ck not in cache:
            cache[ck] = None
            f = self.an.prog.by_key.get(ck) if ck else None
            if f is not None and f.body is not None:
                ps_ = {p['d']: i for i, p in enumerate(f.params())}
                stmts = [x for x in kids(f.body) if x is not None]
                if len(stmts) == 2 and stmts[0]['k'] == 'IfStmt' and stmts[1]['k'] == 'ReturnStmt' and const(kids(stmts[1])[0]) == 0:
                    ic = [x for x in kids(stmts[0]) if x is not None]
                    cnd = strip(ic[0])
                    if cnd['k'] == 'BinaryOperator' and cnd.get('op') == '||' and len(ic) == 2:
                        l, r = strip(kids(cnd)[0]), strip(kids(cnd)[1])
                        def side(x, op):
                            if x['k'] == 'BinaryOperator' and x.get('op') == op:
                                a, b = strip(kids(x)[0], casts=True), strip(kids(x)[1], casts=True)
                                if a['k'] == 'DeclRefExpr' and b['k'] == 'DeclRefExpr' and a.get('d') in ps_ and b.get('d') in ps_:
                                    return ps_[a['d']], ps_[b['d']]
                            return None
                        lo_, hi_ = side(l, '<'), side(r, '>')
                        rets = [x for x in walk_nodes(ic[1]) if x['k'] == 'ReturnStmt']
                        if lo_ and hi_ and lo_[0] == hi_[0] and rets and all(kids(x) and (const(kids(x)[0]) or 0) != 0 for x in rets):
                            cache[ck] = (lo_[0], lo_[1], hi_[1], const(kids(rets[-1])[0]))
        g = cache.get(ck)
        if g is None:
            return None
        a = call_args(call)
        if max(g[:3]) >= len(a):
            return None
        return a[g[0]], a[g[1]], a[g[2]], g[3]

    def _refine_guard(self, c, st, truth):
        """Branch on the result of a range predicate: on the in-range edge the value argument is inside [lo, hi]."""
        call, in_range_when = None, None
        if c['k'] == 'CallExpr':
            call, in_range_when = c, False          # `if (check_range(...))` is true when out of range
        elif c['k'] == 'BinaryOperator' and c.get('op') in ('==', '!=', '<'):
            a, b = strip(kids(c)[0], casts=True), kids(c)[1]
            if a['k'] == 'CallExpr' and const(b) is not None:
                g = self._range_guard(a)
                if g is None:
                    return None
                fail = g[3]
                kb = const(b)
                if c['op'] == '==' and kb == 0:
                    call, in_range_when = a, True
                elif c['op'] == '!=' and kb == 0:
                    call, in_range_when = a, False
                elif c['op'] == '==' and kb == fail:
                    call, in_range_when = a, False
                elif c['op'] == '!=' and kb == fail:
                    call, in_range_when = a, True
                elif c['op'] == '<' and kb == 0 and fail < 0:
                    call, in_range_when = a, False
        if call is None:
            return None
        g = self._range_guard(call)
        if g is None or truth != in_range_when:
            return None
        v, lo, hi, _ = g
        vid = self._vid(strip(v, casts=True))
        if vid is None:
            return None
        lo_v, hi_v = self.eval(lo, st), self.eval(hi, st)
        new = meet(self.var(st, vid), (lo_v[0], hi_v[1]))
        if is_empty(new):
            return 'empty'
        st2 = dict(st)
        st2[vid] = new
        return st2

    def refine(self, cond, st, truth):
        """State on the `truth` edge of a branch on cond; None when infeasible."""
        c = strip(cond)
        k = c['k']
        if k in ('CallExpr', 'BinaryOperator'):
            g = self._refine_guard(c, st, truth)
            if g == 'empty':
                return None
            if g is not None:
                return g
        if k == 'UnaryOperator' and c.get('op') == '!':
            return self.refine(kids(c)[0], st, not truth)
        if k == 'BinaryOperator' and c['op'] in ('<', '<=', '>', '>=', '==', '!='):
            op = c['op']
            a, b = kids(c)
            if not truth:
                op = {'<': '>=', '<=': '>', '>': '<=', '>=': '<', '==': '!=', '!=': '=='}[op]
            # an edge whose (possibly negated) comparison is false for every pair of values is infeasible
            if any(x['k'] in ('CallExpr', 'CXXMemberCallExpr') for x in walk_nodes(c)):
                va = vb = (None, None)       # evaluating a call here would recurse into its summary out of order
            else:
                va, vb = self.eval(a, st), self.eval(b, st)
            if None not in va and None not in vb:
                never = {'<': va[0] >= vb[1], '<=': va[0] > vb[1], '>': va[1] <= vb[0], '>=': va[1] < vb[0],
                         '==': va[1] < vb[0] or va[0] > vb[1], '!=': va[0] == va[1] == vb[0] == vb[1]}[op]
                if never:
                    return None
            st2 = dict(st)
            for lhs, rhs, o in ((a, b, op), (b, a, {'<': '>', '<=': '>=', '>': '<', '>=': '<=', '==': '==', '!=': '!='}[op])):
                l = strip(lhs, casts=False)
                vid = self._vid(l)
                if vid is None and l['k'] == 'ImplicitCastExpr':
                    # integral promotions / conversions of a tracked variable whose range fits the wider type
                    x = l
                    while x['k'] == 'ImplicitCastExpr' and x.get('ck') in ('IntegralCast', 'LValueToRValue', 'NoOp') and kids(x):
                        x = kids(x)[0]
                    v2 = self._vid(x)
                    if v2 is not None:
                        cur2 = self.var(st2, v2)
                        tr = type_range(self.fn.type(l))
                        if tr != TOP and cur2[0] is not None and cur2[1] is not None and cur2[0] >= tr[0] and cur2[1] <= tr[1]:
                            vid = v2
                if vid is not None:
                    cur = self.var(st2, vid)
                    rv = self.eval(rhs, st)
                    new = cur
                    if o == '<' and rv[1] is not None:
                        new = meet(cur, (None, rv[1] - 1))
                    elif o == '<=' and rv[1] is not None:
                        new = meet(cur, (None, rv[1]))
                    elif o == '>' and rv[0] is not None:
                        new = meet(cur, (rv[0] + 1, None))
                    elif o == '>=' and rv[0] is not None:
                        new = meet(cur, (rv[0], None))
                    elif o == '==':
                        new = meet(cur, rv)
                    elif o == '!=' and rv[0] is not None and rv[0] == rv[1]:
                        if cur[0] == rv[0]:
                            new = (cur[0] + 1, cur[1])
                        elif cur[1] == rv[0]:
                            new = (cur[0], cur[1] - 1)
                        elif rv[0] == 0:
                            st2[('NZ', vid)] = (True, frozenset([vid]))
                    if is_empty(new):
                        return None
                    if new != cur:
                        st2[vid] = new
                elif o == '!=' and const(rhs) == 0:
                    ek = self.expr_key(l)
                    if ek:
                        st2[('NZE', ek[0])] = (True, ek[1])
                elif o in ('<', '<=', '>', '>=', '=='):
                    l2 = strip(l, casts=True)
                    if (l2['k'] == 'BinaryOperator' and l2.get('op') in ('-', '+')) or \
                            (l2['k'] == 'ArraySubscriptExpr' and self._path_id(l2) is None):
                        # `token[n] < '0'`: an element read through a variable subscript keeps the tested range until its
                        # subscript, an array element or (for memory a call may change) a call intervenes
                        ek = self.expr_key(l2)
                        rv = self.eval(rhs, st)
                        if ek and not any(x_['k'] in ('CallExpr', 'CXXMemberCallExpr') for x_ in _walk(rhs)):
                            cur = self.eval(l2, st2)
                            new = cur
                            if o == '<' and rv[1] is not None:
                                new = meet(cur, (None, rv[1] - 1))
                            elif o == '<=' and rv[1] is not None:
                                new = meet(cur, (None, rv[1]))
                            elif o == '>' and rv[0] is not None:
                                new = meet(cur, (rv[0] + 1, None))
                            elif o == '>=' and rv[0] is not None:
                                new = meet(cur, (rv[0], None))
                            elif o == '==':
                                new = meet(cur, rv)
                            if is_empty(new):
                                return None
                            if new != cur:
                                st2[('RNE', ek[0])] = (new, ek[1])
            return st2
        vid = self._vid(strip(c, casts=False))
        if vid is None:
            x = c
            while x['k'] == 'ImplicitCastExpr' and kids(x):
                x = kids(x)[0]
            vid = self._vid(x)
        if vid is not None:
            cur = self.var(st, vid)
            if not truth:
                new = meet(cur, (0, 0))
                if is_empty(new):
                    return None
                st2 = dict(st)
                st2[vid] = new
                return st2
            if cur == (0, 0):
                return None
            st2 = dict(st)
            if cur[0] == 0:
                st2[vid] = (1, cur[1])
            elif cur[1] == 0:
                st2[vid] = (cur[0], -1)
            else:
                st2[('NZ', vid)] = (True, frozenset([vid]))
            return st2
        if truth and k not in ('BinaryOperator',):
            ek = self.expr_key(c)
            if ek:
                st2 = dict(st)
                st2[('NZE', ek[0])] = (True, ek[1])
                return st2
        return st

    def nonzero(self, expr, st):
        """Is the value of expr provably non-zero in state st?"""
        v = self.eval(expr, st)
        if (v[0] is not None and v[0] >= 1) or (v[1] is not None and v[1] <= -1):
            return True
        x = expr
        while x is not None and x['k'] in ('ImplicitCastExpr', 'ParenExpr') and kids(x):
            if x['k'] == 'ImplicitCastExpr':
                # a narrowing conversion can turn a non-zero value into zero (0x0100 -> uint8_t): the fact about the
                # wide value says nothing about the narrow one
                to, frm = type_range(self.fn.type(x)), type_range(self.fn.type(kids(x)[0]))
                if to != TOP and frm != TOP and to[1] is not None and frm[1] is not None and to[1] < frm[1]:
                    sv = self.eval(kids(x)[0], st)
                    if not (sv[0] is not None and sv[1] is not None and sv[0] >= to[0] and sv[1] <= to[1]):
                        return False
            x = kids(x)[0]
        vid = self._vid(x) if x is not None else None
        if vid is not None and ('NZ', vid) in st:
            return True
        ek = self.expr_key(x) if x is not None else None
        return bool(ek and ('NZE', ek[0]) in st)

    def _solve(self):
        fn = self.fn
        if fn.entry is None:
            return
        dead = self.an.dead_edges(fn) if self.an.dead_edges is not None else ()
        # widening points: targets of retreating edges in a DFS (loop heads)
        heads = set()
        color = {}
        stack = [(fn.entry, iter(fn.succs(fn.entry)))]
        color[fn.entry] = 1
        while stack:
            x, it = stack[-1]
            adv = False
            for y in it:
                if color.get(y) == 1:
                    heads.add(y)
                elif y not in color:
                    color[y] = 1
                    stack.append((y, iter(fn.succs(y))))
                    adv = True
                    break
            if not adv:
                color[x] = 2
                stack.pop()
        CAP = 6
        st0 = {d: v for d, v in self.param_init.items()
               if d in self.tracked and v != TOP and v != type_range(self.tracked[d])}

        # only conditions that are tested at two or more places of the function can ever be re-used, so only
        # their facts distinguish partitions (and only they are recorded)
        cnt = {}
        for bb in fn.blocks.values():
            cn = fn.nodes.get(bb.get('cond')) if 'cond' in bb else None
            if cn is not None and bb.get('termk') != 'SwitchStmt':
                fk0 = self.fact_key(cn)
                if fk0:
                    cnt[fk0[0]] = cnt.get(fk0[0], 0) + 1
        multi = {k for k, c in cnt.items() if c >= 2}
        # widening thresholds: constants each tracked variable is compared with (K-1, K, K+1)
        thr = {}
        for nn in fn.nodes.values():
            if nn['k'] == 'BinaryOperator' and nn.get('op') in ('<', '<=', '>', '>=', '==', '!='):
                for a, bb in ((kids(nn)[0], kids(nn)[1]), (kids(nn)[1], kids(nn)[0])):
                    x = a
                    while x is not None and x['k'] in ('ImplicitCastExpr', 'ParenExpr') and kids(x):
                        x = kids(x)[0]
                    vid = self._vid(x) if x is not None else None
                    kv = const(bb)
                    if vid is not None and kv is not None:
                        thr.setdefault(vid, set()).update((kv - 1, kv, kv + 1))
            elif nn['k'] == 'ArraySubscriptExpr' and 'bound' in nn:
                x = kids(nn)[1]
                while x is not None and x['k'] in ('ImplicitCastExpr', 'ParenExpr') and kids(x):
                    x = kids(x)[0]
                vid = self._vid(x) if x is not None else None
                if vid is not None:
                    thr.setdefault(vid, set()).update((nn['bound'] - 1, nn['bound']))

        def pkey(st):
            return frozenset((k, v[0]) for k, v in st.items() if isinstance(k, tuple) and k[0] == 'F')

        # inn[block] = {partition key: state}; partitions are distinguished by the set of known condition
        # facts (bounded trace partitioning); more than CAP partitions collapse into one joined state
        inn = {fn.entry: {pkey(st0): st0}}
        collapsed = set()
        visits = {}
        work = [(fn.entry, pkey(st0))]
        steps = 0
        while work:
            bid, pk = work.pop()
            if bid in collapsed:
                pk = 'ANY'
            cur = inn[bid].get(pk)
            if cur is None:
                continue
            steps += 1
            if steps > 200000:
                break
            st = dict(cur)
            self.reached.add(bid)
            b = fn.blocks[bid]
            for e in b['e']:
                n = fn.nodes.get(e)
                if n is not None:
                    self.step(n, st)
            succ = b['s']
            cond = fn.nodes.get(b.get('cond')) if 'cond' in b else None
            # the block that ends `if (a || b)` / `if (a && b)` carries the whole condition as terminator
            # condition, but by then the left operand is decided: the branch is on the rightmost operand
            while cond is not None:
                cs_ = strip(cond)
                if cs_['k'] == 'BinaryOperator' and cs_.get('op') in ('||', '&&'):
                    cond = kids(cs_)[1]
                else:
                    break
            outs = []
            if cond is not None and len(succ) == 2 and b.get('termk') != 'SwitchStmt':
                fk = self.fact_key(cond)
                if fk and fk[0] not in multi:
                    fk = None
                known = st.get(('F', fk[0])) if fk else None
                for s, truth in ((succ[0], True), (succ[1], False)):
                    if s is None:
                        continue
                    t2 = truth != fk[2] if fk else truth
                    if known is not None and known[0] != t2:
                        continue      # the same pure condition was decided the other way and nothing changed
                    r = self.refine(cond, st, truth)
                    if r is not None:
                        if fk:
                            r = dict(r)
                            r[('F', fk[0])] = (t2, fk[1])
                        outs.append((s, r))
            else:
                for s in succ:
                    if s is not None:
                        outs.append((s, st))
            for s, so in outs:
                if dead and (bid, s) in dead:
                    continue
                parts = inn.setdefault(s, {})
                k2 = 'ANY' if s in collapsed else pkey(so)
                old = parts.get(k2)
                if old is None:
                    if len(parts) >= CAP and k2 != 'ANY':
                        # collapse all partitions of s into one
                        collapsed.add(s)
                        if _DEBUG is not None:
                            print('IV collapse', s, 'from', bid, [sorted(map(str, k)) for k in list(parts) + [k2]])
                        merged = None
                        for stx in list(parts.values()) + [so]:
                            merged = stx if merged is None else self._join_states(merged, stx)
                        inn[s] = {'ANY': merged}
                        work.append((s, 'ANY'))
                        continue
                    parts[k2] = dict(so)
                    work.append((s, k2))
                    continue
                new = self._join_states(old, so)
                if new != old:
                    if s in heads:
                        w = {}
                        for d, v in new.items():
                            if isinstance(d, tuple):
                                w[d] = v
                                continue
                            o = old.get(d)
                            if o is None:
                                continue
                            if v != o:
                                visits[(s, k2, d)] = visits.get((s, k2, d), 0) + 1
                            if visits.get((s, k2, d), 0) > 3:
                                tr = type_range(self.tracked.get(d))
                                lo, hi = v
                                if v[0] != o[0]:
                                    c = [t for t in thr.get(d, ()) if v[0] is not None and t <= v[0]]
                                    lo = max(c) if c and visits[(s, k2, d)] < 12 else tr[0]
                                if v[1] != o[1]:
                                    c = [t for t in thr.get(d, ()) if v[1] is not None and t >= v[1]]
                                    hi = min(c) if c and visits[(s, k2, d)] < 12 else tr[1]
                                v = (lo, hi)
                            if v != type_range(self.tracked.get(d)):
                                w[d] = v
                        new = w
                    if new != old:
                        if _DEBUG is not None and s == _DEBUG[0]:
                            print('IV', bid, '->', s, 'old', old.get(_DEBUG[1]), 'in', so.get(_DEBUG[1]), 'new', new.get(_DEBUG[1]))
                        parts[k2] = new
                        work.append((s, k2))
        self.inn = inn

    def _join_states(self, old, so):
        new = {}
        for d in set(old) & set(so):
            if isinstance(d, tuple):
                if old[d] == so[d]:
                    new[d] = old[d]
                continue
            j = join(old[d], so[d])
            if j != type_range(self.tracked.get(d)) and j != TOP:
                new[d] = j
        return new

    def states_before(self, node):
        """Abstract states (one per partition) immediately before CFG element `node`."""
        w = self.fn.block_of(node)
        if w is None or w[0] not in self.inn:
            return []
        out = []
        b = self.fn.blocks[w[0]]
        for st0 in self.inn[w[0]].values():
            st = dict(st0)
            for e in b['e'][:w[1]]:
                n = self.fn.nodes.get(e)
                if n is not None:
                    self.step(n, st)
            out.append(st)
        return out

    def state_before(self, node):
        sts = self.states_before(node)
        if not sts:
            return None
        m = sts[0]
        for x in sts[1:]:
            m = self._join_states(m, x)
        return m

    def eval_own(self, expr):
        """Value of expr in the state just before its own evaluation starts (before the side effects of its
        sub-expressions such as i++, which the CFG lists ahead of the enclosing node)."""
        first = None
        best = None
        for x in _walk(expr):
            w = self.fn.where.get(x['i'])
            if w is not None and (best is None or w < best):
                best, first = w, x
        return self.eval_at(expr, first if first is not None else expr)

    def eval_at(self, expr, at):
        sts = self.states_before(at)
        if not sts:
            return TOP
        r = None
        for st in sts:
            v = self.eval(expr, st)
            r = v if r is None else join(r, v)
        return r

.ps2_ee
  vcallms 0
  vcallms 8
  vcallms 1000
  vcallms 0x3ff8

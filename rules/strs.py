"""R-STR: every strcpy / strcat into a buffer of known capacity copies a string whose maximal length fits.

capacity   a char array of declared size N (local, member, global) holds N bytes; `buf + k` (constant k) holds N - k;
           a pointer parameter holds the smallest capacity any caller passes for it (call graph, cpu_list columns
           resolved, three levels)
max length a string literal has its length; a char array of size N filled by the tokeniser holds at most N - 1
           characters; a field of a constant table (`table[n].instr`) has the longest initialiser of that column; a
           pointer parameter has the largest bound any caller's argument has; anything else is unknown
strcat     the destination's current length is bounded by the longest strcpy into it plus all strcats into it in the
           function (each counted once; a strcat inside a loop is unbounded)
Verdicts   proven when capacity > worst-case length; violation only when a copied literal alone does not fit (the
           worst-case lengths of arrays are capacities, not contents, so a larger sum proves nothing);
           otherwise not decided (observation), with the triage reason from rules/str_table.json where there is one."""
import json
import os
from nk.facts import kids, strip, const, show, walk, callee, call_args, ckey
from nk.cfg import natural_loops
from nk import tables
from nk.report import Ob, RuleResult, DISCHARGED, VIOLATED, OBSERVATION
from nk.build import AnalysisBroken

HERE = os.path.dirname(os.path.abspath(__file__))


def _arr_size(t):
    if not t or '[' not in t or not t.replace('const ', '').startswith(('char', 'unsigned char', 'uint8_t', 'signed char', 'int8_t')):
        return None
    try:
        return int(t.split('[')[1].split(']')[0])
    except ValueError:
        return None


class Ctx:
    def __init__(self, prog, cg):
        self.prog, self.cg = prog, cg
        self._col = {}
        self._callers = None

    def callers(self, fn):
        if self._callers is None:
            self._callers = {}
            for f2 in self.prog.fns.values():
                for c in f2.calls():
                    k = ckey(c)
                    if k:
                        self._callers.setdefault(k, []).append((f2, c))
                    elif c.get('indirect'):
                        tgt = strip(kids(c)[0], casts=True)
                        for key in self.cg.columns.get(tgt.get('n'), ()):
                            self._callers.setdefault(key, []).append((f2, c))
        return self._callers.get(fn.key, [])

    def column_max(self, gname, field):
        k = (gname, field)
        if k not in self._col:
            m = None
            try:
                rows, fields, g = tables.rows(self.prog, gname)
                for r in rows:
                    s = tables.strval(r.get(field)) if r.get(field) is not None else None
                    if s is not None:
                        m = max(m or 0, len(s))
            except (AnalysisBroken, KeyError, TypeError):
                m = None
            self._col[k] = m
        return self._col[k]

    # -------------------------------------------------------------------------------- capacity of a destination
    def capacity(self, fn, e, depth=0):
        e = strip(e, casts=True)
        t = fn.type(e) or ''
        n = _arr_size(t)
        if n is not None and e['k'] in ('DeclRefExpr', 'MemberExpr'):
            return n
        if e['k'] == 'BinaryOperator' and e.get('op') == '+':
            a, b = kids(e)
            base = self.capacity(fn, a, depth)
            k = const(b)
            if base is not None and k is not None and 0 <= k <= base:
                return base - k
            return None
        if e['k'] == 'DeclRefExpr' and e.get('dk') == 'param' and depth < 3:
            pi = [i for i, p in enumerate(fn.params()) if p['d'] == e['d']]
            cs = self.callers(fn)
            if not pi or not cs:
                return None
            best = None
            for f2, c in cs:
                a = call_args(c)
                if pi[0] >= len(a):
                    return None
                v = self.capacity(f2, a[pi[0]], depth + 1)
                if v is None:
                    return None
                best = v if best is None else min(best, v)
            return best
        return None

    # -------------------------------------------------------------------------------- maximal length of a source
    def maxlen(self, fn, e, depth=0):
        e = strip(e, casts=True)
        if e['k'] == 'StringLiteral':
            return len(e.get('s') or '')
        if e['k'] == 'ConditionalOperator':
            ks = kids(e)
            a, b = self.maxlen(fn, ks[1], depth), self.maxlen(fn, ks[2], depth)
            return None if a is None or b is None else max(a, b)
        t = fn.type(e) or ''
        n = _arr_size(t)
        if n is not None and e['k'] in ('DeclRefExpr', 'MemberExpr'):
            return n - 1
        if e['k'] == 'MemberExpr':
            base = strip(kids(e)[0]) if kids(e) else None
            if base is not None and base['k'] == 'ArraySubscriptExpr':
                arr = strip(kids(base)[0], casts=True)
                if arr['k'] == 'DeclRefExpr' and arr.get('dk') == 'global':
                    return self.column_max(arr['n'], e['n'])
        if e['k'] == 'ArraySubscriptExpr':
            arr = strip(kids(e)[0], casts=True)
            if arr['k'] == 'DeclRefExpr' and arr.get('dk') in ('global', 'local'):
                g = None
                try:
                    g = self.prog.global_def(arr['n']) if arr.get('dk') == 'global' else None
                except AnalysisBroken:
                    g = None
                if g is not None and 'init' in g:
                    m = None
                    for x in walk(g['init']):
                        if x['k'] == 'StringLiteral':
                            m = max(m or 0, len(x.get('s') or ''))
                    return m
        if e['k'] == 'DeclRefExpr' and e.get('dk') == 'param' and depth < 3:
            pi = [i for i, p in enumerate(fn.params()) if p['d'] == e['d']]
            cs = self.callers(fn)
            if not pi or not cs:
                return None
            best = None
            for f2, c in cs:
                a = call_args(c)
                if pi[0] >= len(a):
                    return None
                v = self.maxlen(f2, a[pi[0]], depth + 1)
                if v is None:
                    return None
                best = v if best is None else max(best, v)
            return best
        return None


def load_table():
    p = os.path.join(HERE, 'str_table.json')
    if not os.path.exists(p):
        return {}
    with open(p) as f:
        t = json.load(f)
    return {(e['file'], e['function'], e['construct']): e['reason'] for e in t.get('accepted', [])}


INF = 10 ** 9


def strs(prog, cg, scope, floor=20):
    ctx = Ctx(prog, cg)
    table = load_table()
    obs = []
    for fn in sorted(prog.functions(scope), key=lambda f: (f.file, f.line)):
        if not fn.blocks:
            continue
        calls = [c for c in sorted(fn.calls(), key=lambda x: x['i']) if callee(c) in ('strcpy', 'strcat')]
        if not calls:
            continue
        dsts = {}
        for c in calls:
            dsts.setdefault(show(strip(call_args(c)[0], casts=True)), []).append(c)
        # every call that writes a destination some other way resets what is known about its length
        writers = {}
        for c in fn.calls():
            q = callee(c)
            if q in ('strcpy', 'strcat') or not call_args(c):
                continue
            a0 = show(strip(call_args(c)[0], casts=True))
            if a0 in dsts:
                w = fn.where.get(c['i'])
                if w:
                    bound = None
                    if q == 'snprintf' and len(call_args(c)) > 1 and const(call_args(c)[1]) is not None:
                        bound = max(const(call_args(c)[1]) - 1, 0)
                    writers.setdefault(a0, {})[c['i']] = bound
        for dtxt, cs in dsts.items():
            cap = ctx.capacity(fn, call_args(cs[0])[0])
            lens = {c['i']: ctx.maxlen(fn, call_args(c)[1]) for c in cs}
            kind = {c['i']: callee(c) for c in cs}
            other = writers.get(dtxt, {})
            # forward dataflow: L = worst-case strlen(dst) at block entry; None = unknown
            first = strip(call_args(cs[0])[0], casts=True)
            init = None if (first['k'] == 'DeclRefExpr' and first.get('dk') == 'param') or first['k'] != 'DeclRefExpr' else None
            inn = {fn.entry: init}
            at_call = {}
            work = [fn.entry]
            visits = {}
            UNSET = object()
            state = {b: UNSET for b in fn.blocks}
            state[fn.entry] = init
            while work:
                b = work.pop()
                visits[b] = visits.get(b, 0) + 1
                L = state[b]
                for e in fn.blocks[b]['e']:
                    if e in lens:
                        ln = lens[e]
                        if kind[e] == 'strcpy':
                            at_call[e] = _mx(at_call.get(e, UNSET), ln, UNSET)
                            L = ln
                        else:
                            tot = None if (L is None or ln is None) else min(L + ln, INF)
                            at_call[e] = _mx(at_call.get(e, UNSET), tot, UNSET)
                            L = tot
                    elif e in other:
                        L = other[e]
                if visits[b] > 6 and L is not None:
                    L = INF
                for s_ in fn.succs(b):
                    old = state[s_]
                    new = L if old is UNSET else (None if (old is None or L is None) else max(old, L))
                    if old is UNSET or new != old:
                        state[s_] = new
                        work.append(s_)
            k = 0
            for c in cs:
                k += 1
                q = callee(c)
                construct = '%s(%s)#%d' % (q, dtxt[:30], k)
                need = at_call.get(c['i'], UNSET)
                if need is UNSET:
                    continue        # unreachable
                src = strip(call_args(c)[1], casts=True)
                if cap is not None and q == 'strcpy' and src['k'] == 'StringLiteral' and len(src.get('s') or '') >= cap:
                    obs.append(Ob('R-STR', fn.file, c['l'], fn.q, construct, VIOLATED,
                                  '`%s`: the %d characters of the literal plus the terminator do not fit the %d-byte buffer' % (
                                      show(c)[:60], len(src.get('s') or ''), cap)))
                elif cap is not None and need is not None and need < cap:
                    obs.append(Ob('R-STR', fn.file, c['l'], fn.q, construct, DISCHARGED, '',
                                  '%d characters at most into %d bytes' % (need, cap), True))
                else:
                    why = table.get((fn.file, fn.q, construct.split('#')[0]))
                    obs.append(Ob('R-STR', fn.file, c['l'], fn.q, construct, OBSERVATION,
                                  'capacity %s, worst-case length %s: not decided%s' % (
                                      cap, 'unbounded (loop)' if need is not None and need >= INF else need, '; ' + why if why else '')))
    return RuleResult('R-STR', obs, floor, {})


def _mx(old, new, UNSET):
    if old is UNSET:
        return new
    if old is None or new is None:
        return None
    return max(old, new)


# ------------------------------------------------------------------------------------------ STR-LOOP
import re as _re


def _fmt_len(fn, fa, call, fmt, args):
    """(min, max) number of characters snprintf/sprintf produces for fmt with the given argument expressions
    (max None = unknown)."""
    lo = hi = 0
    ai = 0
    i = 0
    while i < len(fmt):
        ch = fmt[i]
        if ch != '%':
            lo += 1
            hi = None if hi is None else hi + 1
            i += 1
            continue
        m = _re.match(r'%([-+ 0#]*)(\d*)(?:\.(\d+))?(hh|h|ll|l|z)?([diuxXcs%])', fmt[i:])
        if not m:
            return (lo, None)
        i += len(m.group(0))
        conv = m.group(5)
        if conv == '%':
            lo += 1
            hi = None if hi is None else hi + 1
            continue
        width = int(m.group(2)) if m.group(2) else 0
        a = args[ai] if ai < len(args) else None
        ai += 1
        if conv == 'c':
            l1 = h1 = 1
        elif conv == 's':
            l1, h1 = 0, None
        else:
            iv = fa.eval_at(a, call) if a is not None else (None, None)
            if iv[0] is None or iv[1] is None:
                l1, h1 = 1, None
            else:
                def digits(v):
                    if conv in 'xX':
                        return max(1, len('%x' % (v & 0xffffffff if v < 0 else v)))
                    return len('%d' % v)
                cands = [digits(iv[0]), digits(iv[1])]
                if iv[0] <= 0 <= iv[1]:
                    cands.append(1)
                l1, h1 = min(cands), max(cands)
                if conv in 'xX' and iv[0] < 0:
                    h1 = 8
        l1 = max(l1, width)
        h1 = None if h1 is None else max(h1, width)
        lo += l1
        hi = None if (hi is None or h1 is None) else hi + h1
    return (lo, hi)


def str_loops(prog, scope, an, floor=10):
    """STR-LOOP: a loop that appends one formatted piece per iteration to a local buffer (`bytes[0] = 0; for (n = 0; n <
    count; n++) { snprintf(temp, ..., "%02x ", ...); strcat(bytes, temp); }`) stays inside the buffer: initial length +
    iterations x piece length < capacity.  Lengths of the pieces come from the format string and the value ranges of
    its arguments, the iteration count from the interval of the loop bound (e.g. the return range of the decoder).
    Proven when the maximum fits; a violation when already the minimum does not fit; otherwise not decided."""
    obs = []
    for fn in sorted(prog.functions(scope), key=lambda f: (f.file, f.line)):
        if not fn.blocks:
            continue
        loops = natural_loops(fn)
        if not loops:
            continue
        fa = None
        k = 0
        for h, body in sorted(loops.items()):
            cats = [c for c in fn.calls() if callee(c) == 'strcat' and (fn.where.get(c['i']) or (None,))[0] in body]
            # innermost loop only
            if not cats or any(h2 != h and body2 < body and (fn.where.get(cats[0]['i']) or (None,))[0] in body2 for h2, body2 in loops.items()):
                continue
            if len(cats) != 1:
                continue
            c = cats[0]
            dst, src = [strip(a, casts=True) for a in call_args(c)[:2]]
            cap = _arr_size(fn.type(dst) or '') if dst['k'] == 'DeclRefExpr' else None
            if cap is None or src['k'] != 'DeclRefExpr':
                continue
            # the piece: snprintf(src, size, "fmt", ...) in the loop body
            sn = [x for x in fn.calls() if callee(x) in ('snprintf', 'sprintf') and (fn.where.get(x['i']) or (None,))[0] in body and
                  strip(call_args(x)[0], casts=True).get('d') == src.get('d')]
            if len(sn) != 1:
                continue
            sa = call_args(sn[0])
            fi_ = 2 if callee(sn[0]) == 'snprintf' else 1
            fmt = strip(sa[fi_], casts=True) if len(sa) > fi_ else None
            if fmt is None or fmt['k'] != 'StringLiteral':
                continue
            # canonical counter
            hb = fn.blocks[h]
            cn = fn.nodes.get(hb.get('cond')) if 'cond' in hb else None
            if cn is None:
                continue
            own = strip(cn)
            if own['k'] != 'BinaryOperator' or own.get('op') not in ('<', '<='):
                continue
            cv = strip(kids(own)[0], casts=True)
            if cv['k'] != 'DeclRefExpr':
                continue
            step = None
            for x in fn.nodes.values():
                w = fn.where.get(x['i'])
                if w is None or w[0] not in body:
                    continue
                if x['k'] == 'UnaryOperator' and x.get('op') == '++' and strip(kids(x)[0], casts=True).get('d') == cv.get('d'):
                    step = 1
                elif x['k'] == 'CompoundAssignOperator' and x.get('op') == '+=' and strip(kids(x)[0], casts=True).get('d') == cv.get('d'):
                    step = const(kids(x)[1])
            if not step or step < 1:
                continue
            if fa is None:
                fa = an._fa_cache(fn)
            if h not in fa.reached:
                continue
            k += 1
            e_iv = fa.eval_at(kids(own)[1], own)
            extra = 1 if own['op'] == '<=' else 0
            pl, ph = _fmt_len(fn, fa, sn[0], fmt.get('s') or '', sa[fi_ + 1:])
            # initial length: `dst[0] = 0` or strcpy(dst, "literal") in a block that dominates the header
            from nk.cfg import dominators
            dom = dominators(fn)
            L0 = None
            for x in fn.nodes.values():
                w = fn.where.get(x['i'])
                if w is None or w[0] not in dom[h] or w[0] in body:
                    continue
                if x['k'] == 'BinaryOperator' and x.get('op') == '=':
                    l_ = strip(kids(x)[0])
                    if l_['k'] == 'ArraySubscriptExpr' and strip(kids(l_)[0], casts=True).get('d') == dst.get('d') and \
                            const(kids(l_)[1]) == 0 and const(kids(x)[1]) == 0:
                        L0 = 0
                elif callee(x) == 'strcpy' and strip(call_args(x)[0], casts=True).get('d') == dst.get('d'):
                    s_ = strip(call_args(x)[1], casts=True)
                    if s_['k'] == 'StringLiteral':
                        L0 = len(s_.get('s') or '')
            construct = 'append-loop:%s#%d' % (dst.get('n'), k)
            if L0 is None or e_iv[0] is None or e_iv[1] is None:
                obs.append(Ob('STR-LOOP', fn.file, c['l'], fn.q, construct, OBSERVATION,
                              'initial length %s, loop bound %s: not decided' % (L0, e_iv)))
                continue
            it_lo = max(0, -(-(max(e_iv[0], 0) + extra) // step))
            it_hi = max(0, -(-(max(e_iv[1], 0) + extra) // step))
            tmin = L0 + it_lo * pl
            tmax = None if ph is None else L0 + it_hi * ph
            if tmax is not None and tmax < cap:
                obs.append(Ob('STR-LOOP', fn.file, c['l'], fn.q, construct, DISCHARGED, '',
                              'at most %d iterations x %d characters + %d < %d bytes' % (it_hi, ph, L0, cap), True))
            elif tmin >= cap:
                obs.append(Ob('STR-LOOP', fn.file, c['l'], fn.q, construct, VIOLATED,
                              '`%s` runs at least %d times (loop bound %s) and appends %d characters each time: %d characters plus the '
                              'terminator are written into the %d-byte `%s`' % (show(c)[:40], it_lo, e_iv, pl, tmin, cap, dst.get('n'))))
            else:
                obs.append(Ob('STR-LOOP', fn.file, c['l'], fn.q, construct, OBSERVATION,
                              'between %d and %s characters into %d bytes (loop bound %s, piece %s..%s): not decided' % (
                                  tmin, tmax, cap, e_iv, pl, ph)))
    return RuleResult('STR-LOOP', obs, floor, {})


def _reach_from(fn, b, body):
    seen = set()
    st = [b]
    while st:
        x = st.pop()
        if x in seen or x is None or x not in body:
            continue
        seen.add(x)
        st.extend(fn.succs(x))
    return seen


def str_grow(prog, scope, floor=3):
    """STR-GROW: a strcat() in a loop that runs once per input token (its header is not a counted `i < n` test) appends an
    unbounded number of pieces to a fixed buffer unless the loop itself tests the length first: some condition inside the
    loop that dominates the strcat reads strlen(<the same destination>) and has an edge that leaves the loop or returns.
    (mips: every `.suffix` token after a mnemonic was appended to the TOKENLEN buffers instr/instr_case.)"""
    from nk.cfg import dominators
    obs = []
    for fn in sorted(prog.functions(scope), key=lambda f: (f.file, f.line)):
        if not fn.blocks:
            continue
        loops = natural_loops(fn)
        if not loops:
            continue
        dom = None
        k = 0
        for c in sorted(fn.calls(), key=lambda x: x['i']):
            if callee(c) != 'strcat':
                continue
            w = fn.where.get(c['i'])
            if w is None:
                continue
            # innermost loop containing the call
            inside = [(h, body) for h, body in loops.items() if w[0] in body]
            if not inside:
                continue
            h, body = min(inside, key=lambda hb: len(hb[1]))
            hb = fn.blocks[h]
            cn = fn.nodes.get(hb.get('cond')) if 'cond' in hb else None
            counted = False
            if cn is not None:
                own = strip(cn)
                if own['k'] == 'BinaryOperator' and own.get('op') in ('<', '<=', '>', '>=', '!='):
                    counted = True
            if counted:
                continue
            # the source must be able to be non-empty: a literal "" never grows
            src = strip(call_args(c)[1], casts=True)
            if src['k'] == 'StringLiteral' and not (src.get('s') or ''):
                continue
            k += 1
            dst = show(strip(call_args(c)[0], casts=True))
            if dom is None:
                dom = dominators(fn)
            guard = None
            for b in dom[w[0]]:
                if b not in body:
                    continue
                c2 = fn.nodes.get(fn.blocks[b].get('cond')) if 'cond' in fn.blocks[b] else None
                if c2 is None:
                    continue
                txt = show(c2)
                if 'strlen(%s)' % dst in txt.replace('strlen(const char *)', 'strlen') or ('strlen' in txt and dst in txt):
                    guard = c2
                # `strcmp(dst, "literal") == 0`: the destination is that literal when the append runs, and is not afterwards
                if 'strcmp' in txt and dst in txt and '"' in txt and fn.blocks[b]['s'] and w[0] in _reach_from(fn, fn.blocks[b]['s'][0], body):
                    guard = c2
            obs.append(Ob('STR-GROW', fn.file, c['l'], fn.q, 'strcat#%d:%s' % (k, dst), DISCHARGED if guard is not None else VIOLATED,
                          '' if guard is not None else '`%s` runs once per pass of a loop that is driven by the input (its header is no counted test) '
                          'and nothing in the loop compares strlen(%s) with the buffer size first: enough tokens overrun the buffer' % (
                              show(c)[:50], dst),
                          'the loop tests strlen(%s) before appending (line %d)' % (dst, guard['l']) if guard is not None else ''))
    if len(obs) < floor:
        raise AnalysisBroken('STR-GROW: only %d strcat calls in input-driven loops' % len(obs))
    return RuleResult('STR-GROW', obs, floor, {})

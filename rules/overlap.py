"""FIELD-OVERLAP (C01/C06): the operand fields OR-ed into one emitted word do not overlap.

For every emission `add_bin8/16/32(asm_context, T1 | T2 | ... , ...)` in asm/*.cpp (locals that hold the word are followed
through `opcode = ...; opcode |= ...`), each OR-ed term gets a *may-be-one* bit mask: constants exactly, `x & M` at most M,
`x << s` shifted, `x >> s` shifted, `a | b` united, and a leaf value the mask of all bits up to the highest bit its interval
(interval analysis at the emission, pass 2) can reach; a leaf that may be negative or is unbounded has all bits.  Two
operand-derived terms whose masks intersect mean that some accepted operand value of one field changes the bits of the
other: two different operand tuples assemble to the same word, or a register number leaks into the immediate
(avr8 `adiw`: `pair << 4` with pair in 0..6 reaches bit 6 of the K field).  Terms that are not bounded are not decided
(that is R-RNG's business)."""
from nk.facts import kids, strip, const, callee, call_args, show, walk
from nk.report import Ob, RuleResult, DISCHARGED, VIOLATED, OBSERVATION
from nk.build import AnalysisBroken
from nk.interval import Analyzer

EMITW = {'add_bin8': 8, 'add_bin16': 16, 'add_bin32': 32}
ALL = None


def _bits_of_interval(iv, width):
    if iv is None or iv[0] is None or iv[1] is None or iv[0] < 0:
        return ALL
    hi = iv[1]
    if hi >= (1 << width):
        return ALL
    return (1 << hi.bit_length()) - 1


INEXACT = set()
UNIT = [32]


def _maybits(fa, n, at, width, depth=0):
    """may-be-one mask of expression n (None = unknown/all).  Node ids of terms whose mask comes from the interval of a
    *variable built elsewhere* (its bit shape is unknown: [0, 0x60] may be 0x20|0x40 only) are added to INEXACT."""
    n = strip(n, casts=True)
    v = const(n)
    if v is not None:
        return v & ((1 << width) - 1) if v >= 0 else ALL
    k = n['k']
    if k == 'BinaryOperator':
        op = n.get('op')
        a, b = kids(n)
        if op == '|' or op == '^' or op == '+':
            ma, mb = _maybits(fa, a, at, width, depth + 1), _maybits(fa, b, at, width, depth + 1)
            if ma is ALL or mb is ALL:
                return ALL
            if op == '+' and (ma & mb):
                return ALL
            return ma | mb
        if op == '&':
            ma, mb = _maybits(fa, a, at, width, depth + 1), _maybits(fa, b, at, width, depth + 1)
            if ma is ALL and mb is ALL:
                return ALL
            if ma is ALL:
                return mb
            if mb is ALL:
                return ma
            return ma & mb
        if op == '<<':
            s = const(b)
            ma = _maybits(fa, a, at, width, depth + 1)
            if s is None or ma is ALL:
                return ALL
            return (ma << s) & ((1 << width) - 1)
        if op == '>>':
            s = const(b)
            ma = _maybits(fa, a, at, width, depth + 1)
            if s is None or ma is ALL:
                iv = fa.eval_at(n, at)
                return _bits_of_interval(iv, width)
            return ma >> s
    if k == 'ConditionalOperator':
        ma, mb = _maybits(fa, kids(n)[1], at, width, depth + 1), _maybits(fa, kids(n)[2], at, width, depth + 1)
        if ma is ALL or mb is ALL:
            return ALL
        return ma | mb
    if k == 'DeclRefExpr' and depth < 6:
        # a local: follow the assignment that reaches this point inside the same basic block (exact bit shape of the
        # value just built: `rd = ((reg - 24) >> 1) << 4;`)
        fn = fa.fn
        w = fn.where.get(at['i'])
        if w is not None:
            bb = fn.blocks[w[0]]
            for e in reversed(bb['e'][:w[1]]):
                x = fn.nodes.get(e)
                if x is None:
                    continue
                if x['k'] == 'BinaryOperator' and x.get('op') == '=':
                    t_ = strip(kids(x)[0])
                    if t_['k'] == 'DeclRefExpr' and t_.get('d') == n.get('d'):
                        return _maybits(fa, kids(x)[1], x, width, depth + 1)
                if x['k'] == 'DeclStmt':
                    for d_, i_ in zip([y for y in x.get('decls', ()) if y.get('init')], kids(x)):
                        if d_['d'] == n.get('d'):
                            return _maybits(fa, i_, x, width, depth + 1)
                if x['k'] in ('CompoundAssignOperator', 'UnaryOperator') and strip(kids(x)[0]).get('d') == n.get('d') and \
                        (x['k'] == 'CompoundAssignOperator' or x.get('op') in ('++', '--')):
                    break
    iv = fa.eval_at(n, at)
    if k == 'DeclRefExpr' and n.get('dk') == 'local' and not _plain_local(fa.fn, n.get('d')):
        INEXACT.add(id(fa))
        fa.__dict__.setdefault('_inexact_marks', set()).add(at['i'])
    # a bound that is only the range of the C type (uint8_t reg) says nothing about the values stored
    from nk.interval import type_range, TOP
    tr = type_range(fa.fn.type(n))
    if tr != TOP and iv == tr:
        return ALL
    m = _bits_of_interval(iv, width)
    # a value that can fill (nearly) the whole unit is not a field
    if m is not ALL and m >= (1 << (UNIT[0] - 1)) - 1:
        return ALL
    return m


_PLAIN = {}


def _plain_local(fn, d):
    """A local whose every definition is a constant or +/- arithmetic over operand atoms: every integer of its interval is
    a possible value, so the interval's bit mask is exact (unlike a word assembled elsewhere with shifts and ors)."""
    key = (fn.key, d)
    if key in _PLAIN:
        return _PLAIN[key]
    ok = True
    ndef = 0
    for n in fn.nodes.values():
        rhs = None
        if n['k'] == 'BinaryOperator' and n.get('op') == '=':
            t_ = strip(kids(n)[0])
            if t_['k'] == 'DeclRefExpr' and t_.get('d') == d:
                rhs = kids(n)[1]
        elif n['k'] == 'CompoundAssignOperator' and strip(kids(n)[0]).get('d') == d:
            ok = ok and n.get('op') in ('+=', '-=')
            ndef += 1
        elif n['k'] == 'UnaryOperator' and n.get('op') in ('++', '--', '&') and strip(kids(n)[0]).get('d') == d:
            ok = ok and n.get('op') != '&'
            ndef += 1
        elif n['k'] == 'DeclStmt':
            for d_, i_ in zip([y for y in n.get('decls', ()) if y.get('init')], kids(n)):
                if d_['d'] == d:
                    rhs = i_
        if rhs is not None:
            ndef += 1
            for x in walk(rhs):
                if x['k'] in ('CallExpr', 'CXXMemberCallExpr') or \
                        (x['k'] == 'BinaryOperator' and x.get('op') in ('<<', '|', '&', '^', '*', '>>')):
                    ok = False
    _PLAIN[key] = ok and ndef > 0
    return _PLAIN[key]


def _terms(n):
    n = strip(n, casts=True)
    if n['k'] == 'BinaryOperator' and n.get('op') == '|':
        return _terms(kids(n)[0]) + _terms(kids(n)[1])
    return [n]


def field_overlap(prog, floor=400):
    an = Analyzer(prog)
    an.field_override = {('AsmContext', 'pass'): (2, 2)}
    obs = []
    nemit = 0
    for fn in sorted(prog.fns.values(), key=lambda f: (f.file, f.line)):
        if not fn.blocks or not fn.file.startswith('asm/'):
            continue
        fa = None
        k = 0
        for c in sorted(fn.calls(), key=lambda x: x['i']):
            w = EMITW.get((callee(c) or '').split('(')[0])
            if not w or len(call_args(c)) < 2:
                continue
            if fn.where.get(c['i']) is None:
                continue
            word = call_args(c)[1]
            terms = _terms(word)
            wsx = strip(word, casts=True)
            if len(terms) < 2 and wsx['k'] == 'DeclRefExpr' and wsx.get('dk') == 'local':
                # the word was built in a local just before: `opcode = table[n].opcode | a << 10 | b << 13; add_bin16(opcode)`
                bb = fn.blocks[fn.where[c['i']][0]]
                acc = []
                for e in reversed(bb['e'][:fn.where[c['i']][1]]):
                    x = fn.nodes.get(e)
                    if x is None:
                        continue
                    if x['k'] == 'CompoundAssignOperator' and x.get('op') == '|=' and strip(kids(x)[0]).get('d') == wsx.get('d'):
                        acc = _terms(kids(x)[1]) + acc
                    elif x['k'] == 'BinaryOperator' and x.get('op') == '=' and strip(kids(x)[0]).get('d') == wsx.get('d'):
                        acc = _terms(kids(x)[1]) + acc
                        terms = acc
                        break
                    elif x['k'] in ('CompoundAssignOperator', 'UnaryOperator') and strip(kids(x)[0]).get('d') == wsx.get('d'):
                        break
            if len(terms) < 2:
                continue
            if fa is None:
                fa = an._fa_cache(fn)
            if fn.where[c['i']][0] not in fa.reached:
                continue
            nemit += 1
            k += 1
            ms = []
            for t in terms:
                if const(t) is not None:
                    continue
                # table opcode / constant-like terms are not operand fields
                txt = show(strip(t, casts=True))
                # the opcode base (table column, or a local holding it) is not an operand field
                if any((x['k'] == 'MemberExpr' and x.get('n') == 'opcode') or
                       (x['k'] == 'DeclRefExpr' and 'opcode' in (x.get('n') or '').lower()) for x in walk(t)):
                    continue
                marks = fa.__dict__.setdefault('_inexact_marks', set())
                marks.discard(c['i'])
                before = set(marks)
                UNIT[0] = w
                m_ = _maybits(fa, t, c, 64 if w < 32 else w)
                inexact = bool(marks - before) or c['i'] in marks
                marks.discard(c['i'])
                ms.append((t, m_, txt, inexact))
            bad = None
            for i in range(len(ms)):
                for j in range(i + 1, len(ms)):
                    (t1, m1, x1, e1), (t2, m2, x2, e2) = ms[i], ms[j]
                    if m1 is ALL or m2 is ALL or e1 or e2:
                        continue
                    if m1 & m2:
                        bad = (x1, m1, x2, m2)
            construct = 'emit#%d' % k
            unit = (1 << w) - 1
            wide = [(x_, m_) for (_, m_, x_, e_) in ms if m_ is not ALL and not e_ and (m_ & ~unit)]
            if wide:
                x_, m_ = wide[0]
                obs.append(Ob('EMIT-FIT', fn.file, c['l'], fn.q, construct, VIOLATED,
                              'in `%s` the field `%s` can set bits %#x, beyond the %d-bit unit that %s stores: an accepted operand '
                              'value loses its high bits (two different operands give the same word)' % (
                                  show(c)[:60], x_[:40], m_, w, (callee(c) or '').split('(')[0])))
                continue
            if bad:
                x1, m1, x2, m2 = bad
                obs.append(Ob('FIELD-OVERLAP', fn.file, c['l'], fn.q, construct, VIOLATED,
                              'in `%s` the field `%s` can set bits %#x and the field `%s` bits %#x: they share bits %#x, so an '
                              'accepted value of one operand changes the other operand\'s field (two different instructions assemble '
                              'to the same word)' % (show(c)[:70], x1[:40], m1, x2[:40], m2, m1 & m2)))
            elif any(m is not ALL for _, m, _, _ in ms):
                obs.append(Ob('FIELD-OVERLAP', fn.file, c['l'], fn.q, construct, DISCHARGED, '',
                              'bounded fields %s are pairwise disjoint' % ', '.join('%#x' % m for _, m, _, _ in ms if m is not ALL), True))
    if nemit < floor:
        raise AnalysisBroken('FIELD-OVERLAP: only %d multi-term emissions in asm/' % nemit)
    return RuleResult('FIELD-OVERLAP', obs, floor // 2, {'emissions': nemit})


GUARDED_REG_FILES = {
    # inferred from the code (every one of its 16-bit forms tests the register numbers it encodes) and confirmed by
    # reading: the Epiphany short forms have 3-bit register fields, a register above r7 must select the 32-bit row
    'asm/epiphany.cpp': 'a 16-bit Epiphany form holds registers r0..r7 only; a higher register has to fall through to the 32-bit row',
}


def guard_use(prog):
    """GUARD-USE: in the assemblers listed in GUARDED_REG_FILES every operand register that is inserted into a 16-bit word
    (`operands[k].reg` in the argument of add_bin16, directly or through the local the word is built in) is tested in a
    condition that dominates the emission (a comparison, or an argument of a predicate helper called in the condition).
    Testing operands[0] while encoding operands[1] lets a register above the field width through: add_bin16 cuts the
    shifted value and two different registers give the same word."""
    from nk.cfg import dominators
    obs = []
    for fn in sorted(prog.fns.values(), key=lambda f: (f.file, f.line)):
        if not fn.blocks or fn.file not in GUARDED_REG_FILES:
            continue
        dom = None
        k = 0
        for c in sorted(fn.calls(), key=lambda x: x['i']):
            if (callee(c) or '').split('(')[0] != 'add_bin16' or len(call_args(c)) < 2 or fn.where.get(c['i']) is None:
                continue
            word = call_args(c)[1]
            nodes = list(walk(word))
            ws = strip(word, casts=True)
            if ws['k'] == 'DeclRefExpr':
                bb = fn.blocks[fn.where[c['i']][0]]
                for e in reversed(bb['e'][:fn.where[c['i']][1]]):
                    x = fn.nodes.get(e)
                    if x is not None and x['k'] in ('BinaryOperator', 'CompoundAssignOperator') and x.get('op') in ('=', '|=') and \
                            strip(kids(x)[0]).get('d') == ws.get('d'):
                        nodes += list(walk(kids(x)[1]))
                        if x['op'] == '=':
                            break
            regs = sorted({show(x) for x in nodes if x['k'] == 'MemberExpr' and x.get('n') == 'reg' and 'operands[' in show(x)})
            if not regs:
                continue
            if dom is None:
                dom = dominators(fn)
            guarded = set()
            for d in dom[fn.where[c['i']][0]]:
                cn = fn.nodes.get(fn.blocks[d].get('cond')) if 'cond' in fn.blocks[d] else None
                if cn is None:
                    continue
                for x in walk(cn):
                    if x['k'] == 'MemberExpr' and x.get('n') == 'reg':
                        guarded.add(show(x))
            for r in regs:
                k += 1
                ok = r in guarded
                obs.append(Ob('GUARD-USE', fn.file, c['l'], fn.q, 'reg#%d:%s' % (k, r), DISCHARGED if ok else VIOLATED,
                              '' if ok else '`%s` is inserted into the 16-bit word of `%s` but no dominating condition tests it (tested: %s): '
                              '%s' % (r, show(c)[:50], ', '.join(sorted(guarded)) or 'none', GUARDED_REG_FILES[fn.file]),
                              'tested in a dominating condition', False))
    if len(obs) < 2:
        raise AnalysisBroken('GUARD-USE: only %d register insertions into 16-bit words in %s' % (len(obs), sorted(GUARDED_REG_FILES)))
    return RuleResult('GUARD-USE', obs, 2, {})

"""Claimed properties (drives MANIFEST.json through tools/mkmanifest.py)."""

NOTE = ('static analysis of the current source; trusted base: clang 14 front end (AST/CFG/constant evaluation), '
        'the rule implementations in /verif/rules, the frozen idiom tables rules/*.json; decides the structural '
        'clauses named in the evidence explanation, not the behaviour as a whole')

CLAIMED = {
    'C01': {'technique': 'table-vs-architecture-manual oracle + symbolic bit-provenance of encoder/decoder (static)',
            'level': 'exhaustive over the enumerated rule instances (T-ORACLE rows/formats for RV32I and MSP430 core, the opcode maps of the '
                     'NMOS 6502 (151 opcodes), the MCS-51 (255 opcodes), the Intel 4004 (45 rows) and the RCA 1802 (79 rows), T-LEN per CPU, T-CPU rows); narrow: encodings of the six oracle ISAs '
                     'and length agreement only',
            'note': NOTE},
    'C02': {'technique': 'CFG must-pass-through between the two passes, store-set comparison (written while assembling vs reset by init())',
            'level': 'exhaustive over main()\'s paths between the passes, the three add_bin emitters, every field stored while assembling; '
                     'partial: protocol and state, not per-assembler size decisions',
            'note': NOTE},
    'C03': {'technique': 'symbolic byte-lane provenance, exhaustive evaluation of extracted checksum expressions, CFG must-pass queries, dispatch tables',
            'level': 'exhaustive over every (de)serialiser site, writer loop, dispatch entry and page test in the current source; '
                     'partial: lanes/lengths/checksums/dispatch/no-drop, not full format conformance',
            'note': NOTE},
    'C04': {'technique': 'table extraction vs documented grammar, exhaustive evaluation of digit-step expressions, interval analysis of divisors',
            'level': 'exhaustive over the 10 operators, 10 Var methods, 9 digit branches, every division and every re-serialisation site; '
                     'partial: operator table / stack capacities / literal conversion / division guard, not the evaluator algorithm',
            'note': NOTE},
    'C05': {'technique': 'interval analysis of accepted ranges, byte-lane provenance, directive dispatch table, unit-scaling expression shape',
            'level': 'exhaustive over the data directive handlers and the unit-conversion sites; partial (no string escapes / binfile / data_fill)',
            'note': NOTE},
    'C06': {'technique': 'flow-sensitive taint from eval_expression to mask/narrowing sites, field reconstruction from the masks, interval analysis '
                         '(abstract interpretation of pass 2 with range-predicate refinement) of the masked value against the field width',
            'level': 'exhaustive over every constant mask and 8/16-bit emit of a symbol-derived value in asm/*.cpp; sites whose check is not an '
                     'interval (same-page tests, table limits, path-dependent checks) are observations; partial: unmasked insertions, '
                     'register parsers and encoding injectivity are not decided',
            'note': NOTE},
    'C08': {'technique': 'interval analysis (abstract interpretation) of decoder return values and range-loop increments',
            'level': 'exhaustive over every return of the 59 single-instruction decoders and every range loop; lower '
                     'bounds the interval domain cannot establish are listed as observations (not decided)',
            'note': NOTE},
    'C13': {'technique': 'who-may-call over the call graph, global-store scan, effect (read-only) analysis of formatters, control-dependence of option branches',
            'level': 'exhaustive over all functions reachable from the assembler entry points, all 59 formatter roots, all option branches',
            'note': NOTE},
    'C09': {'technique': 'sibling-constant agreement (macro marker), CFG must-restore query, loop-shape check of .repeat',
            'level': 'exhaustive over the marker sites, include_parse paths, the repeat copy loop; narrow (no textual equivalence)',
            'note': NOTE},
    'C10': {'technique': 'operator-table extraction, exhaustive evaluation of comparison cases, decision-table extraction, error-propagation dataflow',
            'level': 'exhaustive over the 7 condition operators, the 2x2 ifdef table, opener sets and every error result of the conditional machinery',
            'note': NOTE},
    'C11': {'technique': 'pool-walker protocol check, lookup-order check, definition-name read mode, field width agreement',
            'level': 'exhaustive over the 14 pool walkers, Symbols::find, the 4 definition sites; partial',
            'note': NOTE},
    'C12': {'technique': 'CFG path search after every diagnostic, discarded-result dataflow, abstract interpretation of main()',
            'level': 'exhaustive over every diagnostic call site, every call to an error-returning function and every '
                     'path of main() reachable from naken_asm; path-insensitive to infeasible branches except the modelled idioms',
            'note': NOTE},
    'C15': {'technique': 'interval analysis (abstract interpretation with whole-program field invariants) of every fixed-array subscript and divisor '
                         'in simulate/, call-graph cycle + depth-guard search, who-may-touch scan of Memory internals',
            'level': 'exhaustive over the subscripts, divisions, recursion cycles and Memory accesses of all simulators; subscripts the '
                     'domain cannot bound are listed as observations with the invariant read from the code; partial: memory safety '
                     'and termination shape, not PC agreement or determinism of values',
            'note': NOTE},
    'C16': {'technique': 'interval analysis of fixed-array subscripts and divisors, (buffer,length) protocol check, end-of-input exit search on reader loops, '
                         'call-graph cycle + depth-guard search, exact small-state exploration of the expression stacks, table sentinel check',
            'level': 'exhaustive over everything reachable from naken_asm\'s main(): subscripts, (buffer,length) calls, constant-true reader loops, '
                     'recursion cycles, divisions, table walks; partial: unbounded strcpy/strcat chains and heap exhaustion are not decided',
            'note': NOTE},
    'C17': {'technique': 'the C16 rules over the functions reachable from naken_util\'s main(), plus dispatch-table agreement of commands and file types',
            'level': 'exhaustive over subscripts, reader loops, recursion cycles, divisions and dispatch entries reachable from naken_util; '
                     'partial: file-supplied offsets used as pointer offsets (taint) are not decided',
            'note': NOTE},
    'C18': {'technique': 'call-order / argument-identity check of the listing hook, effect analysis of formatters, data-dump selection constant',
            'level': 'exhaustive over assemble()\'s listing hook, the dump loop and the 59 formatter roots; narrow: not the formatters\' text',
            'note': NOTE},
    'C19': {'technique': 'byte-lane provenance of Memory accessors, unit-scaling expression shape, exhaustive digit-step evaluation, null-path search',
            'level': 'exhaustive over the six memory commands and the number/address parsers; narrow',
            'note': NOTE},
    'C20': {'technique': 'parameter-name transposition check over the link chain, call-order and argument-flow check, bit-provenance of the jal patch',
            'level': 'exhaustive over the functions and calls of the link chain; partial (no object-file placement semantics)',
            'note': NOTE},
}

# properties not (yet) claimed, with the reason
NOT_APPLICABLE = {
    'C07': 'a relation between the values computed by two independently written functions over all machine words; '
           'no shape condition is necessary for it (a word the assembler cannot reproduce makes the property vacuous '
           'for that word, not false), so a static rule would prove nothing or be a brittle proxy',
    'C14': 'every clause is about computed register/flag/memory values for all states; static analysis has no oracle '
           'for instruction semantics short of symbolic execution (a different family); the shape-level facts '
           '(index bounds, dispatch defaults) are decided under C15',
}
PENDING = 'check not built yet in this session (see DESIGN.md §9); not claimed until its rules are silent-or-listed on the unchanged tree'

.f100_l
.org 0x100
start:
  icz 0x50, long 0x1000
after_icz:
  nop

"""CFG queries over Fn objects (dominators, path searches)."""
from .facts import kids, strip


def dominators(fn, post=False, ignore_abort=False):
    """Immediate-dominator-free dominator sets (small CFGs; iterative).  With post and ignore_abort, edges into
    blocks that cannot reach the exit (they end in exit()/abort()) are left out, so that `if (x) { ...; exit(1); }`
    does not make the rest of the function control-dependent on x."""
    blocks = list(fn.blocks)
    if post:
        start = fn.exit
        pred = {b: fn.succs(b) for b in blocks}
        if ignore_abort:
            aborts = set()
            for b in blocks:
                for e in fn.blocks[b]['e']:
                    n = fn.nodes.get(e)
                    if n is not None and n['k'] == 'CallExpr' and n.get('callee') in ('exit', 'abort', '_exit', '__assert_fail'):
                        aborts.add(b)
            live = {fn.exit}
            rp = fn.preds()
            st = [fn.exit]
            while st:
                x = st.pop()
                for p_ in rp.get(x, ()):
                    if p_ not in live and p_ not in aborts:
                        live.add(p_)
                        st.append(p_)
            pred = {b: [x for x in pred[b] if x in live] for b in blocks}
    else:
        start = fn.entry
        pred = fn.preds()
    allb = set(blocks)
    # blocks that cannot be reached from the start (clang keeps e.g. the block after an endless loop) dominate nothing and
    # must not take part: as a predecessor such a block would empty the intersection of everything behind it
    succ_of = {}
    for b in blocks:
        for p in pred[b]:
            succ_of.setdefault(p, []).append(b)
    live = set()
    st = [start]
    while st:
        x = st.pop()
        if x in live:
            continue
        live.add(x)
        st.extend(succ_of.get(x, ()))
    dom = {b: set(allb) for b in blocks}
    dom[start] = {start}
    changed = True
    while changed:
        changed = False
        for b in blocks:
            if b == start:
                continue
            if b not in live:
                if dom[b] != {b}:
                    dom[b] = {b}
                    changed = True
                continue
            ps = [dom[p] for p in pred[b] if p in live]
            new = set.intersection(*ps) if ps else set()
            new = new | {b}
            if new != dom[b]:
                dom[b] = new
                changed = True
    return dom


def elements_after(fn, bid, idx):
    """Node objects of block bid from element index idx on."""
    b = fn.blocks[bid]
    for e in b['e'][idx:]:
        n = fn.nodes.get(e)
        if n is not None:
            yield n


def forward_paths(fn, start_block, start_idx, classify, possible=False):
    """Explore all CFG paths from (start_block, start_idx).

    classify(node) is called for every CFG element in path order and returns
      None  — keep going,
      'stop' — this path is fine, do not continue it,
      any other value — an offending end; collected.
    Falling off the exit block calls classify(None) with the same meaning.
    Block-level memoisation (a block entered at index 0 is explored once) keeps this linear.
    Returns the list of (value, node) offending ends."""
    bad = []
    seen = set()
    work = [(start_block, start_idx)]
    while work:
        bid, idx = work.pop()
        if idx == 0:
            if bid in seen:
                continue
            seen.add(bid)
        stopped = False
        for n in elements_after(fn, bid, idx):
            r = classify(n)
            if r is None:
                continue
            if r != 'stop':
                bad.append((r, n))
            stopped = True
            break
        if stopped:
            continue
        if bid == fn.exit:
            r = classify(None)
            if r is not None and r != 'stop':
                bad.append((r, None))
            continue
        b = fn.blocks[bid]
        if b.get('noreturn'):
            continue
        for s in fn.succs(bid, possible):
            work.append((s, 0))
    return bad


def natural_loops(fn):
    """Back edges (t -> h with h dominating t) and their loop bodies."""
    dom = dominators(fn)
    loops = {}
    preds = fn.preds()
    for t in fn.blocks:
        for h in fn.succs(t):
            if h in dom[t]:
                body = loops.setdefault(h, {h})
                st = [t]
                while st:
                    x = st.pop()
                    if x in body:
                        continue
                    body.add(x)
                    st.extend(preds[x])
    return loops

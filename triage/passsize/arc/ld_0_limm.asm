.arc
start:
  ld fwd, [1000]
after:
  nop_s
.set fwd=3

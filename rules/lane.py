"""T-LANE / T-PAIR: byte-lane completeness and order of every multi-byte (de)serialiser.

Sites (enumerated from the source on every run, in the files of the slot table):
  L1  a '+'/'|' expression containing two or more byte lanes ((v >> 8k) & 0xff, or the unmasked top lane) of
      the same value (checksums): the lanes form a contiguous run of multiples of 8 without duplicates;
  L2  a run of consecutive statements emitting single byte lanes of the same value through the same callee
      (putc, memory_write_inc, write8, …): lanes strictly monotonic in steps of 8, contiguous, and when the
      callee takes an address `base + i` the map i -> lane is exactly little-endian (8i) or big-endian;
  L3  a '|'/'+' expression assembling a value from distinct byte sources shifted by multiples of 8 (readers):
      shifts distinct and contiguous from 0, the map offset -> shift little- or big-endian, and the
      accumulator at least as wide as the assembled value.
  Branch polarity: a site under `if (… endian == ENDIAN_LITTLE)` (or the BIG spelling) must have the matching map."""
from nk.facts import kids, strip, const, callee, call_args, show, walk
from nk.bitflow import Sym, type_width
from nk.report import Ob, RuleResult, DISCHARGED, VIOLATED, OBSERVATION
from nk.build import AnalysisBroken

FILES = ('fileio/', 'core/Memory.cpp', 'core/add_bin.cpp', 'core/directives_data.cpp', 'core/imports_get_int.cpp',
         'simulate/Simulate.cpp', 'core/Linker.cpp', 'core/imports_obj.cpp', 'core/imports_ar.cpp')
EXTRA_FUNCS = ('link_function_mips',)
BYTE_READERS = ('Memory::read8', 'getc', 'fgetc', 'AsmContext::memory_read', 'Simulate::ram_read8', 'get_hex',
                'FileIo::get_int8', 'AsmContext::memory_read_m')


def _lane_of(t, src_width=None):
    """Lane (bit offset, multiple of 8) extracted by a term, or None."""
    if t.leaf is None or t.shift > 0 or (-t.shift) % 8:
        return None
    s = -t.shift
    if t.dmask == 0xff:
        return s
    if t.dmask is None and s > 0:
        return s               # unmasked top lane of a signed/unknown-width value
    if t.dmask is not None and s > 0 and t.dmask in (0xff, 0xffff >> s if s < 16 else -1, 0xffffffff >> s, 0xffffff >> s if s < 24 else -1):
        if t.dmask <= 0xff:
            return s
    return None


def _contiguous(lanes):
    ls = sorted(lanes)
    return len(set(ls)) == len(ls) and all(b - a == 8 for a, b in zip(ls, ls[1:]))


def _offset(expr):
    """(base text, constant offset) of an address expression `base + k`."""
    e = strip(expr, casts=True)
    if e['k'] == 'BinaryOperator' and e.get('op') == '+':
        k = const(kids(e)[1])
        if k is not None:
            b, o = _offset(kids(e)[0])
            return b, o + k
        k = const(kids(e)[0])
        if k is not None:
            b, o = _offset(kids(e)[1])
            return b, o + k
    if e['k'] == 'UnaryOperator' and e.get('op') == '++' and e.get('post'):
        return show(kids(e)[0]) + '++', None
    return show(e), 0


def _endian_of_map(pairs):
    """pairs: list of (offset, lane).  'LE' / 'BE' / None."""
    if any(o is None for o, _ in pairs):
        return 'seq'
    w = len(pairs)
    o0 = min(o for o, _ in pairs)
    l0 = min(l for _, l in pairs)
    le = all(l - l0 == 8 * (o - o0) for o, l in pairs)
    be = all(l - l0 == 8 * (w - 1 - (o - o0)) for o, l in pairs)
    if le and be:
        return 'LE' if w == 1 else None
    return 'LE' if le else ('BE' if be else None)


def _branch_endian(fn, node):
    """Endianness demanded by the enclosing `if` condition of a site: 'LE', 'BE' or None."""
    child = node
    for a in fn.ancestors(node):
        if a['k'] == 'IfStmt':
            ks = [k for k in kids(a) if k is not None]
            # children: cond, then, [else] (init/var absent in this code base)
            cond = None
            for b in fn.blocks.values():
                if b.get('term') == a['i']:
                    cond = fn.nodes.get(b.get('cond'))
            if cond is not None:
                txt = show(cond)
                pol = None
                c = strip(cond)
                if c['k'] == 'BinaryOperator' and c.get('op') in ('==', '!='):
                    rhs = strip(kids(c)[1], casts=True)
                    lhs = show(kids(c)[0])
                    name = rhs.get('n', '')
                    if 'endian' in lhs.lower() and name in ('ENDIAN_LITTLE', 'ENDIAN_BIG'):
                        pol = 'LE' if name == 'ENDIAN_LITTLE' else 'BE'
                        if c['op'] == '!=':
                            pol = 'BE' if pol == 'LE' else 'LE'
                if pol:
                    # which branch holds the site?
                    idx = [i for i, k in enumerate(ks) if k is child or any(x is child for x in walk(k))]
                    if idx:
                        pos = idx[0]
                        # ks = [cond, then, else]
                        if pos == len(ks) - 1 and len(ks) == 3:
                            return 'BE' if pol == 'LE' else 'LE'
                        if pos >= 1:
                            return pol
        child = a
    return None


def lanes(prog, floor):
    obs = []
    nfun = 0
    for fn in prog.functions(lambda f: f.file.startswith(FILES) or f.q in EXTRA_FUNCS):
        if fn.body is None:
            continue
        nfun += 1
        s = Sym(prog, fn, fn.body, inline=False, single_only=True)
        ord_ = {}

        def cname(kind):
            ord_[kind] = ord_.get(kind, 0) + 1
            return '%s#%d' % (kind, ord_[kind])

        # ---- L1 / L3: maximal + / | trees
        for n in sorted(fn.nodes.values(), key=lambda x: x['i']):
            if n['k'] != 'BinaryOperator' or n.get('op') not in ('|', '+'):
                continue
            p = fn.parent.get(n['i'])
            while p is not None and p['k'] in ('ParenExpr', 'ImplicitCastExpr'):
                p = fn.parent.get(p['i'])
            if p is not None and p['k'] == 'BinaryOperator' and p.get('op') in ('|', '+'):
                continue
            terms = _flat_terms(s, n)
            byleaf = {}
            for t, node in terms:
                l = _lane_of(t)
                if l is not None:
                    byleaf.setdefault(t.leaf, []).append(l)
            for leaf, ls in byleaf.items():
                if len(ls) < 2:
                    continue
                ok = _contiguous(ls)
                obs.append(Ob('T-LANE', fn.file, n['l'], fn.q, cname('L1:' + leaf[:30]), DISCHARGED if ok else VIOLATED,
                              '' if ok else 'byte lanes %s of `%s` in `%s` are not a contiguous run of distinct multiples '
                              'of 8 (a lane is missing or taken twice)' % (sorted(ls), leaf, show(n)[:70]),
                              'lanes %s contiguous' % sorted(ls), False))
            # L3: assembling from byte sources
            srcs = []
            for t, node in terms:
                if t.leaf is None or t.shift < 0 or t.shift % 8:
                    continue
                if node is None:
                    continue
                base = strip(node, casts=True)
                w = type_width(fn.type(base))
                isbyte = (w == 8) or (callee(base) in BYTE_READERS)
                if isbyte and (t.dmask is None or t.dmask >> t.shift in (0xff, 0x7f)):
                    off = None
                    if callee(base) in ('getc', 'fgetc', 'get_hex', 'FileIo::get_int8'):
                        off = None      # sequential stream read: order of evaluation, not an address
                    elif callee(base) and call_args(base):
                        off = _offset(call_args(base)[-1])
                    elif base['k'] == 'ArraySubscriptExpr':
                        b0 = show(kids(base)[0])
                        k = const(kids(base)[1])
                        if k is not None:
                            off = (b0, k)
                        else:
                            bb, oo = _offset(kids(base)[1])
                            off = (b0 + '[' + bb + ']', oo)
                    srcs.append((t.shift, off, base))
            if len(srcs) >= 2 and len({sh for sh, _, _ in srcs}) >= 2:
                shifts = [sh for sh, _, _ in srcs]
                problems = []
                if not _contiguous(shifts) or min(shifts) != 0:
                    problems.append('byte sources are shifted by %s: not the distinct contiguous lanes 0,8,…' % sorted(shifts))
                bases = {o[0] for _, o, _ in srcs if o}
                endian = None
                if len(bases) == 1 and all(o is not None for _, o, _ in srcs):
                    endian = _endian_of_map([(o[1], sh) for sh, o, _ in srcs])
                    if endian is None:
                        problems.append('offset->lane map %s is neither little- nor big-endian' % sorted(
                            (o[1], sh) for sh, o, _ in srcs))
                    want = _branch_endian(fn, n)
                    if want and endian in ('LE', 'BE') and endian != want:
                        problems.append('bytes are assembled %s under a condition that selects %s' % (endian, want))
                # accumulator width: the value assembled must fit the type of the expression
                tw = type_width(fn.type(n))
                if tw is not None and max(shifts) + 8 > tw:
                    problems.append('a byte is shifted by %d in a %d-bit expression' % (max(shifts), tw))
                obs.append(Ob('T-LANE', fn.file, n['l'], fn.q, cname('L3'), VIOLATED if problems else DISCHARGED,
                              '; '.join(problems), 'shifts %s, map %s' % (sorted(shifts), endian)))
        # ---- L2: emit sequences per compound statement
        for n in sorted(fn.nodes.values(), key=lambda x: x['i']):
            if n['k'] != 'CompoundStmt':
                continue
            run = []

            def flush():
                if len(run) >= 2:
                    ls = [l for l, _, _ in run]
                    problems = []
                    mono = all(b - a == 8 for a, b in zip(ls, ls[1:])) or all(a - b == 8 for a, b in zip(ls, ls[1:]))
                    if not mono:
                        problems.append('lanes are emitted in the order %s: not a contiguous monotonic run' % ls)
                    offs = [o for _, o, _ in run]
                    endian = None
                    if all(o is not None and o[1] is not None for o in offs) and len({o[0] for o in offs}) == 1:
                        endian = _endian_of_map([(o[1], l) for l, o, _ in run])
                        if endian is None:
                            problems.append('offset->lane map %s is neither little- nor big-endian' % sorted(
                                (o[1], l) for l, o, _ in run))
                    else:
                        endian = 'LE' if ls == sorted(ls) else 'BE'
                    want = _branch_endian(fn, run[0][2])
                    if want and endian in ('LE', 'BE') and endian != want and mono:
                        problems.append('bytes are emitted %s under a condition that selects %s' % (endian, want))
                    obs.append(Ob('T-LANE', fn.file, run[0][2]['l'], fn.q, cname('L2:' + runkey[0].split('::')[-1]),
                                  VIOLATED if problems else DISCHARGED, '; '.join(problems),
                                  'lanes %s (%s)' % (ls, endian)))
                del run[:]
            runkey = None
            for st in kids(n):
                if st is None:
                    continue
                c = strip(st)
                key = None
                if c['k'] in ('CallExpr', 'CXXMemberCallExpr') and callee(c):
                    for ai, a in enumerate(call_args(c)):
                        ts = s.sym(a)
                        if len(ts) == 1 and ts[0].leaf is not None:
                            l = _lane_of(ts[0])
                            if l is None and ts[0].shift == 0 and ts[0].dmask is not None and ts[0].dmask >= 0xff and \
                                    type_width(fn.type(a)) == 8:
                                l = 0
                            if l is not None:
                                off = None
                                for aj, b in enumerate(call_args(c)):
                                    if aj != ai and fn.type(b) and 'int' in (fn.type(b) or '') and aj < ai:
                                        off = _offset(b)
                                key = (callee(c), ts[0].leaf)
                                item = (l, off, c)
                                break
                if key is None:
                    flush()
                    runkey = None
                    continue
                if runkey is not None and key != runkey:
                    flush()
                runkey = key
                run.append(item)
            flush()
    return RuleResult('T-LANE', obs, floor, {'functions': nfun})


def _flat_terms(s, n):
    """Terms of a +/| tree with the sub-expression node each term came from."""
    out = []
    st = [n]
    while st:
        x = st.pop()
        y = strip(x)
        if y['k'] == 'BinaryOperator' and y.get('op') in ('|', '+'):
            st.extend(kids(y))
            continue
        base = y
        # peel shifts / masks to find the source node
        src = y
        while True:
            z = strip(src, casts=True)
            if z['k'] == 'BinaryOperator' and z.get('op') in ('<<', '>>', '&') and const(kids(z)[1]) is not None:
                src = kids(z)[0]
                continue
            src = z
            break
        for t in s.sym(y):
            out.append((t, src))
    return out


# ------------------------------------------------------------------------------------------- T-NODROP
def nodrop(prog, floor=8):
    """In every loop `for (n = low_address; n <= high_address; n++)` of an output writer, each path through
    the body either reads the byte (memory->read8(n), value used) or runs through an edge that establishes
    read_debug(n) == DL_EMPTY."""
    from nk.cfg import natural_loops
    from rules.err import result_use
    obs = []
    for fn in prog.functions(lambda f: f.file.startswith('fileio/write_')):
        if not fn.blocks:
            continue
        loops = natural_loops(fn)
        for h, body in sorted(loops.items()):
            b = fn.blocks[h]
            cond = fn.nodes.get(b.get('cond'))
            if cond is None:
                continue
            c = strip(cond)
            if c['k'] != 'BinaryOperator' or c.get('op') not in ('<=', '<'):
                continue
            l, r = strip(kids(c)[0], casts=True), strip(kids(c)[1], casts=True)
            if l['k'] != 'DeclRefExpr' or r['k'] != 'MemberExpr' or r['n'] != 'high_address':
                continue
            V = l['d']
            # copies of the loop counter made at the top of the body (`n = (uint32_t)a;` / `const uint32_t i = (uint32_t)a;`)
            # name the same address
            alias = {V}
            for x in fn.nodes.values():
                w_ = fn.where.get(x['i'])
                if w_ is None or w_[0] not in body:
                    continue
                if x['k'] == 'BinaryOperator' and x.get('op') == '=':
                    r_ = strip(kids(x)[1], casts=True)
                    l_ = strip(kids(x)[0], casts=True)
                    if r_['k'] == 'DeclRefExpr' and r_.get('d') == V and l_['k'] == 'DeclRefExpr':
                        others = [y for y in fn.nodes.values() if y['k'] in ('BinaryOperator', 'CompoundAssignOperator', 'UnaryOperator') and
                                  (y.get('op') in ('++', '--') or (y.get('op', '').endswith('=') and y['op'] not in ('==', '!=', '<=', '>='))) and
                                  strip(kids(y)[0], casts=True).get('d') == l_.get('d') and y['i'] != x['i'] and
                                  (fn.where.get(y['i']) or (None,))[0] in body]
                        if not others:
                            alias.add(l_['d'])
                elif x['k'] == 'DeclStmt':
                    for d_, i_ in zip([z for z in x.get('decls', ()) if z.get('init')], kids(x)):
                        r_ = strip(i_, casts=True)
                        if r_['k'] == 'DeclRefExpr' and r_.get('d') == V:
                            alias.add(d_['d'])

            def is_v(x):
                x = strip(x, casts=True)
                return x['k'] == 'DeclRefExpr' and x.get('d') in alias
            # emptiness edges
            empty_edges = set()
            for bid in body:
                bb = fn.blocks[bid]
                cc = fn.nodes.get(bb.get('cond'))
                if cc is None or len(bb['s']) != 2:
                    continue
                cs = strip(cc)
                if cs['k'] == 'BinaryOperator' and cs.get('op') in ('==', '!='):
                    lhs = strip(kids(cs)[0], casts=True)
                    if callee(lhs) in ('Memory::read_debug', 'AsmContext::read_debug') and call_args(lhs) and \
                            is_v(call_args(lhs)[0]) and const(kids(cs)[1]) == -1:
                        e = bb['s'][0] if cs['op'] == '==' else bb['s'][1]
                        if e is not None:
                            empty_edges.add((bid, e))
            start = b['s'][0]
            bad = False
            seen = set()
            st = [(start, False)] if start is not None else []
            reads = 0
            while st and not bad:
                x, got = st.pop()
                if (x, got) in seen or x not in body and x != h:
                    continue
                if x == h:
                    if not got:
                        bad = True
                    continue
                seen.add((x, got))
                for e in fn.blocks[x]['e']:
                    n = fn.nodes.get(e)
                    if n is not None and callee(n) == 'Memory::read8' and call_args(n) and is_v(call_args(n)[0]):
                        if result_use(fn, n) != 'discarded':
                            got = True
                            reads += 1
                for s_ in fn.succs(x):
                    if (x, s_) in empty_edges:
                        continue
                    st.append((s_, got))
            kind = 'sparse' if empty_edges else 'dense'
            obs.append(Ob('T-NODROP', fn.file, cond['l'], fn.q, 'image-loop', VIOLATED if bad else DISCHARGED,
                          'a path through the writer loop reaches the next address without reading the byte at `%s` and '
                          'without an edge establishing read_debug(%s) == DL_EMPTY: a written byte can be skipped'
                          % (l['n'], l['n']) if bad else '',
                          '%s writer: every path reads memory->read8(%s) or passes a DL_EMPTY edge' % (kind, l['n'])))
    return RuleResult('T-NODROP', obs, floor, {})


# ------------------------------------------------------------------------------- R-WRAP(a) and DL-WIDTH
def wrap_pages(prog, floor=8):
    """R-WRAP(a): every page-membership test `address < page->address + PAGE_SIZE` is evaluated in a type
    wider than 32 bits (otherwise the top page 0xffff0000 never matches and writers allocate pages forever)."""
    obs = []
    for fn in prog.functions(lambda f: f.file in ('core/Memory.cpp', 'core/Memory.h', 'core/MemoryPage.h')):
        k = 0
        for n in sorted(fn.nodes.values(), key=lambda x: x['i']):
            if n['k'] != 'BinaryOperator' or n.get('op') != '+':
                continue
            a, b = kids(n)
            ma = strip(a, casts=True)
            if ma['k'] == 'DeclRefExpr' and ma.get('dk') == 'local' and ma.get('d') is not None:
                # a local copy of the page start
                from rules.pagebase import _defs
                ds_ = _defs(fn, ma['d'])
                if len(ds_) == 1:
                    ma = strip(ds_[0], casts=True)
            if ma['k'] == 'MemberExpr' and ma['n'] == 'address' and ma.get('rec') == 'MemoryPage' and \
                    (const(b) or 0) >= 4096:
                p = fn.parent.get(n['i'])
                while p is not None and p['k'] in ('ParenExpr', 'ImplicitCastExpr'):
                    p = fn.parent.get(p['i'])
                direct = p is not None and p['k'] == 'BinaryOperator' and p.get('op') in ('<', '<=', '>', '>=')
                if not direct:
                    # the page end kept in a variable first (`const uint32_t page_end = page->address + PAGE_SIZE`): the sum
                    # and the variable must both be wider than 32 bits
                    q_ = fn.parent.get(n['i'])
                    narrow = False
                    while q_ is not None and q_['k'] in ('ParenExpr', 'ImplicitCastExpr', 'CStyleCastExpr'):
                        wq = type_width(fn.type(q_))
                        if wq is not None and wq <= 32:
                            narrow = True
                        q_ = fn.parent.get(q_['i'])
                    if q_ is None or q_['k'] not in ('DeclStmt', 'BinaryOperator', 'VarDecl') or \
                            (q_['k'] == 'BinaryOperator' and q_.get('op') != '='):
                        continue
                    p = q_
                k += 1
                w = type_width(fn.type(n))
                ok = w is not None and w > 32
                if not direct and narrow:
                    ok = False
                obs.append(Ob('R-WRAP', fn.file, n['l'], fn.q, 'page-test#%d' % k, DISCHARGED if ok else VIOLATED,
                              '' if ok else '`%s` is computed in a %s-bit type: for the page at 0xffff0000 the sum wraps to 0, the '
                              'page never matches, and write paths append a new page on every access' % (show(p if direct else n)[:70], w),
                              'page end computed in %s bits' % w, False))
    return RuleResult('R-WRAP', obs, floor, {})


def dl_width(prog):
    """DL-WIDTH: the per-byte debug-line channel (source line / DL_EMPTY / DL_DATA / DL_NO_CG sentinels) is at
    least as wide as the `int` line numbers stored into it on the whole path
    memory_write*(…, line) -> Memory::write*(…) -> MemoryPage::set_debug -> debug_line[] -> read_debug."""
    obs = []
    rec = prog.records.get('MemoryPage')
    if rec is None:
        raise AnalysisBroken('DL-WIDTH: record MemoryPage not found')
    fld = [f for f in rec['fields'] if f['n'] == 'debug_line']
    if not fld:
        raise AnalysisBroken('DL-WIDTH: MemoryPage::debug_line not found')
    et = rec['types'][fld[0]['t']].split('[')[0].strip()
    w = type_width(et)
    ok = w is not None and w >= 32
    obs.append(Ob('DL-WIDTH', rec['file'], rec['line'], 'MemoryPage', 'debug_line-element', DISCHARGED if ok else VIOLATED,
                  '' if ok else 'debug_line elements are %s (%s bits) but hold `int` source line numbers next to the '
                  'sentinels DL_EMPTY=-1/DL_DATA=-2: line 65535 (or 255) is stored as -1 and the byte is treated as never '
                  'written' % (et, w), 'element type %s' % et, False))
    # no width-narrowing implicit conversion on stores into debug_line and on returns of read_debug
    n_sites = 0
    for fn in prog.functions(lambda f: f.file in ('core/Memory.cpp', 'core/Memory.h', 'core/MemoryPage.h', 'core/AsmContext.h',
                                                  'core/AsmContext.cpp')):
        for n in fn.nodes.values():
            tgt = None
            if n['k'] == 'BinaryOperator' and n.get('op') == '=':
                l = strip(kids(n)[0])
                if l['k'] == 'ArraySubscriptExpr' and 'debug_line' in show(kids(l)[0]):
                    tgt = kids(n)[1]
            elif n['k'] == 'ReturnStmt' and kids(n) and 'debug' in fn.name:
                tgt = kids(n)[0]
            if tgt is None:
                continue
            n_sites += 1
            bad = None
            x = tgt
            while x is not None and x['k'] in ('ImplicitCastExpr', 'ParenExpr'):
                if x.get('ck') == 'IntegralCast':
                    dw, sw = type_width(fn.type(x)), type_width(fn.type(kids(x)[0]))
                    if dw and sw and dw < sw:
                        bad = (fn.type(kids(x)[0]), fn.type(x))
                x = kids(x)[0] if kids(x) else None
            obs.append(Ob('DL-WIDTH', fn.file, n['l'], fn.q, 'channel:%s' % fn.name, VIOLATED if bad else DISCHARGED,
                          'debug-line value narrowed from %s to %s' % bad if bad else '', 'no narrowing conversion', False))
    for q in ('Memory::write_debug', 'Memory::read_debug', 'MemoryPage::set_debug'):
        fn = prog.fn_opt(q)
        if fn is None:
            continue
        for p in fn.params():
            if p['n'] in ('value', 'debug', 'data', 'line') and q != 'Memory::read_debug':
                pw = type_width(fn.types[p['t']])
                if p['n'] in ('value', 'debug', 'line'):
                    ok = pw is not None and pw >= 32
                    obs.append(Ob('DL-WIDTH', fn.file, fn.line, fn.q, 'param:' + p['n'], DISCHARGED if ok else VIOLATED,
                                  '' if ok else 'parameter %s is %s bits wide' % (p['n'], pw), '%s bits' % pw, False))
    return RuleResult('DL-WIDTH', obs, 3, {'stores_and_returns': n_sites})


# ------------------------------------------------------------------------------------------- T-PAIR
def _eval(n, env):
    """Concrete evaluation of a pure integer expression over named leaves (None when not pure)."""
    v = const(n)
    if v is not None:
        return v
    n = strip(n, casts=False)
    k = n['k']
    c = kids(n)
    if k in ('ImplicitCastExpr', 'CStyleCastExpr', 'ParenExpr'):
        return _eval(c[0], env)
    if k == 'DeclRefExpr':
        return env.get(n['n'])
    if k == 'BinaryOperator':
        a, b = _eval(c[0], env), _eval(c[1], env)
        if a is None or b is None:
            return None
        op = n['op']
        try:
            return {'+': a + b, '-': a - b, '&': a & b, '|': a | b, '^': a ^ b, '<<': a << b if 0 <= b < 64 else None,
                    '>>': a >> b if 0 <= b < 64 else None, '*': a * b}.get(op)
        except Exception:
            return None
    if k == 'UnaryOperator':
        a = _eval(c[0], env)
        if a is None:
            return None
        return {'~': ~a, '-': -a, '+': a}.get(n['op'])
    return None


def _format_specs(s):
    import re
    return re.findall(r'%0?(\d*)([XxdcsuC])', s or '')


def pair(prog):
    """T-PAIR: hex / srec writer and reader agree with the format and with each other:
       checksum finalisation (two's complement for Intel hex, one's complement for S-records) evaluated
       exhaustively over all running sums 0..0xffff, and record-length constant = address bytes + 1."""
    obs = []
    spec = {'hex': lambda x: (-x) & 0xff, 'srec': lambda x: (~x) & 0xff}

    def check_final(fn, expr, var, fmt, where):
        bad = None
        for x in range(0, 0x10000, 1):
            v = _eval(expr, {var: x})
            if v is None:
                raise AnalysisBroken('T-PAIR: checksum expression in %s not evaluable: %s' % (fn.q, show(expr)))
            if (v & 0xffffffff) != spec[fmt](x):
                bad = (x, v & 0xffffffff, spec[fmt](x))
                break
        obs.append(Ob('T-PAIR', fn.file, expr['l'], fn.q, 'checksum-final:' + where, VIOLATED if bad else DISCHARGED,
                      'record checksum `%s` gives %#x for a byte sum of %#x, the %s format defines %#x' % (
                          show(expr)[:60], bad[1], bad[0], fmt, bad[2]) if bad else '',
                      'equals the %s definition for all 65536 byte sums' % fmt))

    # writers: the last argument of the final fprintf of the record line
    for q, file, fmt in (('write_hex_line', 'fileio/write_hex.cpp', 'hex'), ('write_srec_line', 'fileio/write_srec.cpp', 'srec')):
        fn = prog.fn(q, file)
        calls = [c for c in fn.calls() if callee(c) == 'fprintf']
        cands = []
        for c in calls:
            a = call_args(c)
            lit = strip(a[1], casts=True)
            if lit['k'] == 'StringLiteral' and lit.get('s', '').endswith('\n') and len(a) >= 3:
                e = a[-1]
                names = {x['n'] for x in walk(e) if x['k'] == 'DeclRefExpr'}
                if 'checksum' in names:
                    cands.append(e)
        if not cands:
            raise AnalysisBroken('T-PAIR: checksum output of %s not found' % q)
        for i, e in enumerate(cands):
            check_final(fn, e, 'checksum', fmt, 'writer#%d' % (i + 1))
    # readers: checksum_calc = f(checksum_calc) followed by the comparison
    for q, file, fmt in (('read_hex', 'fileio/read_hex.cpp', 'hex'), ('read_srec', 'fileio/read_srec.cpp', 'srec')):
        fn = prog.fn(q, file)
        found = 0
        for n in fn.nodes.values():
            if n['k'] == 'BinaryOperator' and n.get('op') == '=':
                l = strip(kids(n)[0])
                if l['k'] == 'DeclRefExpr' and l['n'] == 'checksum_calc':
                    names = [x['n'] for x in walk(kids(n)[1]) if x['k'] == 'DeclRefExpr']
                    if names == ['checksum_calc'] and any(x['k'] == 'BinaryOperator' and x.get('op') == '^' for x in walk(kids(n)[1])):
                        check_final(fn, kids(n)[1], 'checksum_calc', fmt, 'reader')
                        found += 1
        if not found:
            raise AnalysisBroken('T-PAIR: checksum finalisation of %s not found' % q)
        # the computed checksum is compared with the one read and a mismatch leaves the loop with an error
        cmp_ok = False
        for b in fn.blocks.values():
            cond = fn.nodes.get(b.get('cond'))
            if cond is None:
                continue
            c = strip(cond)
            if c['k'] == 'BinaryOperator' and c.get('op') in ('!=', '=='):
                names = {x['n'] for x in walk(c) if x['k'] == 'DeclRefExpr'}
                if names == {'checksum', 'checksum_calc'}:
                    cmp_ok = True
        obs.append(Ob('T-PAIR', fn.file, fn.line, fn.q, 'checksum-compared', DISCHARGED if cmp_ok else VIOLATED,
                      '' if cmp_ok else 'the reader no longer compares the computed checksum with the record\'s',
                      'checksum != checksum_calc tested', False))
    # srec record length = address bytes + 1, writer and reader
    fn = prog.fn('write_srec_line', 'fileio/write_srec.cpp')
    for c in fn.calls():
        if callee(c) != 'fprintf':
            continue
        a = call_args(c)
        lit = strip(a[1], casts=True)
        if lit['k'] != 'StringLiteral' or not lit.get('s', '').startswith('S%c'):
            continue
        specs = _format_specs(lit['s'])
        if len(specs) < 3 or len(a) < 5:
            continue
        digits = int(specs[2][0] or 0)
        le = strip(a[3], casts=True)
        k = None
        if le['k'] == 'BinaryOperator' and le.get('op') == '+':
            k = const(kids(le)[1])
        ok = k is not None and digits and k == digits // 2 + 1
        obs.append(Ob('T-PAIR', fn.file, c['l'], fn.q, 'srec-length:%d-digit' % digits, DISCHARGED if ok else VIOLATED,
                      '' if ok else 'record with a %d-digit address announces length len + %s (must be len + %d: address bytes + '
                      'checksum)' % (digits, k, digits // 2 + 1), 'len + %s for %d address digits' % (k, digits), False))
    fn = prog.fn('read_srec', 'fileio/read_srec.cpp')
    for n in fn.nodes.values():
        if n['k'] != 'CompoundStmt':
            continue
        digits = sub = None
        for st in kids(n):
            if st is None:
                continue
            s_ = strip(st)
            if s_['k'] == 'BinaryOperator' and s_.get('op') == '=' and callee(strip(kids(s_)[1], casts=True)) == 'get_hex' and \
                    strip(kids(s_)[0]).get('n') == 'address':
                digits = const(call_args(strip(kids(s_)[1], casts=True))[1])
            if s_['k'] == 'CompoundAssignOperator' and s_.get('op') == '-=' and strip(kids(s_)[0]).get('n') == 'byte_count':
                sub = const(kids(s_)[1])
        if digits and sub is not None:
            ok = sub == digits // 2 + 1
            obs.append(Ob('T-PAIR', fn.file, n['l'], fn.q, 'srec-length-read:%d-digit' % digits, DISCHARGED if ok else VIOLATED,
                          '' if ok else 'reader takes %d bytes of overhead for a %d-digit address record (must be %d)' % (
                              sub, digits, digits // 2 + 1), 'byte_count -= %d for %d address digits' % (sub, digits), False))
    return RuleResult('T-PAIR', obs, 10, {})


def rec_sum(prog):
    """REC-SUM: in the hex / S-record writers, wherever a whole record is printed by one fprintf whose last field is the
    checksum, the value assigned to `checksum` just before equals, modulo 256, the sum of the bytes that fprintf prints
    before the checksum field: literal hex digit pairs of the format, one byte per %02X, two per %04X, ...
    Evaluated for 70 000 values of every free variable (all 16-bit patterns in the low and in the high half-word)."""
    import re
    obs = []
    n_rec = 0
    for q, file, skip in (('write_hex_line', 'fileio/write_hex.cpp', 1), ('write_srec_line', 'fileio/write_srec.cpp', 2)):
        fn = prog.fn(q, file)
        # locals with a single initialiser can be unfolded
        inits = {}
        for n in fn.nodes.values():
            if n['k'] == 'DeclStmt':
                for d, i in zip([x for x in n.get('decls', ()) if x.get('init')], kids(n)):
                    inits[d['n']] = i

        def ev(e, env, depth=0):
            v = const(e)
            if v is not None:
                return v
            e = strip(e, casts=False)
            k = e['k']
            c = kids(e)
            if k in ('ImplicitCastExpr', 'CStyleCastExpr', 'ParenExpr', 'CXXStaticCastExpr'):
                return ev(c[0], env, depth)
            if k == 'UnaryOperator' and e.get('op') == '*':
                return env.get(show(e).replace('(cast)', ''))
            if k == 'DeclRefExpr':
                if e['n'] in env:
                    return env[e['n']]
                if e['n'] in inits and depth < 4:
                    return ev(inits[e['n']], env, depth + 1)
                return None
            if k == 'BinaryOperator':
                a, b = ev(c[0], env, depth), ev(c[1], env, depth)
                if a is None or b is None:
                    return None
                op = e['op']
                return {'+': a + b, '-': a - b, '&': a & b, '|': a | b, '^': a ^ b, '<<': (a << b) & 0xffffffffffffffff if 0 <= b < 64 else None,
                        '>>': a >> b if 0 <= b < 64 else None, '*': a * b}.get(op)
            if k == 'UnaryOperator':
                a = ev(c[0], env, depth)
                return None if a is None else {'~': ~a, '-': -a, '+': a}.get(e['op'])
            return None

        for c in sorted(fn.calls(), key=lambda x: x['i']):
            if callee(c) != 'fprintf':
                continue
            a = call_args(c)
            lit = strip(a[1], casts=True)
            if lit['k'] != 'StringLiteral' or not (lit.get('s') or '').endswith('\n') or len(a) < 3:
                continue
            if 'checksum' not in {x['n'] for x in walk(a[-1]) if x['k'] == 'DeclRefExpr'}:
                continue
            fmt = lit['s'][skip:-1] if lit['s'][:1] in (':', 'S') else lit['s'][:-1]
            # tokenise: hex digit pairs and %0NX fields
            toks = re.findall(r'%0?(\d*)[Xx]|([0-9A-Fa-f]{2})', fmt)
            if ''.join(('%%0%sX' % w) if w else lit_ for w, lit_ in toks) .replace('%0X', '%X') != fmt.replace('%02x', '%02X') and \
                    re.sub(r'%0?\d*[Xx]|[0-9A-Fa-f]{2}', '', fmt) != '':
                continue        # a format this rule does not read (type character etc.)
            fields = [w for w, lit_ in toks if not lit_]
            if len(fields) != len(a) - 2:
                continue
            # the assignment to checksum that reaches the call: nearest preceding one in the same block
            w = fn.where.get(c['i'])
            asg = None
            for n in fn.nodes.values():
                if n['k'] == 'BinaryOperator' and n.get('op') == '=' and strip(kids(n)[0]).get('n') == 'checksum':
                    w2 = fn.where.get(n['i'])
                    if w2 and w and w2[0] == w[0] and w2[1] < w[1]:
                        if asg is None or fn.where[asg['i']][1] < w2[1]:
                            asg = n
            if asg is None:
                continue
            n_rec += 1
            # free leaves
            leaves = set()
            exprs = [kids(asg)[1]] + a[2:-1]
            seen_loc = set()
            qi = 0
            while qi < len(exprs):
                for x in walk(exprs[qi]):
                    if x['k'] == 'DeclRefExpr' and x['n'] in inits and x['n'] not in seen_loc:
                        seen_loc.add(x['n'])
                        exprs.append(inits[x['n']])
                qi += 1
            for e in exprs:
                for x in walk(e):
                    if x['k'] == 'UnaryOperator' and x.get('op') == '*':
                        leaves.add(show(x).replace('(cast)', ''))
                    elif x['k'] == 'DeclRefExpr' and x.get('dk') in ('param', 'local') and x['n'] not in inits and x['n'] != 'checksum':
                        leaves.add(x['n'])
            leaves = sorted(l for l in leaves if not l.startswith('**'))
            bad = None
            tests = [v for v in range(0, 0x10000, 1)] + [v << 16 for v in range(1, 0x10000, 13)] + [0xffffffff, 0x12345678]
            if len(leaves) > 1:
                tests = tests[::97] + [0xffffffff, 0x01000000, 0x00ff0000]
            import itertools
            for combo in itertools.product(tests, repeat=max(1, len(leaves))) if len(leaves) <= 2 else [tuple([t] * len(leaves)) for t in tests]:
                env = dict(zip(leaves, combo))
                s_ = ev(kids(asg)[1], env)
                if s_ is None:
                    bad = 'not evaluable'
                    break
                tot = 0
                ai = 2
                okv = True
                for w_, lit_ in toks[:-1] if not toks[-1][1] else toks:
                    if lit_:
                        tot += int(lit_, 16)
                    else:
                        v = ev(a[ai], env)
                        ai += 1
                        if v is None:
                            okv = False
                            break
                        nb = max(1, (int(w_) if w_ else 2) // 2)
                        v &= (1 << (8 * nb)) - 1
                        for bi in range(nb):
                            tot += (v >> (8 * bi)) & 0xff
                if not okv:
                    bad = 'not evaluable'
                    break
                if (s_ - tot) & 0xff:
                    bad = (env, s_ & 0xff, tot & 0xff)
                    break
            if bad == 'not evaluable':
                n_rec -= 1
                continue
            obs.append(Ob('REC-SUM', fn.file, c['l'], fn.q, 'record:%s' % lit['s'][:12], VIOLATED if bad else DISCHARGED,
                          'with %s the bytes of the record `%s` add up to %#x but `checksum = %s` gives %#x: the record is written with a '
                          'wrong checksum and readers reject the file' % (
                              {k_: hex(v_) for k_, v_ in bad[0].items()}, lit['s'].strip(), bad[2], show(kids(asg)[1])[:50], bad[1]) if bad else '',
                          'checksum equals the byte sum of the printed fields for every tested value'))
    if n_rec < 1:
        raise AnalysisBroken('REC-SUM: no whole-record fprintf with a checksum field recognised')
    return RuleResult('REC-SUM', obs, 1, {})

.6809
  ; 16-bit indexed offsets: 70000 = 0x11170 does not fit, encodes like 0x1170
  lda 70000,x
  lda 0x1170,x
  lda 70000,pc
  lda 0x1170,pc
  lda [70000,y]
  lda [0x1170,y]
  ldy -70000,u
  ldy -4464,u

"""NUL-STEP (C17/C19/C16): a scanner does not step over the terminator of the string it scans.

Instance: a branch whose own condition is a NUL test of a character read through a local cursor — `X[s] != 0`, `X[s] == 0`,
`X[s]`, `*p != 0`, `*p` — with X / p a char pointer or array.  On the edge on which the character IS the terminator the rule
walks forward; a branch that tests the same character against a constant is followed only along the edge a NUL takes; the walk
ends at a return, at an assignment to the cursor, or when the string itself is reassigned.  Reaching an increment of the
cursor (`s++`, `s += k`, `p++`) is a violation: the next read is behind the terminator (stale bytes of an earlier, longer
command line are then taken for further arguments)."""
from nk.facts import kids, strip, const, callee, show, walk, call_args
from nk.report import Ob, RuleResult, DISCHARGED, VIOLATED, OBSERVATION
from nk.build import AnalysisBroken


def _own(fn, bb):
    cn = fn.nodes.get(bb.get('cond')) if 'cond' in bb else None
    if cn is None or len(bb['s']) != 2:
        return None
    own = strip(cn)
    while own['k'] == 'BinaryOperator' and own.get('op') in ('&&', '||'):
        own = strip(kids(own)[1])
    return own


def _ischar(t):
    return (t or '').replace('const ', '').strip() in ('char', 'unsigned char', 'signed char')


def _charread(fn, e):
    """(text, cursor decl, base decl | None) when e reads one character through a local cursor."""
    x = strip(e, casts=True)
    if x is None:
        return None
    if x['k'] == 'ArraySubscriptExpr':
        b = strip(kids(x)[0], casts=True)
        i = strip(kids(x)[1], casts=True)
        if i['k'] == 'DeclRefExpr' and i.get('dk') in ('local', 'param') and _ischar(fn.type(x)) and \
                b['k'] in ('DeclRefExpr', 'MemberExpr'):
            return (show(x), i.get('d'), b.get('d') if b['k'] == 'DeclRefExpr' else None)
    if x['k'] == 'UnaryOperator' and x.get('op') == '*':
        p = strip(kids(x)[0], casts=True)
        if p['k'] == 'DeclRefExpr' and p.get('dk') in ('local', 'param') and _ischar(fn.type(x)):
            return (show(x), p.get('d'), None)
    return None


def _nul_edge(fn, own):
    """(char read, index of the successor taken when the character is NUL) for a NUL test, else None."""
    if own['k'] == 'BinaryOperator' and own.get('op') in ('!=', '=='):
        a, b = kids(own)
        for l, r in ((a, b), (b, a)):
            if const(r) == 0:
                cr = _charread(fn, l)
                if cr:
                    return cr, (1 if own['op'] == '!=' else 0)
        return None
    cr = _charread(fn, own)
    if cr:
        return cr, 1
    if own['k'] == 'UnaryOperator' and own.get('op') == '!':
        cr = _charread(fn, kids(own)[0])
        if cr:
            return cr, 0
    return None


_CMP = {'<': lambda a, b: a < b, '<=': lambda a, b: a <= b, '>': lambda a, b: a > b, '>=': lambda a, b: a >= b,
        '==': lambda a, b: a == b, '!=': lambda a, b: a != b}


def _edge_for_nul(fn, own, txt):
    """Successor index a NUL character takes at this branch, or None when the branch does not decide on that character alone."""
    if own['k'] == 'BinaryOperator' and own.get('op') in _CMP:
        a, b = kids(own)
        ca, cb = const(a), const(b)
        if cb is not None and _charread(fn, a) and _charread(fn, a)[0] == txt:
            return 0 if _CMP[own['op']](0, cb) else 1
        if ca is not None and _charread(fn, b) and _charread(fn, b)[0] == txt:
            return 0 if _CMP[own['op']](ca, 0) else 1
        return None
    cr = _charread(fn, own)
    if cr and cr[0] == txt:
        return 1
    if own['k'] == 'UnaryOperator' and own.get('op') == '!':
        cr = _charread(fn, kids(own)[0])
        if cr and cr[0] == txt:
            return 0
    return None


def nul_step(prog, scope, floor=20):
    import json, os
    tp = os.path.join(os.path.dirname(__file__), 'nulstep_table.json')
    accepted = {(e['file'], e['function'], e['construct']): e['reason'] for e in json.load(open(tp))['packed_lists']}
    obs = []
    for fn in prog.functions(scope):
        if not fn.blocks:
            continue
        for b, bb in sorted(fn.blocks.items()):
            own = _own(fn, bb)
            if own is None:
                continue
            ne = _nul_edge(fn, own)
            if ne is None:
                continue
            (txt, cur, base), ei = ne
            start = bb['s'][ei]
            if start is None:
                continue
            bad = None
            maybe = None
            seen = set()
            st = [(start, True)]
            while st and bad is None:
                x, definite = st.pop()
                if x in seen or x == fn.exit:
                    continue
                seen.add(x)
                xb = fn.blocks[x]
                stop = False
                for nid in xb['e']:
                    n = fn.nodes.get(nid)
                    if n is None:
                        continue
                    tgt = None
                    if n['k'] == 'UnaryOperator' and n.get('op') in ('++', '--'):
                        tgt = strip(kids(n)[0])
                        inc = n['op'] == '++'
                    elif n['k'] == 'CompoundAssignOperator' and n.get('op') in ('+=', '-='):
                        tgt = strip(kids(n)[0])
                        inc = n['op'] == '+='
                    elif n['k'] == 'BinaryOperator' and n.get('op') == '=':
                        tgt = strip(kids(n)[0])
                        inc = False
                    elif n['k'] == 'ReturnStmt':
                        stop = True
                        break
                    if tgt is not None and tgt['k'] == 'DeclRefExpr':
                        if tgt.get('d') == cur:
                            if inc and definite:
                                bad = n
                            elif inc and maybe is None:
                                maybe = n
                            stop = True
                            break
                        if base is not None and tgt.get('d') == base:
                            stop = True
                            break
                if stop or bad is not None:
                    continue
                o2 = _own(fn, xb)
                only = _edge_for_nul(fn, o2, txt) if o2 is not None else None
                nsucc = len([s_ for s_ in xb['s'] if s_ is not None])
                for i, s_ in enumerate(xb['s']):
                    if s_ is not None and (only is None or i == only):
                        # a branch the terminator does not decide makes what follows a possibility, not a certainty
                        st.append((s_, definite and (only is not None or nsucc == 1)))
            construct = 'nul-test:%s' % show(own)[:40]
            k = sum(1 for o in obs if o.function == fn.q and o.file == fn.file and o.construct.split('#')[0] == construct)
            if k:
                construct += '#%d' % (k + 1)
            acc = accepted.get((fn.file, fn.q, construct))
            if bad is not None and acc:
                obs.append(Ob('NUL-STEP', fn.file, bad['l'], fn.q, construct, DISCHARGED, '', 'accepted: ' + acc))
            elif bad is None and maybe is not None:
                obs.append(Ob('NUL-STEP', fn.file, maybe['l'], fn.q, construct, OBSERVATION,
                              '`%s` (line %d) is reachable from the terminator edge only through branches on other values: not '
                              'decided' % (show(maybe), maybe['l'])))
            elif bad is not None:
                obs.append(Ob('NUL-STEP', fn.file, bad['l'], fn.q, construct, VIOLATED,
                              'when `%s` is the terminator (test at line %d) control reaches `%s` (line %d) without a test that '
                              'excludes it: the cursor steps over the end of the string and the following bytes (left from an '
                              'earlier, longer line) are scanned as more input' % (txt, own['l'], show(bad), bad['l'])))
            else:
                obs.append(Ob('NUL-STEP', fn.file, own['l'], fn.q, construct, DISCHARGED, '',
                              'no increment of the cursor is reachable on the terminator edge', True))
    if len([o for o in obs if o.status != OBSERVATION]) < floor:
        raise AnalysisBroken('NUL-STEP: only %d terminator tests' % len(obs))
    return RuleResult('NUL-STEP', obs, floor, {})

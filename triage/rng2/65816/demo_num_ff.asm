.65816
.org 0x1000
  lda ($1234)       ; b2 34  -- same bytes as lda ($34)
  lda ($34)
  lda ($1234),y     ; b1 34
  lda ($34),y
  lda [$1234]       ; a7 34
  lda [$34]
  lda ($123,s),y    ; b3 23
  lda ($23,s),y
  pei ($1234)       ; d4 34
  pei ($34)
  sep #$1234        ; e2 34
  sep #$34

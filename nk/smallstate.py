"""Small-state exploration: exact abstract interpretation of a function over a handful of small integer
locations (chosen locals and the integer fields of chosen local objects), with the methods called on those
objects inlined.  Used for capacity protocols such as the evaluator's value/operator stacks:
every assert() reached and every subscript of the objects' arrays is checked in every reachable abstract state.

A location holds a small concrete integer or TOP (None).  Conditions over known values prune branches; everything
else is non-deterministic.  Values leaving [-LIM, LIM] become TOP."""
from .facts import kids, strip, const, callee, ckey, call_args, show

LIM = 64
TOP = None


class Result:
    def __init__(self):
        self.asserts = []       # (fn, node, state) where __assert_fail is reachable
        self.oob = []           # (fn, node, index, bound, state)
        self.unknown_idx = []   # (fn, node, state)
        self.checked_idx = 0
        self.checked_asserts = 0
        self.states = 0
        self.imprecise = []


class Frame:
    __slots__ = ('fn', 'this', 'refs', 'ints')

    def __init__(self, fn, this=None, refs=None, ints=None):
        self.fn, self.this, self.refs, self.ints = fn, this, refs or {}, ints or {}


class Explorer:
    def __init__(self, prog, max_depth=4):
        self.prog = prog
        self.max_depth = max_depth
        self.res = Result()
        self._memo = {}

    # ------------------------------------------------------------------ helpers
    def obj_of(self, frame, n):
        """Object name a (possibly implicit-this) expression denotes, or None."""
        n = strip(n, casts=True)
        if n['k'] == 'CXXThisExpr':
            return frame.this
        if n['k'] == 'DeclRefExpr':
            if n.get('d') in frame.refs:
                return frame.refs[n['d']]
        return None

    def loc_of(self, frame, n):
        """Location key of an integer l-value expression, or None."""
        n = strip(n)
        if n['k'] == 'DeclRefExpr' and n.get('d') in frame.ints:
            return frame.ints[n['d']]
        if n['k'] == 'MemberExpr' and not n.get('method') and kids(n):
            o = self.obj_of(frame, kids(n)[0])
            if o is not None:
                return (o, n['n'])
        return None

    @staticmethod
    def norm(v):
        if v is None or v < -LIM or v > LIM:
            return TOP
        return v

    # ------------------------------------------------------------------ exploration of one function
    def explore(self, fn, frame, state, depth=0):
        """Returns set of (state, return value) reachable at the function's returns / end."""
        key = (fn.key, frame.this, tuple(sorted(frame.refs.items())), tuple(sorted((k, v) for k, v in frame.ints.items())),
               state)
        if key in self._memo:
            return self._memo[key]
        self._memo[key] = set()     # recursion guard
        outs = set()
        seen = set()
        work = [(fn.entry, state)]
        steps = 0
        while work:
            bid, st = work.pop()
            if (bid, st) in seen:
                continue
            seen.add((bid, st))
            self.res.states += 1
            steps += 1
            if steps > 100000:
                self.res.imprecise.append('state explosion in %s' % fn.q)
                break
            b = fn.blocks[bid]
            # process elements; a call may split the state
            conts = [(dict(st), {})]
            returned = False
            for e in b['e']:
                n = fn.nodes.get(e)
                if n is None:
                    continue
                nxt = []
                for s, tmp in conts:
                    for s2, tmp2, ret in self.step(fn, frame, n, s, tmp, depth):
                        if ret is not None:
                            outs.add((frozenset(s2.items()), ret[0]))
                        else:
                            nxt.append((s2, tmp2))
                conts = nxt
                if not conts:
                    break
            if b.get('noreturn'):
                continue
            for s, tmp in conts:
                if bid == fn.exit:
                    outs.add((frozenset(s.items()), TOP))
                    continue
                succ = b['s']
                cond = fn.nodes.get(b.get('cond')) if 'cond' in b else None
                fs = frozenset(s.items())
                if cond is not None and len(succ) == 2 and b.get('termk') != 'SwitchStmt':
                    c = cond
                    cs = strip(c)
                    while cs['k'] == 'BinaryOperator' and cs.get('op') in ('||', '&&') and b.get('termk') != 'BinaryOperator':
                        c = kids(cs)[1]
                        cs = strip(c)
                    v = self.value(fn, frame, c, s, tmp)
                    if v is TOP or v is None:
                        for t in succ:
                            if t is not None:
                                work.append((t, fs))
                    else:
                        t = succ[0] if v != 0 else succ[1]
                        if t is not None:
                            work.append((t, fs))
                else:
                    for t in succ:
                        if t is not None:
                            work.append((t, fs))
        self._memo[key] = outs
        return outs

    # ------------------------------------------------------------------ one CFG element
    def value(self, fn, frame, n, s, tmp):
        """Value of an expression node from cached temporaries / constants / locations."""
        if n is None:
            return TOP
        v = const(n)
        if v is not None:
            return self.norm(v)
        if n['i'] in tmp:
            return tmp[n['i']]
        k = n['k']
        c = kids(n)
        if k in ('ParenExpr', 'ImplicitCastExpr', 'CStyleCastExpr', 'ExprWithCleanups', 'CXXStaticCastExpr', 'ConstantExpr'):
            return self.value(fn, frame, c[0], s, tmp)
        loc = self.loc_of(frame, n)
        if loc is not None:
            return s.get(loc, TOP)
        if k == 'UnaryOperator' and n.get('op') == '!':
            a = self.value(fn, frame, c[0], s, tmp)
            return TOP if a is TOP else int(not a)
        if k == 'UnaryOperator' and n.get('op') == '-':
            a = self.value(fn, frame, c[0], s, tmp)
            return TOP if a is TOP else self.norm(-a)
        if k == 'BinaryOperator' and n.get('op') in ('==', '!=', '<', '>', '<=', '>=', '+', '-', '&&', '||', '*'):
            a, b = self.value(fn, frame, c[0], s, tmp), self.value(fn, frame, c[1], s, tmp)
            op = n['op']
            if op == '&&' and (a == 0 or b == 0):
                return 0
            if op == '||' and ((a not in (TOP, 0)) or (b not in (TOP, 0))):
                return 1
            if a is TOP or b is TOP:
                return TOP
            return self.norm({'==': int(a == b), '!=': int(a != b), '<': int(a < b), '>': int(a > b), '<=': int(a <= b),
                              '>=': int(a >= b), '+': a + b, '-': a - b, '&&': int(bool(a) and bool(b)),
                              '||': int(bool(a) or bool(b)), '*': a * b}[op])
        if k == 'ConditionalOperator':
            t = self.value(fn, frame, c[0], s, tmp)
            if t is TOP:
                return TOP
            return self.value(fn, frame, c[1] if t else c[2], s, tmp)
        return TOP

    def step(self, fn, frame, n, s, tmp, depth):
        """Process CFG element n.  Yields (state, temporaries, ret) with ret = (value,) at a return statement."""
        k = n['k']
        c = kids(n)
        # subscripts of arrays that are fields of tracked objects
        if k == 'ArraySubscriptExpr' and 'bound' in n:
            base = strip(c[0], casts=True)
            if base['k'] == 'MemberExpr' and kids(base) and self.obj_of(frame, kids(base)[0]) is not None:
                # evaluate the index in the state before its own side effects: the CFG lists i++ before the subscript,
                # so post/pre-increments are undone here
                idx = self._index_value(fn, frame, c[1], s, tmp)
                self.res.checked_idx += 1
                if idx is TOP:
                    self.res.unknown_idx.append((fn, n, frozenset(s.items())))
                elif not (0 <= idx < n['bound']):
                    self.res.oob.append((fn, n, idx, n['bound'], frozenset(s.items())))
        if k in ('BinaryOperator', 'CompoundAssignOperator') and n.get('op') in ('=', '+=', '-='):
            loc = self.loc_of(frame, c[0])
            if loc is not None:
                rv = self.value(fn, frame, c[1], s, tmp)
                if n['op'] == '=':
                    nv = rv
                else:
                    cur = s.get(loc, TOP)
                    nv = TOP if cur is TOP or rv is TOP else (cur + rv if n['op'] == '+=' else cur - rv)
                s = dict(s)
                s[loc] = self.norm(nv)
                tmp = dict(tmp)
                tmp[n['i']] = s[loc]
            yield s, tmp, None
            return
        if k == 'UnaryOperator' and n.get('op') in ('++', '--'):
            loc = self.loc_of(frame, c[0])
            if loc is not None:
                cur = s.get(loc, TOP)
                nv = TOP if cur is TOP else self.norm(cur + (1 if n['op'] == '++' else -1))
                s = dict(s)
                s[loc] = nv
                tmp = dict(tmp)
                tmp[n['i']] = cur if n.get('post') else nv
            yield s, tmp, None
            return
        if k == 'DeclStmt':
            s = dict(s)
            inits = list(c)
            ds = [d for d in n.get('decls', ())]
            ii = 0
            for d in ds:
                init = None
                if d.get('init') and ii < len(inits):
                    init = inits[ii]
                    ii += 1
                t = fn.types[d['t']]
                if d['d'] in frame.ints:
                    s[frame.ints[d['d']]] = self.value(fn, frame, init, s, tmp) if init is not None else TOP
                elif d['d'] in frame.refs and init is not None:
                    # constructor: member initialisers with constants
                    o = frame.refs[d['d']]
                    ce = strip(init, casts=True)
                    ctor = self.prog.by_key.get(ckey(ce)) if ce['k'] == 'CXXConstructExpr' else None
                    if ctor is None and ce['k'] == 'CXXConstructExpr':
                        cands = self.prog.by_q.get(ce.get('callee'), [])
                        ctor = cands[0] if cands else None
                    if ctor is not None:
                        for i in ctor.j.get('inits', ()):
                            if i.get('field') and i.get('e') is not None:
                                e0 = strip(i['e'], casts=True)
                                if e0['k'] == 'InitListExpr' and kids(e0):
                                    e0 = kids(e0)[0]
                                v = const(e0)
                                if v is not None:
                                    s[(o, i['field'])] = self.norm(v)
            yield s, tmp, None
            return
        if k == 'ReturnStmt':
            v = self.value(fn, frame, c[0], s, tmp) if c else TOP
            yield s, tmp, (v,)
            return
        if k in ('CallExpr', 'CXXMemberCallExpr'):
            q = callee(n)
            if q == '__assert_fail':
                self.res.asserts.append((fn, n, frozenset(s.items())))
                return      # noreturn
            for out in self.call(fn, frame, n, s, tmp, depth):
                yield out
            return
        yield s, tmp, None

    def _index_value(self, fn, frame, idx, s, tmp):
        x = strip(idx, casts=True)
        if x['k'] == 'UnaryOperator' and x.get('op') in ('++', '--'):
            loc = self.loc_of(frame, kids(x)[0])
            if loc is None:
                return TOP
            cur = s.get(loc, TOP)       # already updated by the earlier CFG element
            if cur is TOP:
                return TOP
            if x.get('post'):
                return cur - (1 if x['op'] == '++' else -1)
            return cur
        return self.value(fn, frame, idx, s, tmp)

    def call(self, fn, frame, n, s, tmp, depth):
        k = n['k']
        key = ckey(n)
        f2 = self.prog.by_key.get(key) if key else None
        if f2 is None and key:
            cands = self.prog.by_q.get(n.get('callee'), [])
            f2 = cands[0] if cands else None
        this = None
        if k == 'CXXMemberCallExpr':
            me = strip(kids(n)[0])
            if kids(me):
                this = self.obj_of(frame, kids(me)[0])
        args = call_args(n)
        refs, ints = {}, {}
        relevant = this is not None
        if f2 is not None and f2.blocks and len(args) == len(f2.params()):
            for p, a in zip(f2.params(), args):
                pt = f2.types[p['t']]
                o = self.obj_of(frame, a)
                if o is not None and pt.endswith('&'):
                    refs[p['d']] = o
                    relevant = True
                elif pt in ('int', 'unsigned int', 'bool', 'char', 'unsigned char', 'short', 'long'):
                    ints[p['d']] = ('arg', f2.key, p['d'])
        pure_small = f2 is not None and f2.blocks and len(f2.blocks) <= 12 and not relevant and ints and \
            all(self.value(fn, frame, a, s, tmp) is not TOP for a, p in zip(args, f2.params()) if p['d'] in ints)
        if f2 is None or not f2.blocks or depth >= self.max_depth or not (relevant or pure_small):
            # opaque call: result unknown; tracked objects are not passed, so their state is unchanged
            t2 = dict(tmp)
            t2[n['i']] = TOP
            yield s, t2, None
            return
        s_in = dict(s)
        for p, a in zip(f2.params(), args):
            if p['d'] in ints:
                s_in[ints[p['d']]] = self.value(fn, frame, a, s, tmp)
        # locals of the callee that are plain ints are tracked too (loop counters of push_front etc.)
        for x in f2.nodes.values():
            if x['k'] == 'DeclStmt':
                for d in x.get('decls', ()):
                    if f2.types[d['t']] in ('int', 'unsigned int', 'bool'):
                        ints.setdefault(d['d'], ('loc', f2.key, d['d']))
        fr2 = Frame(f2, this, refs, ints)
        outs = self.explore(f2, fr2, frozenset(s_in.items()), depth + 1)
        if not outs:
            return
        for st2, rv in outs:
            s2 = {k2: v2 for k2, v2 in st2 if not (isinstance(k2, tuple) and k2[0] in ('arg', 'loc') and k2[1] == f2.key)}
            t2 = dict(tmp)
            t2[n['i']] = rv
            yield s2, t2, None

"""Determinism / effect rules: R-NDET, R-GLOB, R-PURE, R-OPT, FRESH (fresh context per interactive assembly)."""
from nk.facts import kids, strip, const, callee, ckey, call_args, show, walk, lvalue_root
from nk import tables
from nk.report import Ob, RuleResult, DISCHARGED, VIOLATED, OBSERVATION
from nk.build import AnalysisBroken

NDET = ('time', 'localtime', 'gmtime', 'clock', 'rand', 'random', 'srand', 'getpid', 'getenv', 'gettimeofday',
        'clock_gettime', 'std::rand', 'drand48', 'mktemp', 'tmpnam')
NDET_ALLOWED = {'write_srec_header@fileio/write_srec.cpp': 'S0 header timestamp: the exception named by the property',
                'write_srec_header': 'S0 header timestamp: the exception named by the property'}
IMAGE_SINKS = ('Memory::write8', 'Memory::write', 'Memory::write16', 'Memory::write32', 'Memory::write_debug',
               'AsmContext::memory_write', 'AsmContext::memory_write_inc', 'add_bin8', 'add_bin16', 'add_bin32',
               'Symbols::append', 'Symbols::set', 'macros_append', 'tokens_get', 'tokens_get_char', 'tokens_push',
               'AsmContext::set_org')


def ndet(prog, cg, roots):
    """R-NDET: sources of nondeterminism are called only from the named exception."""
    reach = cg.reachable(roots)
    obs = []
    for q in sorted(reach):
        fn = prog.by_key.get(q)
        if fn is None or fn.file.startswith('simulate/'):
            continue
        hits = [c for c in fn.calls() if (callee(c) or '') in NDET]
        # %p formatting
        for c in fn.calls():
            if callee(c) in ('printf', 'fprintf', 'snprintf', 'sprintf'):
                for a in call_args(c):
                    s = strip(a, casts=True)
                    if s['k'] == 'StringLiteral' and '%p' in (s.get('s') or '') and 'dump' not in fn.name:
                        hits.append(c)
        for c in hits:
            ok = q in NDET_ALLOWED
            obs.append(Ob('R-NDET', fn.file, c['l'], fn.q, 'call:' + (callee(c) or '?'), DISCHARGED if ok else VIOLATED,
                          '' if ok else 'function reachable from the assembler calls %s: output depends on something other than the '
                          'source' % callee(c), NDET_ALLOWED.get(q, ''), False))
    if not obs:
        raise AnalysisBroken('R-NDET: the time() call of write_srec_header was not found (positive control)')
    return RuleResult('R-NDET', obs, 1, {'functions': len(reach)})


GLOB_ALLOWED = {'Simulate::stop_running': 'signal flag of the simulator', 'command_name_generator': 'readline completion cursor'}


def glob(prog):
    """R-GLOB: no function of asm/, core/, disasm/, table/, fileio/, common/ stores to a variable with static
    storage (hidden state shared between assemblies in one process)."""
    obs = []
    n_ok = 0
    for name, lst in sorted(prog.global_writes().items()):
        for fn, n in lst:
            if not fn.file.startswith(('asm/', 'core/', 'disasm/', 'table/', 'fileio/', 'common/', 'main/', 'simulate/')):
                continue
            allowed = name in GLOB_ALLOWED or fn.name in GLOB_ALLOWED or fn.file.startswith(('main/', 'simulate/'))
            obs.append(Ob('R-GLOB', fn.file, n['l'], fn.q, 'store:' + name, DISCHARGED if allowed else VIOLATED,
                          '' if allowed else 'store to static-storage variable `%s`: state survives from one assembly/disassembly to '
                          'the next in the same process' % name, 'allowed: ' + GLOB_ALLOWED.get(name, GLOB_ALLOWED.get(fn.name, 'driver-level state')), False))
    # the rule's expected count outside main/simulate is zero: positive control = the global-store index itself works
    total_fns = len(prog.fns)
    obs.append(Ob('R-GLOB', 'core/', 0, '*', 'scan', DISCHARGED, '', 'scanned %d functions for stores rooted at static-storage variables' % total_fns, False))
    return RuleResult('R-GLOB', obs, 1, {})


def pure(prog, cg):
    """R-PURE: everything reachable from list_output_*, disasm_range_*, disasm_* only reads the image."""
    from rules.tbl import cpu_rows
    rows, _, g = cpu_rows(prog)
    roots = set()
    for r in rows:
        for col in ('list_output', 'disasm_range'):
            f = tables.funcref(r[col])
            if f:
                roots.add(f)
    reach = cg.reachable(roots)
    obs = []
    forbidden = ('Memory::write8', 'Memory::write', 'Memory::write16', 'Memory::write32', 'Memory::write_debug',
                 'AsmContext::memory_write', 'AsmContext::memory_write_inc', 'add_bin8', 'add_bin16', 'add_bin32',
                 'Symbols::append', 'Symbols::set', 'AsmContext::set_org', 'Memory::clear')
    for q in sorted(reach):
        fn = prog.by_key.get(q)
        if fn is None or not fn.file.startswith('disasm/'):
            continue
        bad = []
        for c in fn.calls():
            if callee(c) in forbidden:
                bad.append('calls %s at line %d' % (callee(c), c['l']))
        for n in fn.nodes.values():
            t = None
            if n['k'] in ('BinaryOperator', 'CompoundAssignOperator') and n.get('op', '').endswith('=') and \
                    n['op'] not in ('==', '!=', '<=', '>='):
                t = strip(kids(n)[0])
            elif n['k'] == 'UnaryOperator' and n.get('op') in ('++', '--'):
                t = strip(kids(n)[0])
            if t is None:
                continue
            if t['k'] == 'MemberExpr' and t.get('rec') in ('AsmContext', 'Memory', 'MemoryPage', 'Symbols', 'Tokens'):
                bad.append('stores to %s::%s at line %d' % (t['rec'], t['n'], n['l']))
            r0 = lvalue_root(t)
            if r0 is not None and r0['k'] == 'DeclRefExpr' and r0.get('dk') in ('global', 'slocal'):
                bad.append('stores to static `%s` at line %d' % (r0['n'], n['l']))
        obs.append(Ob('R-PURE', fn.file, fn.line, fn.q, 'read-only', VIOLATED if bad else DISCHARGED,
                      '; '.join(bad[:3]), 'no image/symbol/context store, no static store', False))
    return RuleResult('R-PURE', obs, 150, {'roots': len(roots)})


OPTION_FIELDS = ('quiet_output', 'dump_symbols', 'dump_macros', 'list', 'write_list_file')


def opt(prog, cg):
    """R-OPT: a branch whose condition reads a reporting option (quiet_output, dump_symbols, dump_macros, list,
    write_list_file, main's create_list) controls only reporting: nothing in the controlled statements can reach a
    function that writes the image / symbols or consumes input, except the CPU's list_output formatter."""
    obs = []
    sink_cache = {}

    def reaches_sink(key):
        if key not in sink_cache:
            r = cg.reachable([key])
            sink_cache[key] = sorted(x for x in r if x in IMAGE_SINKS)
        return sink_cache[key]
    for fn in prog.functions(lambda f: f.file.startswith(('core/', 'main/naken_asm', 'asm/'))):
        k = 0
        for n in sorted(fn.nodes.values(), key=lambda x: x['i']):
            if n['k'] != 'IfStmt':
                continue
            ks = [x for x in kids(n) if x is not None]
            if len(ks) < 2:
                continue
            cond = ks[0]
            reads = {x['n'] for x in walk(cond) if (x['k'] == 'MemberExpr' and x['n'] in OPTION_FIELDS and x.get('rec') == 'AsmContext')
                     or (x['k'] == 'DeclRefExpr' and x['n'] == 'create_list')}
            if not reads:
                continue
            k += 1
            bad = []
            for body in ks[1:]:
                for x in walk(body):
                    if x['k'] in ('CallExpr', 'CXXMemberCallExpr'):
                        ck = ckey(x)
                        if ck is None:
                            tgt = strip(kids(x)[0], casts=True)
                            if tgt.get('n') == 'list_output':
                                continue
                            bad.append('indirect call at line %d' % x['l'])
                        elif ck in IMAGE_SINKS or reaches_sink(ck):
                            bad.append('%s (reaches %s) at line %d' % (ck, (reaches_sink(ck) or [ck])[0], x['l']))
                    elif x['k'] in ('BinaryOperator', 'CompoundAssignOperator') and x.get('op', '').endswith('=') and \
                            x['op'] not in ('==', '!=', '<=', '>='):
                        t = strip(kids(x)[0])
                        if t['k'] == 'MemberExpr' and t.get('rec') in ('AsmContext', 'Memory', 'Symbols') and \
                                t['n'] not in ('write_list_file', 'list'):
                            bad.append('assigns %s::%s at line %d' % (t['rec'], t['n'], x['l']))
            obs.append(Ob('R-OPT', fn.file, n['l'], fn.q, 'option-branch#%d:%s' % (k, '+'.join(sorted(reads))),
                          VIOLATED if bad else DISCHARGED,
                          'statements controlled by a reporting option affect assembly: ' + '; '.join(bad[:3]) if bad else '',
                          'controls only reporting statements'))
    return RuleResult('R-OPT', obs, 8, {})


def fresh(prog):
    """FRESH: naken_util's assemble_code() builds its AsmContext locally (automatic storage) and copies only the
    [low, high] image range into the shared memory."""
    fn = prog.fn('assemble_code')
    local_ctx = False
    for n in fn.nodes.values():
        if n['k'] == 'DeclStmt':
            for d in n.get('decls', ()):
                if fn.types[d['t']] == 'AsmContext' and not d.get('static'):
                    local_ctx = True
    writes = [c for c in fn.calls() if callee(c) in ('Memory::write8',)]
    ok = local_ctx and len(writes) == 1
    obs = [Ob('FRESH', fn.file, fn.line, fn.q, 'fresh-context', DISCHARGED if ok else VIOLATED,
              '' if ok else 'assemble_code no longer assembles into a fresh automatic AsmContext (state can leak between interactive asm commands)',
              'AsmContext is a local automatic object; one copy loop into the shared memory', False)]
    return RuleResult('FRESH', obs, 1, {})

; 6502: same as fwd_forced_size_x.asm for ,y indexing (ldx has zp,y).
.6502
.org 0x1000
start:
  ldx <table,y
after:
  nop
  rts
.org 0x80
table:
  db 1, 2, 3

"""C09 (narrow): T-SIB(f) marker agreement, SAVE-RESTORE of include_parse, REPEAT copy loop, T-SIB(b) on macro pools,
R-ERR1 on macro definition/expansion results."""
from nk import report
from rules import sym, err, defstrip, dblstep
from . import common

EXPLANATION = (
    'Decides the structural clauses listed; does not decide the behaviour as a whole (textual equivalence of macro '
    'expansion is not a shape property). T-SIB(f): the parameter marker byte and index base written by macros_parse are '
    'the ones macros_expand_params and Macros::dump use. SAVE-RESTORE: include_parse puts back input file, file name, '
    'line number and listing switch on every path to its exit. REPEAT: .repeat copies exactly the image range assembled '
    'for its body, count-1 more times. T-SIB(b): macro pool walkers restart their offset per pool. R-ERR1: results of '
    'macros_append / macros_push_define / macros_parse / macros_expand_params are examined. DEFINE-STRIP: a define value collected character by character from the source passes macros_strip() before it is stored. STRIP-CUTS: every store of macros_strip() depends on a comment test, it removes nothing else. QUOTE-STATE: the argument-list nesting counter of macros_expand_params changes only under tests of every quote-state flag (string and character literal). DOUBLE-STEP: a for loop of core/, fileio/, common/ that steps its counter in the header does not step it again in the body (the include-path list keeps every character).')


def run(tier, t0):
    prog = common.program()
    table = err.load_table('err_table.json')
    e1 = err.err1(prog, lambda f: f.file.startswith('core/'), table, floor=10)
    e1.obs = [o for o in e1.obs if o.construct.split('#')[0] in ('macros_append', 'macros_push_define', 'macros_parse',
                                                                  'include_parse', 'parse_repeat', 'binfile_parse')]
    e1.floor = 6
    pw = sym.pool_walkers(prog, 8)
    pw.obs = [o for o in pw.obs if o.file == 'core/Macros.cpp']
    pw.floor = 3
    results = [sym.marker(prog), sym.save_restore(prog), sym.repeat(prog), pw, e1,
               sym.find_exhaustive(prog, lambda f: f.file == 'core/Macros.cpp', 1), sym.unget_eof(prog), defstrip.define_strip(prog), defstrip.strip_cuts(prog), defstrip.quote_state(prog), dblstep.double_step(prog)]
    return report.finish('C09', tier, results, EXPLANATION, [], common.TRUSTED, t0)

.thumb
  add sp, sp, #8
  add sp, sp, #264
  sub sp, sp, #32
  sub sp, sp, #288
  add sp, sp, #0
  add sp, sp, #256
  add sp, #256

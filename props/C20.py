"""C20 (partial): R-SWAP on the link chain, LINK-ORDER, RELOC, T-LANE in link_function_mips, R-ERR1/2 on link paths."""
from nk import report
from rules import sym, link, lane, err, growloop, utilsib
from . import common

EXPLANATION = (
    'Decides the structural clauses listed; does not decide the behaviour as a whole. R-SWAP: on every function and call '
    'of the link chain (AsmContext::link, Linker, imports_obj/ar, link_function_*) declaration and definition name their '
    'parameters in the same order and no two arguments named like two callee parameters are passed crosswise. '
    'LINK-ORDER: link() binds the symbol to the location counter immediately before emitting the function and hands '
    'offset/size/object to link_function in the order get_code_from_symbol filled them. RELOC: the jal patch keeps the '
    'opcode under 0xfc000000 and inserts the target masked to 26 bits. T-LANE: the word assembly in link_function_mips '
    'is little-/big-endian under the matching test. R-ERR1/R-ERR2: unresolved-symbol and unsupported-object paths '
    'return errors that link()/main propagate (R-ERR3 under C12). GROW-LOOP: no loop runs up to a snapshot (taken before the loop) of a size that a member function reachable from its body changes (functions appended to the link list while it is walked are still placed). NEXT-KEEP: a store to a `next` link stores null, initialises a node allocated in the same function, or is dominated by a null test of that link (no list node is dropped). R-SYM: the relocation symbol index r_info >> 8 is not masked narrower than 24 bits. Not decided: placement for arbitrary object files.')


def run(tier, t0):
    prog = common.program()
    table = err.load_table('err_table.json')

    def scope(fn):
        return fn.file in ('core/Linker.cpp', 'core/Linker.h', 'core/imports_obj.cpp', 'core/imports_ar.cpp',
                           'core/imports_get_int.cpp') or fn.q in ('AsmContext::link', 'AsmContext::link_file',
                                                                   'link_function_mips', 'link_not_supported')
    ln = lane.lanes(prog, 40)
    ln.obs = [o for o in ln.obs if o.function == 'link_function_mips' or o.file == 'core/imports_get_int.cpp']
    ln.floor = 4
    results = [link.swap(prog, scope, 20), link.link_order(prog), link.reloc(prog), link.name_exact(prog), ln,
               sym.find_exhaustive(prog, lambda f: f.file in ('core/Linker.cpp', 'core/imports_ar.cpp', 'core/imports_obj.cpp'), 4),
               err.err1(prog, scope, table, floor=3), err.err2(prog, scope, table, floor=3), growloop.grow_loop(prog, common.callgraph(), lambda f: f.file.startswith(('core/', 'fileio/', 'disasm/')), 5), utilsib.r_sym(prog), utilsib.next_keep(prog)]
    return report.finish('C20', tier, results, EXPLANATION, [], common.TRUSTED, t0)

"""T-LEN (encoder emission unit vs decoder lengths), T-TBL (sentinels), T-CPU (registry consistency)."""
from nk.facts import kids, strip, const, callee, ckey, show, walk
from nk import tables
from nk.report import Ob, RuleResult, DISCHARGED, VIOLATED, OBSERVATION
from nk.build import AnalysisBroken

EMIT = {'add_bin8': 1, 'add_bin16': 2, 'add_bin32': 4, 'AsmContext::memory_write_inc': 1,
        'AsmContext::memory_write': 1, 'Memory::write8': 1, 'Memory::write16': 2, 'Memory::write32': 4}


def cpu_rows(prog):
    rws, fields, g = tables.rows(prog, 'cpu_list')
    out = []
    for r in rws:
        if r and not tables.is_null(r.get('name')):
            out.append(r)
    return out, rws, g


def disasm_functions(prog, cg, range_fn):
    """disasm_<cpu>-style single-instruction decoders reachable from a disasm_range function."""
    out = []
    for q in cg.reachable([range_fn]):
        base = q.split('@')[0]
        if base.startswith('disasm_') and not base.startswith('disasm_range'):
            fn = prog.by_key.get(q)
            if fn is not None and fn.ret_type() == 'int':
                out.append(fn)
    return out


def return_values(fn):
    """(constants, non-constant return nodes) over CFG-listed returns."""
    consts, others = [], []
    for n in fn.nodes.values():
        if n['k'] == 'ReturnStmt' and kids(n) and fn.where.get(n['i']):
            v = const(kids(n)[0])
            if v is None:
                others.append(n)
            else:
                consts.append((v, n))
    return consts, others


def tlen(prog, cg):
    """Every constant length returned by a CPU's decoder is a positive multiple of the only unit its encoder
    emits; when the decoder returns a single constant it must equal that unit (fixed-size ISA)."""
    rows, _, g = cpu_rows(prog)
    obs = []
    seen = set()
    armed = []
    not_covered = []
    for r in rows:
        P, D = tables.funcref(r['parse_instruction']), tables.funcref(r['disasm_range'])
        name = tables.strval(r['name'])
        if P is None or D is None or (P, D) in seen:
            continue
        seen.add((P, D))
        units = {}
        for q in cg.reachable([P]):
            fn = prog.by_key.get(q)
            if fn is None or not fn.file.startswith('asm/'):
                continue
            for c in fn.calls():
                if callee(c) in EMIT:
                    units[callee(c)] = units.get(callee(c), 0) + 1
        widths = {EMIT[u] for u in units}
        if len(widths) != 1 or not units:
            not_covered.append('%s: encoder emits with %s' % (name, sorted(units) or 'no add_bin call'))
            continue
        W = widths.pop()
        if W == 1:
            not_covered.append('%s: byte-granular encoder (any length is a multiple of the unit)' % name)
            continue
        for d in disasm_functions(prog, cg, D):
            consts, others = return_values(d)
            if not consts:
                continue
            armed.append(name)
            for v, n in consts:
                construct = '%s:return %d' % (d.q, v)
                if v <= 0:
                    continue  # non-positive returns are R-PROG's business (C08)
                ok = v % W == 0
                if not others and len({x for x, _ in consts if x > 0}) == 1 and v != W and not _multi_emit(prog, cg, P):
                    ok = False
                obs.append(Ob('T-LEN', d.file, n['l'], d.q, construct, DISCHARGED if ok else VIOLATED,
                              '' if ok else 'decoder returns length %d but every emission reachable from %s is a %d-byte '
                              'unit: a walk over the emitted bytes loses step with the instruction stream' % (v, P, W),
                              'length %d is a multiple of the %d-byte emission unit of %s' % (v, W, P), False))
    return RuleResult('T-LEN', obs, 30, {'armed_cpus': sorted(set(armed)), 'not_covered': not_covered})


def _multi_emit(prog, cg, P):
    """Does some function reachable from P emit more than one unit on one path?  Approximated by: some
    function has two emission calls (copper emits two words per instruction)."""
    for q in cg.reachable([P]):
        fn = prog.by_key.get(q)
        if fn is None or not fn.file.startswith('asm/'):
            continue
        for n in fn.nodes.values():
            if n['k'] == 'CompoundStmt':
                cnt = sum(1 for ch in kids(n) if ch is not None and ch['k'] in ('CallExpr',) and callee(ch) in EMIT)
                if cnt >= 2:
                    return True
    return False


def ttbl(prog):
    """Every opcode table that a lookup loop walks to a null mnemonic has its sentinel row, and is never
    written at run time."""
    obs = []
    gw = prog.global_writes()
    ntab = 0
    for q, defs in sorted(prog.globals.items()):
        g = [d for d in defs if 'init' in d and d['file'].startswith('table/')]
        if not g:
            continue
        g = g[0]
        if 'bound' not in g:
            continue
        try:
            rws, fields, _ = tables.rows(prog, q, g['file'])
        except AnalysisBroken:
            continue
        if not fields:
            continue
        first = fields[0]
        # tables whose first field is a string pointer are walked to a null sentinel by `!= NULL` loops
        t = None
        rec = prog.records.get(tables.elem_record(prog, g))
        ft = rec['types'][rec['fields'][0]['t']] if rec else ''
        if 'char *' not in ft:
            continue
        # is the table walked to a null mnemonic anywhere?  (some are indexed by a fixed count instead)
        walked = _walked_to_null(prog, q, first)
        if not walked:
            continue
        ntab += 1
        last = rws[-1] if rws else None
        has_sentinel = last is not None and (not last or tables.is_null(last.get(first)))
        obs.append(Ob('T-TBL', g['file'], g['line'], q, 'sentinel', DISCHARGED if has_sentinel else VIOLATED,
                      '' if has_sentinel else 'table %s is walked until %s == NULL (%s) but its last row is not a '
                      'null sentinel: every unknown mnemonic reads past the array' % (q, first, walked),
                      '%d rows, last row null; walked by %s' % (len(rws), walked), False))
        if gw.get(q):
            fn, n = gw[q][0]
            obs.append(Ob('T-TBL', fn.file, n['l'], fn.q, 'write:' + q, VIOLATED,
                          'opcode table %s is modified at run time' % q))
    return RuleResult('T-TBL', obs, 40, {'tables': ntab})


_walk_cache = {}


def _walked_to_null(prog, tname, field):
    """Name of a function with a loop condition `<tname>[i].<field> != NULL`."""
    if not _walk_cache:
        for fn in prog.fns.values():
            for b in fn.blocks.values():
                c = fn.nodes.get(b.get('cond'))
                if c is None or b.get('termk') not in ('WhileStmt', 'ForStmt'):
                    continue
                c = strip(c)
                if c['k'] == 'BinaryOperator' and c.get('op') == '!=':
                    l = strip(kids(c)[0], casts=True)
                    if l['k'] == 'MemberExpr' and kids(l):
                        base = strip(kids(l)[0])
                        if base['k'] == 'ArraySubscriptExpr':
                            arr = strip(kids(base)[0])
                            if arr['k'] == 'DeclRefExpr' and arr.get('dk') == 'global':
                                _walk_cache.setdefault((arr['n'], l['n']), fn.q)
    return _walk_cache.get((tname, field))


def tcpu(prog):
    """cpu_list rows: bytes_per_address in {1,2,4,8}; the function pointers that are called without a null
    test are non-null; names unique; sentinel present."""
    rows, allrows, g = cpu_rows(prog)
    obs = []
    if len(rows) == len(allrows):
        obs.append(Ob('T-CPU', g['file'], g['line'], 'cpu_list', 'sentinel', VIOLATED,
                      'cpu_list has no terminating row with a null name'))
    names = {}
    for r in rows:
        nm = tables.strval(r['name'])
        line = r['name']['l']
        bpa = const(r['bytes_per_address'])
        probs = []
        if bpa not in (1, 2, 4, 8):
            probs.append('bytes_per_address is %s (used as divisor/scale)' % bpa)
        for col in ('parse_instruction', 'list_output', 'disasm_range', 'link_function'):
            if tables.funcref(r.get(col)) is None:
                probs.append('%s is null but is called without a null test' % col)
        if nm in names:
            probs.append('duplicate name (first at line %d): the second entry can never be selected' % names[nm])
        names.setdefault(nm, line)
        al = const(r['alignment'])
        if al is None or al < 1:
            probs.append('alignment is %s' % al)
        obs.append(Ob('T-CPU', g['file'], line, 'cpu_list', 'row:' + str(nm), VIOLATED if probs else DISCHARGED,
                      '; '.join(probs), 'bytes_per_address=%s, handlers non-null' % bpa, False))
    return RuleResult('T-CPU', obs, 60, {'rows': len(rows)})

.epiphany
  ldr r1,[r2,#2148]

"""C10 (partial): T-SIB(c), IFOP, IFDEF-TBL, ELSE-GUARD, R-ERR1/R-ERR2 on the conditional machinery."""
from nk import report
from rules import cond, err
from . import common

EXPLANATION = (
    'Decides the structural clauses listed; does not decide the behaviour as a whole. IFOP: the 7 condition operator '
    'tokens map to the operation/precedence of the documented grammar (|| < && < relational) and each operation of '
    'eval_operation equals the C operator on an exhaustive small operand grid. IFDEF-TBL: the 2x2 decision table of '
    '.ifdef/.ifndef and the skip/assemble order around .else are the documented ones. T-SIB(c): the skip loop counts '
    'exactly the openers the directive parser opens. ELSE-GUARD: stray .else/.endif are errors. R-ERR1/R-ERR2: every error '
    'result of parse_if/parse_ifdef/ifdef_ignore/nested assemble()/the condition evaluator is propagated. Not decided: '
    'branch selection for arbitrary nesting. NOT-APPLY: every completion of an operand in the condition evaluator passes the test that applies a pending `!`.')


def run(tier, t0):
    prog = common.program()
    table = err.load_table('err_table.json')

    def scope(fn):
        return fn.file in ('core/directives_if.cpp', 'core/ifdef_expression.cpp') or fn.q == 'parse_directives'
    results = [cond.ifop(prog), cond.openers(prog), cond.ifdef_table(prog), cond.else_guard(prog), cond.ifdef_raw(prog), cond.tok_op(prog), cond.ret_store(prog), cond.endif_protocol(prog), cond.not_apply(prog),
               err.err1(prog, scope, table, floor=8), err.err2(prog, scope, table, floor=10)]
    return report.finish('C10', tier, results, EXPLANATION, [], common.TRUSTED, t0)

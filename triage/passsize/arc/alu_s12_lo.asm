.arc
start:
  add r1, r1, fwd
after:
  nop_s
.set fwd=-5000

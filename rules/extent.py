"""READ-EXTENT (C08): a single-instruction decoder does not build its text from a byte beyond the length it reports.

For every decoder disasm_X(memory, address, ...) (the functions R-PROG takes as decoders):
  * a *read* is a call Memory::read8/16/32(address + O) whose offset O is a linear form over never-reassigned
    integer locals/parameters (locals with a single initialiser over such symbols are unfolded);
  * a *return* is `return L` with L a linear form of the same kind;
  * the read is *used* when its value reaches the text: it (or a local it is stored in, not overwritten on the way) occurs in
    an argument of a formatting call (snprintf/sprintf/strcat helpers) or in a branch condition between the read and the return.
A violation is a pair (read, return) with
  (O + width - 1) - L  a constant >= 0                                  -- the byte lies at or beyond address + L
and a path read -> use -> return that never takes the two edges of one textually identical condition in opposite
directions (unless a variable of the condition is stored in between).  The difference must be a *constant*, so the verdict
does not depend on the values of the symbols; pairs whose difference is symbolic are not decided.
"""
import os
import sys
from nk.facts import kids, strip, const, callee, ckey, show, walk, call_args
from nk.report import Ob, RuleResult, DISCHARGED, VIOLATED, OBSERVATION
from nk.build import AnalysisBroken
from nk.cfg import dominators

WIDTH = {'Memory::read8': 1, 'Memory::read16': 2, 'Memory::read32': 4}
FORMAT = ('snprintf', 'sprintf', 'strcat', 'strcpy', 'strncat', 'printf', 'fprintf')


def _stored(fn):
    st = {}
    for n in fn.nodes.values():
        tgt = None
        if n['k'] in ('BinaryOperator', 'CompoundAssignOperator') and (
                n.get('op') == '=' or (n.get('op', '').endswith('=') and n['op'] not in ('==', '!=', '<=', '>='))):
            tgt = strip(kids(n)[0])
        elif n['k'] == 'UnaryOperator' and n.get('op') in ('++', '--', '&'):
            tgt = strip(kids(n)[0])
        if tgt is not None and tgt['k'] == 'DeclRefExpr':
            st.setdefault(tgt.get('d'), []).append(n)
    return st


def _inits(fn):
    out = {}
    for n in fn.nodes.values():
        if n['k'] == 'DeclStmt':
            for d, i in zip([x for x in n.get('decls', ()) if x.get('init')], kids(n)):
                out[d['d']] = i
    return out


class Lin:
    """Linear forms {symbol(decl id): coef} + const over symbols that are never stored after their definition."""

    def __init__(self, fn):
        self.fn = fn
        self.stored = _stored(fn)
        self.inits = _inits(fn)
        self.names = {}

    def lin(self, n, depth=0):
        n = strip(n, casts=True)
        if n is None or depth > 8:
            return None
        v = const(n)
        if v is not None:
            return ({}, v)
        k = n['k']
        if k == 'DeclRefExpr':
            d = n.get('d')
            if d is None or n.get('dk') not in (None, 'var', 'parm', 'Var', 'ParmVar'):
                pass
            self.names[d] = n.get('n')
            if self.stored.get(d):
                # a symbol that is stored somewhere: usable only between program points with no store in between
                # (the caller freezes it on the path)
                return ({d: 1}, 0)
            if d in self.inits:
                u = self.lin(self.inits[d], depth + 1)
                # unfold only initialisers over symbols that never change
                if u is not None and not any(self.stored.get(k_) for k_ in u[0]):
                    return u
            return ({d: 1}, 0)
        if k == 'BinaryOperator' and n.get('op') in ('+', '-'):
            a = self.lin(kids(n)[0], depth + 1)
            b = self.lin(kids(n)[1], depth + 1)
            if a is None or b is None:
                return None
            s = 1 if n['op'] == '+' else -1
            m = dict(a[0])
            for kk, c in b[0].items():
                m[kk] = m.get(kk, 0) + s * c
                if m[kk] == 0:
                    del m[kk]
            return (m, a[1] + s * b[1])
        if k == 'BinaryOperator' and n.get('op') == '*':
            a = self.lin(kids(n)[0], depth + 1)
            b = self.lin(kids(n)[1], depth + 1)
            if a is None or b is None:
                return None
            if not a[0]:
                a, b = b, a
            if b[0]:
                return None
            return ({kk: c * b[1] for kk, c in a[0].items() if c * b[1]}, a[1] * b[1])
        return None


def _sub(a, b):
    m = dict(a[0])
    for kk, c in b[0].items():
        m[kk] = m.get(kk, 0) - c
        if m[kk] == 0:
            del m[kk]
    return (m, a[1] - b[1])


def _cond_text(fn, b):
    bb = fn.blocks[b]
    cn = fn.nodes.get(bb.get('cond')) if 'cond' in bb else None
    if cn is None or len(bb['s']) != 2:
        return None, None
    own = strip(cn)
    # the last operand of a && / || chain is what this block tests
    while own['k'] == 'BinaryOperator' and own.get('op') in ('&&', '||'):
        own = strip(kids(own)[1])
    if any(x['k'] in ('CallExpr', 'CXXMemberCallExpr') for x in walk(own)):
        return None, None
    vs = frozenset(x.get('d') for x in walk(own) if x['k'] == 'DeclRefExpr' and x.get('d') is not None)
    return show(own), vs


def _block_stores(fn, stored):
    """block -> set of decl ids stored in it."""
    out = {}
    for d, ns in stored.items():
        for n in ns:
            w = fn.where.get(n['i'])
            if w:
                out.setdefault(w[0], set()).add(d)
    return out


def _block_kills(fn, stored, exempt=None):
    """block -> decl ids overwritten there with a value that does not derive from the old one (`v = e` with v not in e)."""
    out = {}
    for d, ns in stored.items():
        for n in ns:
            if n['k'] == 'BinaryOperator' and n.get('op') == '=' and n['i'] != exempt and \
                    not any(x['k'] == 'DeclRefExpr' and x.get('d') == d for x in walk(kids(n)[1])):
                w = fn.where.get(n['i'])
                if w:
                    out.setdefault(w[0], set()).add(d)
    return out


def _path(fn, src, dst, bstores, must=None, frozen=frozenset(), limit=20000, kills=None, frozen2=frozenset()):
    """Is there a path of blocks src -> dst (through block `must` if given) that is consistent on repeated conditions and
    stores none of `frozen` after leaving src?  Returns True / False / None (search limit hit)."""
    ctext = {}
    kills = kills if kills is not None else bstores
    for b in fn.blocks:
        ctext[b] = _cond_text(fn, b)
    steps = 0
    # state: (block, frozenset of (text, edge index)), seen `must`
    start = (src, frozenset(), must is None or src == must)
    st = [start]
    seen = set()
    while st:
        b, facts, got = st.pop()
        if (b, facts, got) in seen:
            continue
        seen.add((b, facts, got))
        steps += 1
        if steps > limit:
            return None
        if b != src and (kills.get(b, set()) & frozen or bstores.get(b, set()) & frozen2):
            continue
        if b == dst and got:
            return True
        # stores in this block invalidate facts about the stored variables
        sd = bstores.get(b, ())
        txt, vs = ctext[b]
        f2 = facts
        if sd:
            f2 = frozenset((t, e, v) for (t, e, v) in facts if not (v & set(sd)))
        succ = fn.blocks[b]['s']
        for i, s in enumerate(succ):
            if s is None:
                continue
            f3 = f2
            if txt is not None:
                if any(t == txt and e != i for (t, e, v) in f2):
                    continue
                f3 = f2 | {(txt, i, vs)}
            st.append((s, f3, got or s == must))
    return False


def _uses(fn, read, stored):
    """Blocks where the value of the read call reaches text or a branch: the call itself inside a formatting argument
    or condition, or a local it is assigned to occurring there.  Returns (list of (block, why)), local decl or None."""
    # climb to the statement holding the read
    p = fn.parent.get(read['i'])
    holder = None
    defining = None
    node = read
    while p is not None:
        if p['k'] in ('CallExpr',) and callee(p) and callee(p).split('(')[0] in FORMAT:
            w = fn.where.get(p['i'])
            return ([(w[0], 'argument of %s' % callee(p).split('(')[0])] if w else []), None, None
        if p['k'] in ('BinaryOperator', 'CompoundAssignOperator') and p.get('op', '').endswith('=') and \
                p['op'] not in ('==', '!=', '<=', '>=') and kids(p)[1] is not None:
            # is the read on the right-hand side?
            rhs_ids = {x['i'] for x in walk(kids(p)[1])}
            if read['i'] in rhs_ids:
                t = strip(kids(p)[0])
                if t['k'] == 'DeclRefExpr':
                    holder = t.get('d')
                    defining = p['i']
                break
        if p['k'] == 'DeclStmt':
            for d, i in zip([x for x in p.get('decls', ()) if x.get('init')], kids(p)):
                if read['i'] in {x['i'] for x in walk(i)}:
                    holder = d['d']
            break
        node = p
        p = fn.parent.get(p['i'])
    uses = []
    if holder is None:
        # used directly in a condition?
        for b, bb in fn.blocks.items():
            cn = fn.nodes.get(bb.get('cond')) if 'cond' in bb else None
            if cn is not None and read['i'] in {x['i'] for x in walk(cn)}:
                uses.append((b, 'branch condition'))
        return uses, None, None
    for n in fn.nodes.values():
        if n['k'] == 'CallExpr' and callee(n) and callee(n).split('(')[0] in FORMAT:
            for a in call_args(n):
                if any(x['k'] == 'DeclRefExpr' and x.get('d') == holder for x in walk(a)):
                    w = fn.where.get(n['i'])
                    if w:
                        uses.append((w[0], 'argument of %s' % callee(n).split('(')[0]))
    for b, bb in fn.blocks.items():
        cn = fn.nodes.get(bb.get('cond')) if 'cond' in bb else None
        if cn is not None and any(x['k'] == 'DeclRefExpr' and x.get('d') == holder for x in walk(cn)):
            uses.append((b, 'branch condition `%s`' % show(cn)[:50]))
    return uses, holder, defining


def read_extent(prog, cg, floor=100):
    from rules.prog import decoder_functions
    roots, decs = decoder_functions(prog, cg)
    obs = []
    nreads = nret = npairs = 0
    for q, fn in sorted(decs.items()):
        ap = [p for p in fn.params() if p.get('n') == 'address']
        if not ap:
            continue
        ad = ap[0]['d']
        L = Lin(fn)
        if L.stored.get(ad):
            continue
        bst = _block_stores(fn, L.stored)
        bkl = _block_kills(fn, L.stored)
        reads = []
        for c in fn.calls():
            w_ = WIDTH.get((callee(c) or '').split('(')[0])
            if not w_ or not call_args(c):
                continue
            lf = L.lin(call_args(c)[0])
            if lf is None or lf[0].get(ad) != 1:
                continue
            off = ({k: v for k, v in lf[0].items() if k != ad}, lf[1])
            wb = fn.where.get(c['i'])
            if wb is None:
                continue
            reads.append((c, off, w_, wb[0]))
        rets = []
        for n in fn.nodes.values():
            if n['k'] == 'ReturnStmt' and kids(n):
                lf = L.lin(kids(n)[0])
                wb = fn.where.get(n['i'])
                if lf is None or wb is None or ad in lf[0]:
                    continue
                if not lf[0] and lf[1] <= 0:
                    continue            # error return
                rets.append((n, lf, wb[0]))
        nreads += len(reads)
        nret += len(rets)
        usecache = {}
        dom = dominators(fn)
        for c, off, w_, rb in reads:
            last = (off[0], off[1] + w_ - 1)
            bad = None
            soft = None
            for r, lf, retb in rets:
                d = _sub(last, lf)
                if d[0] or d[1] < 0:
                    continue
                vol = frozenset(k_ for k_ in list(last[0]) + list(lf[0]) if L.stored.get(k_))
                if vol:
                    # stores after the read inside its own block
                    late = False
                    for k_ in vol:
                        for sn in L.stored[k_]:
                            ws = fn.where.get(sn['i'])
                            wr = fn.where.get(c['i'])
                            if ws and wr and ws[0] == wr[0] and ws[1] > wr[1]:
                                late = True
                    if late:
                        continue
                npairs += 1
                if c['i'] not in usecache:
                    usecache[c['i']] = _uses(fn, c, L.stored)
                uses, holder, defining = usecache[c['i']]
                bkl = _block_kills(fn, {holder: L.stored.get(holder, [])}, defining) if holder is not None else {}
                frozen = frozenset([holder]) if holder is not None else frozenset()
                for ub, why in uses:
                    fmt = why.startswith('argument of')
                    # armed only when the formatting call lies on every path to the return (text written there is what is
                    # returned); tests on the byte (prefix tables falling back to a shorter decode) are listed, not decided
                    if fmt and ub not in dom[retb]:
                        continue
                    p1 = _path(fn, rb, retb, bst, must=ub, frozen=frozen, kills=bkl, frozen2=vol)
                    if p1:
                        if fmt:
                            bad = (r, lf, why, ub)
                            break
                        elif soft is None:
                            soft = (r, lf, why, ub)
                if bad:
                    break
            if bad:
                r, lf, why, ub = bad
                obs.append(Ob('READ-EXTENT', fn.file, c['l'], fn.q, '%s->return %s' % (show(c)[:60], show(kids(r)[0])[:30]),
                              VIOLATED,
                              '`%s` reads the byte at address+%s, its value is used (%s) and the decoder then returns `%s` '
                              '(line %d): the text depends on a byte beyond the reported length, which the range printer decodes '
                              'again as the next instruction' % (
                                  show(c), _fmt(L, last), why, show(kids(r)[0]), r['l'])))
            elif soft:
                r, lf, why, ub = soft
                obs.append(Ob('READ-EXTENT', fn.file, c['l'], fn.q, '%s->return %s' % (show(c)[:60], show(kids(r)[0])[:30]),
                              OBSERVATION,
                              'the byte at address+%s is tested (%s) on a path to `return %s`: a longer form is tried first and the '
                              'decoder falls back to a shorter one; not decided' % (_fmt(L, last), why, show(kids(r)[0]))))
            else:
                obs.append(Ob('READ-EXTENT', fn.file, c['l'], fn.q, show(c)[:70], DISCHARGED, '',
                              'no return L with (offset + width - 1) - L a constant >= 0 lies on a consistent path after a use', True))
    if nreads < floor:
        raise AnalysisBroken('READ-EXTENT: only %d reads with a linear offset in the decoders' % nreads)
    return RuleResult('READ-EXTENT', obs, floor, {'decoders': len(decs), 'reads': nreads, 'returns': nret, 'pairs_checked': npairs})


def _fmt(L, lf):
    parts = []
    for d, c in lf[0].items():
        nm = L.names.get(d, '?')
        parts.append(nm if c == 1 else '%d*%s' % (c, nm))
    parts.append(str(lf[1]))
    return '+'.join(parts)


# ---------------------------------------------------------------------------------------------------------------------
# RUN-EXTENT: the same obligation for decoders that keep a *running* position: `address += 2; count += 2; read16(address)`
# (tms9900, 68000-style extension words).  READ-EXTENT above needs never-reassigned symbols; here the reassigned integer
# locals/parameters whose every store is affine (`v = lin`, `v += lin`, `v++`) are propagated along CFG paths as linear
# forms over the entry values, so `address + k` at a read and `count` at the return become comparable again.  The value read
# is followed through local assignments; it is *used* when it (or a local derived from it) is an argument of a call.

def _subst(lf, env, params):
    if lf is None:
        return None
    m, c = {}, lf[1]
    for a, k in lf[0].items():
        if a in env:
            v = env[a]
            if v is None:
                return None
            for a2, k2 in v[0]:
                m[a2] = m.get(a2, 0) + k * k2
            c += k * v[1]
        else:
            m[a] = m.get(a, 0) + k
    return (tuple(sorted((a, k) for a, k in m.items() if k)), c)


CAP = 48
_ROWVALS = {}


def _rowvals(prog, table):
    """rows of a constant table as {field: int | [int, ...]} (fields that are not integer constants are left out)."""
    if table not in _ROWVALS:
        from nk import tables
        out = None
        try:
            rows, fields, g = tables.rows(prog, table)
            out = []
            for r in rows:
                d = {}
                for f_, e in r.items():
                    if e is None:
                        continue
                    if e['k'] == 'InitListExpr':
                        vs_ = [const(x) for x in kids(e)]
                        if all(v is not None for v in vs_):
                            d[f_] = vs_
                    else:
                        v = const(e)
                        if v is not None:
                            d[f_] = v
                out.append(d)
        except Exception:
            out = None
        _ROWVALS[table] = out
    return _ROWVALS[table]


_CMP = {'<': lambda a, b: a < b, '<=': lambda a, b: a <= b, '>': lambda a, b: a > b, '>=': lambda a, b: a >= b,
        '==': lambda a, b: a == b, '!=': lambda a, b: a != b}


def _rows_ok(prog, table, cons):
    """Is there a row of the table satisfying every constraint ((R, table, idx, field, ci), (mode, val))?"""
    for r_ in _rowvals(prog, table):
        good = True
        for (_, _, _, f_, ci), (mode, vals) in cons:
            rv = r_.get(f_)
            if isinstance(rv, list):
                rv = rv[ci] if ci is not None and 0 <= ci < len(rv) else None
            if rv is None:
                continue
            if mode == 'cmp':
                op, cv, truth = vals
                if _CMP[op](cv, rv) != truth:
                    good = False
                    break
            elif (rv in vals) != (mode == 'in'):
                good = False
                break
        if good:
            return True
    return False


def _row_member(prog, fn, e):
    """table_X[IDX].F  ->  (table, idx text, idx vars, field) for a constant table with known rows."""
    c = strip(e, casts=True)
    if c is None or c['k'] != 'MemberExpr' or c.get('arrow'):
        return None
    base = strip(kids(c)[0], casts=True)
    if base['k'] != 'ArraySubscriptExpr':
        return None
    t = strip(kids(base)[0], casts=True)
    if t['k'] != 'DeclRefExpr' or t.get('dk') != 'global' or not _rowvals(prog, t['n']):
        return None
    idx = kids(base)[1]
    if any(x['k'] in ('CallExpr', 'CXXMemberCallExpr') for x in walk(idx)):
        return None
    vs = frozenset(x.get('d') for x in walk(idx) if x['k'] == 'DeclRefExpr' and x.get('d') is not None)
    return (t['n'], show(idx), vs, c['n'])


def _liveness(fn, keep):
    """block -> decl ids live on entry (block granularity; a plain `v = e` / declaration kills v when v is not read in the block)."""
    use, kill = {}, {}
    for b, bb in fn.blocks.items():
        u, k = set(), set()
        tgt = set()
        for nid in bb['e']:
            n = fn.nodes.get(nid)
            if n is None:
                continue
            if n['k'] == 'BinaryOperator' and n.get('op') == '=':
                t = strip(kids(n)[0])
                if t['k'] == 'DeclRefExpr':
                    tgt.add(t['i'])
                    k.add(t.get('d'))
            elif n['k'] == 'DeclStmt':
                for dd in n.get('decls', ()):
                    k.add(dd['d'])
        for nid in list(bb['e']) + ([bb['cond']] if 'cond' in bb else []):
            n = fn.nodes.get(nid)
            if n is not None and n['k'] == 'DeclRefExpr' and nid not in tgt:
                u.add(n.get('d'))
        if 'cond' in bb and fn.nodes.get(bb['cond']) is not None:
            for x in walk(fn.nodes[bb['cond']]):
                if x['k'] == 'DeclRefExpr':
                    u.add(x.get('d'))
        use[b], kill[b] = u, k - u
    live = {b: set(use[b]) | keep for b in fn.blocks}
    changed = True
    while changed:
        changed = False
        for b, bb in fn.blocks.items():
            out = set()
            for s_ in bb['s']:
                if s_ is not None:
                    out |= live[s_]
            new = use[b] | (out - kill[b]) | keep
            if new != live[b]:
                live[b] = new
                changed = True
    return live


def _row_switches(prog, fn, counters):
    """switch blocks over table_X[IDX].F or table_X[IDX].F[C] (C a propagated loop counter or a constant):
    block -> (table, idx text, idx vars, field, counter decl | None, constant index | None, [allowed set per successor], all case values)"""
    out = {}
    for b, bb in fn.blocks.items():
        if bb.get('termk') != 'SwitchStmt' or 'cond' not in bb:
            continue
        c = strip(fn.nodes.get(bb['cond']), casts=True)
        cdecl = cidx = None
        if c is None:
            continue
        if c['k'] == 'ArraySubscriptExpr' and strip(kids(c)[0], casts=True)['k'] == 'MemberExpr':
            ix = strip(kids(c)[1], casts=True)
            if ix['k'] == 'DeclRefExpr' and ix.get('d') in counters:
                cdecl = ix['d']
            elif const(ix) is not None:
                cidx = const(ix)
            else:
                continue
            c = strip(kids(c)[0], casts=True)
        if c['k'] != 'MemberExpr' or c.get('arrow'):
            continue
        base = strip(kids(c)[0], casts=True)
        if base['k'] != 'ArraySubscriptExpr':
            continue
        t = strip(kids(base)[0], casts=True)
        if t['k'] != 'DeclRefExpr' or t.get('dk') != 'global':
            continue
        rows = _rowvals(prog, t['n'])
        if not rows:
            continue
        idx = kids(base)[1]
        vs = frozenset(x.get('d') for x in walk(idx) if x['k'] == 'DeclRefExpr' and x.get('d') is not None)
        if any(x['k'] in ('CallExpr', 'CXXMemberCallExpr') for x in walk(idx)):
            continue
        allowed = []
        allv = set()
        for s_ in bb['s']:
            lab = fn.nodes.get(fn.blocks[s_].get('label')) if s_ is not None else None
            if lab is not None and lab['k'] == 'CaseStmt' and lab.get('v') is not None:
                allowed.append(frozenset([lab['v']]))
                allv.add(lab['v'])
            else:
                allowed.append(None)
        out[b] = (t['n'], show(idx), vs, c['n'], cdecl, cidx, allowed, frozenset(allv))
    return out


def _tmax(a, b):
    """taint values: tuples of (symkey, const), one per symkey, the larger const wins."""
    if not a:
        return b
    if not b:
        return a
    m = dict(a)
    for k, c in b:
        if k not in m or m[k] < c:
            m[k] = c
    return tuple(sorted(m.items()))


_RUN_CACHE = {}


def run_extent(prog, cg, floor=10, limit=80000):
    return _run(prog, cg, limit)[0].with_floor(floor) if False else _floor(_run(prog, cg, limit)[0], floor, 'decoders with a running position')


def run_cover(prog, cg, floor=10, limit=80000):
    return _floor(_run(prog, cg, limit)[1], floor, 'decoders whose reads all have constant offsets on some path')


def _floor(res, floor, what):
    if len(res.obs) < floor:
        raise AnalysisBroken('%s: only %d %s' % (res.rule, len(res.obs), what))
    res.floor = floor
    return res


def _run(prog, cg, limit):
    if id(prog) in _RUN_CACHE:
        return _RUN_CACHE[id(prog)]
    from rules.prog import decoder_functions
    roots, decs = decoder_functions(prog, cg)
    obs = []
    cobs = []
    nfn = nreads = ncov = 0
    for q, fn in sorted(decs.items()):
        ap = [p for p in fn.params() if p.get('n') == 'address']
        if not ap:
            continue
        ad = ap[0]['d']
        params = {p_['d'] for p_ in fn.params()}
        tp = [p_ for p_ in fn.params() if p_.get('n') == 'instruction']
        textd = tp[0]['d'] if tp else None
        L = Lin(fn)
        reads = {}
        for c in fn.calls():
            w_ = WIDTH.get((callee(c) or '').split('(')[0])
            if not w_ or not call_args(c):
                continue
            lf = L.lin(call_args(c)[0])
            if lf is None:
                continue
            reads[c['i']] = (c, lf, w_)
        rets = {}
        for n in fn.nodes.values():
            if n['k'] == 'ReturnStmt' and kids(n):
                lf = L.lin(kids(n)[0])
                if lf is not None:
                    rets[n['i']] = (n, lf)
        # only the decoders READ-EXTENT cannot decide: a running address or a running returned length
        running = bool(L.stored.get(ad)) or any(any(L.stored.get(a) for a in lf[0]) for _, lf in rets.values()) \
            or any(any(L.stored.get(a) for a in lf[0] if a != ad) for _, lf, _w in reads.values())
        if not reads or not rets or textd is None:
            continue
        if running:
            nfn += 1
        nreads += len(reads)
        # the variables the offsets / returned lengths depend on are propagated (a table index `n++` is not)
        rel = set()
        for _, lf, _w in reads.values():
            rel |= set(lf[0])
        for _, lf in rets.values():
            rel |= set(lf[0])
        affine = {}          # node id -> (decl, kind, lin)
        for d, ns in L.stored.items():
            for n in ns:
                if n['k'] == 'UnaryOperator':
                    affine[n['i']] = (d, 'havoc', None) if n.get('op') == '&' else (d, 'add', ({}, 1 if n['op'] == '++' else -1))
                    continue
                rhs = L.lin(kids(n)[1])
                op = n.get('op')
                if op == '=' and rhs is not None:
                    affine[n['i']] = (d, 'set', rhs)
                elif op in ('+=', '-=') and rhs is not None:
                    if op == '-=':
                        rhs = ({a: -c_ for a, c_ in rhs[0].items()}, -rhs[1])
                    affine[n['i']] = (d, 'add', rhs)
                else:
                    affine[n['i']] = (d, 'havoc', None)
        declinit = {}        # DeclStmt id -> [(decl, init node, lin)]
        for n in fn.nodes.values():
            if n['k'] == 'DeclStmt':
                for dd, i_ in zip([x for x in n.get('decls', ()) if x.get('init')], kids(n)):
                    declinit.setdefault(n['i'], []).append((dd['d'], i_, L.lin(i_)))
        grew = True
        while grew:
            grew = False
            for d, kind, lf in affine.values():
                if d in rel and lf is not None and set(lf[0]) - rel:
                    rel |= set(lf[0])
                    grew = True
            for lst in declinit.values():
                for d, i_, lf in lst:
                    if d in rel and lf is not None and set(lf[0]) - rel:
                        rel |= set(lf[0])
                        grew = True
        # loop counters (`n = 0; n < 3; n++`): stored locals with constant-only stores that some branch compares with a constant
        # are propagated too and their tests evaluated, so a loop over the operands runs exactly as often as it can
        counters = set()
        for d in L.stored:
            ents = [a for a in affine.values() if a[0] == d]
            if d in params or not ents or any(a[1] == 'havoc' or a[2][0] for a in ents):
                continue
            if any(lf is None or lf[0] for lst in declinit.values() for dd, i_, lf in lst if dd == d):
                continue
            counters.add(d)
        ctest = {}
        for b, bb in fn.blocks.items():
            cn = fn.nodes.get(bb.get('cond')) if 'cond' in bb else None
            if cn is None or len(bb['s']) != 2:
                continue
            own = strip(cn)
            while own['k'] == 'BinaryOperator' and own.get('op') in ('&&', '||'):
                own = strip(kids(own)[1])
            if own['k'] == 'BinaryOperator' and own.get('op') in ('<', '<=', '>', '>=', '==', '!='):
                l_, r_ = strip(kids(own)[0], casts=True), strip(kids(own)[1], casts=True)
                if l_['k'] == 'DeclRefExpr' and l_.get('d') in counters and const(r_) is not None:
                    ctest[b] = (l_['d'], own['op'], const(r_))
        counters = {t[0] for t in ctest.values()}
        ctest = {b: t for b, t in ctest.items() if t[0] in counters}
        rel |= counters
        rowsw = _row_switches(prog, fn, counters)
        # `i < table_X[n].operand_count`: a counter compared with a column of the matched row
        rowcond = {}
        for b, bb in fn.blocks.items():
            cn = fn.nodes.get(bb.get('cond')) if 'cond' in bb else None
            if cn is None or len(bb['s']) != 2 or bb.get('termk') == 'SwitchStmt':
                continue
            own = strip(cn)
            while own['k'] == 'BinaryOperator' and own.get('op') in ('&&', '||'):
                own = strip(kids(own)[1])
            if own['k'] == 'BinaryOperator' and own.get('op') in _CMP:
                l_ = strip(kids(own)[0], casts=True)
                rm = _row_member(prog, fn, kids(own)[1])
                if l_['k'] == 'DeclRefExpr' and l_.get('d') in L.stored and rm is not None:
                    rowcond[b] = (l_['d'], own['op']) + rm
        for b, t in rowcond.items():
            d = t[0]
            ents = [a for a in affine.values() if a[0] == d]
            if d not in params and ents and not any(a[1] == 'havoc' or a[2][0] for a in ents):
                counters.add(d)
                rel.add(d)
        rowcond = {b: t for b, t in rowcond.items() if t[0] in counters}
        live = _liveness(fn, {ad} | ({textd} if textd is not None else set()))
        snap = set()         # never-reassigned locals initialised from a running variable are snapshots of it
        for lst in declinit.values():
            for d, i_, lf in lst:
                if d in rel and not L.stored.get(d) and lf is not None and set(lf[0]) != {d}:
                    snap.add(d)
        # per-block event lists
        events = {}
        for b, bb in fn.blocks.items():
            lst = []
            for nid in bb['e']:
                n = fn.nodes.get(nid)
                if n is None:
                    continue
                k = n['k']
                if k in ('BinaryOperator', 'CompoundAssignOperator') and n.get('op', '').endswith('=') and \
                        n['op'] not in ('==', '!=', '<=', '>='):
                    t = strip(kids(n)[0])
                    if t['k'] == 'DeclRefExpr':
                        lst.append(('assign', n, t.get('d')))
                elif k == 'UnaryOperator' and n.get('op') in ('++', '--') and nid in affine:
                    lst.append(('assign', n, affine[nid][0]))
                elif k == 'DeclStmt' and nid in declinit:
                    lst.append(('decl', n, None))
                elif k in ('CallExpr', 'CXXMemberCallExpr') and nid not in reads:
                    lst.append(('call', n, None))
                elif nid in reads:
                    lst.append(('read', n, None))
                elif k == 'ReturnStmt' and nid in rets:
                    lst.append(('ret', n, None))
            if lst:
                events[b] = lst
        bst = _block_stores(fn, L.stored)
        ctext = {b: _cond_text(fn, b) for b in fn.blocks}
        # `X != Y` is the test `X == Y` with the edges swapped
        flip = {}
        for b, (t, v) in list(ctext.items()):
            if t is not None and ' != ' in t and t.count(' != ') == 1 and '&&' not in t and '||' not in t:
                ctext[b] = (t.replace(' != ', ' == '), v)
                flip[b] = 1
        cnt = {}
        for b, (t, v) in ctext.items():
            if t is not None:
                cnt[t] = cnt.get(t, 0) + 1
        # a condition tested once cannot contradict itself: remember only the repeated ones
        ctext = {b: (tv if tv[0] is not None and cnt[tv[0]] > 1 else (None, None)) for b, tv in ctext.items()}

        def exprtaint(e, env, taint):
            t = ()
            stack = [e]
            while stack:
                x = stack.pop()
                if x is None or x['k'] == 'UnaryExprOrTypeTraitExpr':
                    continue
                stack.extend(kids(x))
                if x['i'] in reads:
                    c, lf, w_ = reads[x['i']]
                    s_ = _subst(lf, env, params)
                    if s_ is not None and dict(s_[0]).get(ad) == 1:
                        sym = tuple(kv for kv in s_[0] if kv[0] != ad)
                        t = _tmax(t, ((sym, (s_[1] + w_, x['i'])),))
                elif x['k'] == 'DeclRefExpr' and x.get('d') in taint:
                    t = _tmax(t, taint[x['d']])
            return t

        memd = {p_['d'] for p_ in fn.params() if 'Memory' in (fn.types[p_['t']] or '')}
        st = [(fn.entry, (), (), ((), frozenset()), frozenset())]
        seen = set()
        steps = 0
        found = {}
        gaps = {}
        covered = set()
        decided = set()
        overflow = False
        while st:
            state = st.pop()
            if state in seen:
                continue
            seen.add(state)
            steps += 1
            if steps > limit:
                overflow = True
                if os.environ.get('NK_DEBUG_EXTENT'):
                    from collections import Counter
                    cb = Counter(x[0] for x in seen)
                    print('DEBUG-OVERFLOW', fn.q, cb.most_common(5), file=sys.stderr)
                    bb_ = cb.most_common(1)[0][0]
                    ss = [x for x in seen if x[0] == bb_]
                    for j in range(1, 5):
                        print('  comp', j, len(set(x[j] for x in ss)), file=sys.stderr)
                    for x in ss[:3]:
                        print('  ', x[1], x[2], x[4], file=sys.stderr)
                break
            b, envk, taintk, cov, facts = state
            evs = events.get(b)
            if evs:
                env = dict(envk)
                taint = dict(taintk)
                for kind, n, d in evs:
                    if kind == 'assign':
                        if n['k'] != 'UnaryOperator':
                            tv = exprtaint(kids(n)[1], env, taint)
                            if n.get('op') != '=':
                                tv = _tmax(tv, taint.get(d, ()))
                            if tv:
                                taint[d] = tv
                            else:
                                taint.pop(d, None)
                        a = affine.get(n['i'])
                        if a is not None and d in rel:
                            _, ak, lf = a
                            if cov is not None and d != ad and d not in counters:
                                cov = (cov[0], cov[1] | {d}) if ak == 'add' else (cov[0], cov[1] - {d})
                            if ak == 'havoc':
                                env[d] = None
                            elif ak == 'set':
                                env[d] = _subst(lf, env, params)
                            else:
                                cur = env[d] if d in env else ((((d, 1),), 0) if d in params else None)
                                inc = _subst(lf, env, params)
                                if cur is None or inc is None:
                                    env[d] = None
                                else:
                                    m = dict(cur[0])
                                    for a2, k2 in inc[0]:
                                        m[a2] = m.get(a2, 0) + k2
                                    env[d] = (tuple(sorted((a2, k2) for a2, k2 in m.items() if k2)), cur[1] + inc[1])
                                    if abs(env[d][1]) > CAP:
                                        env[d] = None       # widening: a counter running away in a loop is unknown from here on
                    elif kind == 'decl':
                        for dd, i_, lf in declinit[n['i']]:
                            tv = exprtaint(i_, env, taint)
                            if tv:
                                taint[dd] = tv
                            else:
                                taint.pop(dd, None)
                            if dd in rel and (L.stored.get(dd) or dd in snap):
                                env[dd] = _subst(lf, env, params) if lf is not None else None
                    elif kind == 'read':
                        if cov is not None:
                            c, lf, w_ = reads[n['i']]
                            s_ = _subst(lf, env, params)
                            if s_ is None or s_[0] != ((ad, 1),):
                                cov = None
                            elif (s_[1], s_[1] + w_) not in cov[0]:
                                cov = (tuple(sorted(cov[0] + ((s_[1], s_[1] + w_),))), cov[1])
                    elif kind == 'call':
                        args = call_args(n)
                        if cov is not None and any(x['k'] == 'DeclRefExpr' and x.get('d') in memd for a_ in args for x in walk(a_)):
                            cov = None      # a helper reads for the decoder: coverage not decided on this path
                        nm = (callee(n) or '').split('(')[0]
                        tv = ()
                        for a_ in (args[1:] if nm in ('snprintf', 'sprintf', 'strcpy') else args):
                            tv = _tmax(tv, exprtaint(a_, env, taint))
                        if nm in ('printf', 'fprintf') or not args:
                            continue
                        # text flows into character buffers: the destination of a formatting call, or every buffer handed
                        # to a helper together with the value
                        if nm in FORMAT:
                            dests = [args[0]]
                        else:
                            dests = args
                        for a_ in dests:
                            for x in walk(a_):
                                if x['k'] == 'DeclRefExpr' and x.get('d') is not None and 'char' in (fn.type(x) or '') and \
                                        ('[' in fn.type(x) or '*' in fn.type(x)):
                                    dd = x['d']
                                    if nm in ('snprintf', 'sprintf', 'strcpy') and a_ is args[0] and strip(a_, casts=True) is x:
                                        if tv:
                                            taint[dd] = tv
                                        else:
                                            taint.pop(dd, None)
                                    elif tv:
                                        taint[dd] = _tmax(taint.get(dd, ()), tv)
                                    break
                    else:
                        r, lf = rets[n['i']]
                        # locals never assigned (no initialiser, never stored) stay symbolic; running locals not yet set are unknown
                        if any(L.stored.get(a) and a not in env and a not in params for a in lf[0]):
                            continue
                        s_ = _subst(lf, env, params)
                        if s_ is None or any(a == ad for a, _k in s_[0]):
                            continue
                        if not s_[0] and s_[1] <= 0:
                            continue
                        decided.add(n['i'])
                        if cov is not None and not s_[0] and any(a in cov[1] for a in lf[0]):
                            pos = 0
                            for a0, a1 in cov[0]:
                                if a0 > pos:
                                    break
                                pos = max(pos, a1)
                            covered.add(n['i'])
                            if pos < s_[1]:
                                gaps.setdefault(n['i'], (pos, s_[1], cov[0]))
                        for sym, (ext, rid) in (taint.get(textd, ()) if running else ()):
                            if sym == s_[0] and ext > s_[1]:
                                if (rid, n['i']) not in found and os.environ.get('NK_DEBUG_EXTENT'):
                                    print('DEBUG', fn.q, r['l'], {L.names.get(k_, k_): v_ for k_, v_ in taint.items()}, file=sys.stderr)
                                found.setdefault((rid, n['i']), (ext, s_[1]))
                envk = tuple(sorted(env.items(), key=lambda kv: kv[0]))
                taintk = tuple(sorted(taint.items(), key=lambda kv: kv[0]))
            sd = bst.get(b, ())
            f2 = facts
            if sd:
                f2 = frozenset((t, e, v) for (t, e, v) in facts if not (v & set(sd)))
            txt, vs = ctext[b]
            only = None
            if b in ctest:
                cd, cop, cc = ctest[b]
                cv = dict(envk).get(cd)
                if cv is not None and not cv[0]:
                    v_ = cv[1]
                    truth = {'<': v_ < cc, '<=': v_ <= cc, '>': v_ > cc, '>=': v_ >= cc, '==': v_ == cc, '!=': v_ != cc}[cop]
                    only = 0 if truth else 1
            rsw = rowsw.get(b)
            rkey = None
            if rsw is not None:
                table, itxt, ivs, fld, cdecl, cidx, allowed, allv = rsw
                if cdecl is not None:
                    cv = dict(envk).get(cdecl)
                    cidx = cv[1] if cv is not None and not cv[0] else None
                if cdecl is None or cidx is not None:
                    rkey = ('R', table, itxt, fld, cidx)
            rc = rowcond.get(b)
            rcv = None
            if rc is not None:
                cv = dict(envk).get(rc[0])
                if cv is not None and not cv[0]:
                    rcv = cv[1]
            for i, s_ in enumerate(fn.blocks[b]['s']):
                if s_ is None or s_ == fn.exit or (only is not None and i != only):
                    continue
                f3 = f2
                if rcv is not None:
                    _, cop, table, itxt, ivs, fld = rc
                    k_ = ('R', table, itxt, fld, None)
                    c_ = ('cmp', (cop, rcv, i == 0))
                    cons = [(k_, c_)] + [(t, e) for (t, e, v) in f2 if isinstance(t, tuple) and t[1] == table and t[2] == itxt]
                    if not _rows_ok(prog, table, cons):
                        continue
                    f3 = f2 | {(k_, c_, ivs)}
                if rkey is not None:
                    # the kinds chosen for the operands of one row must all come from one row of the table
                    al = allowed[i]
                    cons = [(rkey, ('in', al) if al is not None else ('out', allv))] + \
                        [(t, e) for (t, e, v) in f2 if isinstance(t, tuple) and t[1] == table and t[2] == itxt]
                    if not _rows_ok(prog, table, cons):
                        continue
                    f3 = f3 | {(rkey, ('in', al) if al is not None else ('out', allv), ivs)}
                if txt is not None:
                    ei = i ^ flip.get(b, 0)
                    if any(t == txt and e != ei for (t, e, v) in f2):
                        continue
                    f3 = f3 | {(txt, ei, vs)}
                lv = live[s_]
                st.append((s_, tuple(kv for kv in envk if kv[0] in lv), tuple(kv for kv in taintk if kv[0] in lv), cov,
                           frozenset(x for x in f3 if x[2] <= lv)))
        for (rid, pl), (ext, ret) in sorted(found.items()):
            c = reads[rid][0]
            r = rets[pl][0]
            obs.append(Ob('RUN-EXTENT', fn.file, c['l'], fn.q, '%s->return %s' % (show(c)[:60], show(kids(r)[0])[:30]),
                          VIOLATED,
                          'on a condition-consistent path `%s` reads up to byte %d of the instruction (running position '
                          'propagated through the affine updates of address/length), its value reaches a call argument, and '
                          '`return %s` (line %d) then reports a length of %d: the operand is taken from outside the bytes the '
                          'decoder claims' % (show(c), ext, show(kids(r)[0]), r['l'], ret)))
        for rid_, (pos, ln, cov_) in sorted(gaps.items()):
            r = rets[rid_][0]
            cobs.append(Ob('RUN-COVER', fn.file, r['l'], fn.q, 'return %s@%d' % (show(kids(r)[0])[:30], pos), VIOLATED,
                           'on a condition-consistent path `return %s` reports %d bytes but the decoder has read only the byte '
                           'ranges %s of them: byte %d of the instruction is never looked at, so different encodings print the '
                           'same text' % (show(kids(r)[0]), ln, list(cov_), pos)))
        if covered and not overflow:
            ncov += 1
            if not gaps:
                cobs.append(Ob('RUN-COVER', fn.file, fn.line, fn.q, '%d returns' % len(covered), DISCHARGED, '',
                               'on every decided path the reads tile the returned length', True))
        if not running:
            continue
        if overflow:
            obs.append(Ob('RUN-EXTENT', fn.file, fn.line, fn.q, 'path search', OBSERVATION,
                          'more than %d path states: not decided' % limit))
        elif not found:
            obs.append(Ob('RUN-EXTENT', fn.file, fn.line, fn.q, '%d reads / %d returns' % (len(reads), len(decided)),
                          DISCHARGED, '',
                          'on every condition-consistent path the extent of the reads that reach a call argument is <= the '
                          'returned length', True))
    out = (RuleResult('RUN-EXTENT', obs, 0, {'decoders_with_running_position': nfn, 'reads': nreads}),
           RuleResult('RUN-COVER', cobs, 0, {'decoders_decided': ncov}))
    _RUN_CACHE[id(prog)] = out
    return out


def helper_base(prog, floor=1):
    """HELPER-BASE (C08): a decoder that delegates an operand to a helper as `return helper(memory, .., address + K, ..) + C`
    passes the position of the operand (K) and adds the bytes in front of it plus what the helper itself always reads (C);
    for one helper C - K is therefore the same at every call site.  A site where it differs reports a length that stops
    before (or runs past) the bytes the helper read."""
    sites = {}
    for fn in prog.functions(lambda f: f.file.startswith('disasm/') and f.blocks):
        ap = [p for p in fn.params() if p.get('n') == 'address']
        if not ap:
            continue
        ad = ap[0]['d']
        L = None
        for n in fn.nodes.values():
            if n['k'] != 'ReturnStmt' or not kids(n):
                continue
            e = strip(kids(n)[0], casts=True)
            C = 0
            call = None
            if e['k'] == 'BinaryOperator' and e.get('op') == '+':
                a, b = strip(kids(e)[0], casts=True), strip(kids(e)[1], casts=True)
                if a['k'] == 'CallExpr' and const(b) is not None:
                    call, C = a, const(b)
                elif b['k'] == 'CallExpr' and const(a) is not None:
                    call, C = b, const(a)
            elif e['k'] == 'CallExpr':
                call = e
            if call is None or not callee(call):
                continue
            f2 = prog.by_key.get(ckey(call)) if 'ckey' in globals() else None
            if L is None:
                L = Lin(fn)
            K = None
            for a_ in call_args(call):
                lf = L.lin(a_)
                if lf is not None and lf[0] == {ad: 1}:
                    K = lf[1]
            if K is None:
                continue
            sites.setdefault((fn.file, callee(call).split('(')[0]), []).append((fn, n, K, C))
    obs = []
    for (file, helper), lst in sorted(sites.items()):
        if len(lst) < 2:
            continue
        diffs = {}
        for fn, n, K, C in lst:
            diffs.setdefault(C - K, []).append((fn, n, K, C))
        if len(diffs) == 1:
            obs.append(Ob('HELPER-BASE', file, lst[0][1]['l'], lst[0][0].q, 'helper:%s' % helper, DISCHARGED, '',
                          '%d call sites, all with C - K = %d' % (len(lst), list(diffs)[0]), True))
        else:
            major = max(diffs.items(), key=lambda kv: len(kv[1]))[0]
            tie = sum(1 for v in diffs.values() if len(v) == len(diffs[major])) > 1
            for dv, l2 in sorted(diffs.items()):
                if dv == major and not tie:
                    continue
                for fn, n, K, C in l2:
                    obs.append(Ob('HELPER-BASE', file, n['l'], fn.q, 'helper:%s@%d' % (helper, K), VIOLATED,
                                  '`%s` hands %s the operand at address+%d and adds %d, the other call site(s) add %d more than '
                                  'the offset they pass (here %d): the reported length does not cover the bytes the helper reads, or '
                                  'runs past them' % (show(kids(n)[0])[:50], helper, K, C, major, dv)))
    if len(obs) < floor:
        raise AnalysisBroken('HELPER-BASE: no helper with two delegating call sites')
    return RuleResult('HELPER-BASE', obs, floor, {})

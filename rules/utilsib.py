"""Small sibling / order / format-oracle rules for naken_util and the linker (round 10).

ALIGN-SIB (C19): printN and writeN of UtilContext test the same alignment expression of the address (a value that writeN
accepts at an address can be read back with printN from that address).
SETPC-ORDER (C19): in naken_util's main() no call of Simulate::reset() can follow the call that applies -set_pc.
R-SYM (C20): the ELF32 relocation symbol index is r_info >> 8 in full (24 bits): no narrower mask is applied to it."""
from nk.facts import kids, strip, const, callee, show, walk, call_args
from nk.report import Ob, RuleResult, DISCHARGED, VIOLATED
from nk.build import AnalysisBroken


def _align_tests(fn):
    out = []
    for n in fn.nodes.values():
        if n['k'] == 'BinaryOperator' and n.get('op') == '&' and any(
                x['k'] == 'MemberExpr' and x.get('n') == 'alignment' for x in walk(n)):
            p = fn.parent.get(n['i'])
            while p is not None and p['k'] in ('ParenExpr', 'ImplicitCastExpr'):
                p = fn.parent.get(p['i'])
            # the outermost & containing `alignment`
            if p is not None and p['k'] == 'BinaryOperator' and p.get('op') == '&':
                continue
            # drop the address operand: keep the mask text
            parts = [show(k_) for k_ in kids(n) if any(x['k'] == 'MemberExpr' and x.get('n') == 'alignment' for x in walk(k_))]
            out.append(''.join(parts).replace(' ', ''))
    return sorted(set(out))


def align_sib(prog):
    obs = []
    for w in ('16', '32'):
        pf = prog.fn_opt('UtilContext::print' + w)
        wf = prog.fn_opt('UtilContext::write' + w)
        if pf is None or wf is None:
            raise AnalysisBroken('ALIGN-SIB: UtilContext::print%s / write%s not found' % (w, w))
        a, b = _align_tests(pf), _align_tests(wf)
        if not a and not b:
            raise AnalysisBroken('ALIGN-SIB: no alignment test in print%s / write%s' % (w, w))
        ok = a == b
        obs.append(Ob('ALIGN-SIB', pf.file, pf.line, pf.q, 'print%s~write%s' % (w, w), DISCHARGED if ok else VIOLATED,
                      '' if ok else 'print%s tests the address with %s, write%s with %s: an address one of them accepts is rejected by '
                      'the other, so what was written there cannot be read back' % (w, a, w, b), 'same alignment test %s' % a, False))
    return RuleResult('ALIGN-SIB', obs, 2, {})


def setpc_order(prog):
    fn = None
    for f in prog.fns.values():
        if f.q == 'main' and f.file == 'main/naken_util.cpp':
            fn = f
    if fn is None:
        raise AnalysisBroken('SETPC-ORDER: main of naken_util not found')
    sets = [c for c in fn.calls() if (callee(c) or '').endswith('::set_pc')]
    resets = [c for c in fn.calls() if (callee(c) or '').endswith('::reset')]
    if not sets or not resets:
        raise AnalysisBroken('SETPC-ORDER: set_pc / reset calls not found in main')
    obs = []
    for k, s_ in enumerate(sorted(sets, key=lambda x: x['i']), 1):
        ws = fn.where.get(s_['i'])
        bad = None
        for r in resets:
            wr = fn.where.get(r['i'])
            if ws is None or wr is None:
                continue
            if (ws[0] == wr[0] and ws[1] < wr[1]) or (ws[0] != wr[0] and wr[0] in fn.reachable_blocks(start=ws[0])):
                # inside the command loop a later `reset` command legitimately follows a `set pc`; only the start-up
                # sequence (before the first loop) is ordered
                from nk.cfg import natural_loops
                inloop = any(ws[0] in body or wr[0] in body for body in natural_loops(fn).values())
                if not inloop:
                    bad = r
        obs.append(Ob('SETPC-ORDER', fn.file, s_['l'], fn.q, 'set_pc#%d' % k, VIOLATED if bad is not None else DISCHARGED,
                      '' if bad is None else 'the program counter set at line %d is followed by reset() at line %d, which reloads it '
                      'from the reset vector: -set_pc has no effect' % (s_['l'], bad['l']), 'no reset() after it at start-up', False))
    return RuleResult('SETPC-ORDER', obs, 1, {})


def r_sym(prog):
    obs = []
    for fn in prog.functions(lambda f: f.file in ('core/imports_obj.cpp', 'core/Linker.cpp', 'core/imports_ar.cpp')):
        for n in fn.nodes.values():
            if n['k'] == 'BinaryOperator' and n.get('op') == '>>' and const(kids(n)[1]) == 8 and \
                    'r_info' in show(kids(n)[0]):
                p = fn.parent.get(n['i'])
                while p is not None and p['k'] in ('ParenExpr', 'ImplicitCastExpr'):
                    p = fn.parent.get(p['i'])
                narrow = None
                if p is not None and p['k'] == 'BinaryOperator' and p.get('op') == '&':
                    m = [const(k_) for k_ in kids(p) if const(k_) is not None]
                    if m and m[0] < 0xffffff:
                        narrow = m[0]
                obs.append(Ob('R-SYM', fn.file, n['l'], fn.q, 'r_sym#%d' % (len(obs) + 1), VIOLATED if narrow is not None else DISCHARGED,
                              '' if narrow is None else 'the relocation symbol index `%s` is masked with 0x%x: ELF32_R_SYM is the upper '
                              '24 bits of r_info, a call to a symbol with a larger index is bound to another function' % (show(p)[:40], narrow),
                              'ELF32_R_SYM(r_info) = r_info >> 8, unmasked', False))
    if not obs:
        raise AnalysisBroken('R-SYM: no `r_info >> 8` in the object readers')
    return RuleResult('R-SYM', obs, 1, {})


def next_keep(prog, floor=6):
    """NEXT-KEEP (C20/C16): a store `A->next = B` does not drop the rest of a list.  Accepted: B is null; A is a node
    allocated in the same function (its `next` is being initialised, e.g. a prepend); or a test of `A->next` against null
    dominates the store (append behind the tail / create the missing successor).  Anything else overwrites a link that may
    still lead to nodes (three object files on the command line: the middle one is no longer reachable)."""
    from nk.cfg import dominators
    obs = []
    for fn in sorted(prog.functions(lambda f: f.file.startswith(('core/', 'common/', 'fileio/')) and f.blocks), key=lambda f: (f.file, f.line)):
        dom = None
        fresh = set()
        for n in fn.nodes.values():
            if n['k'] in ('BinaryOperator', 'DeclStmt'):
                pass
        for n in fn.nodes.values():
            src = None
            tgt = None
            if n['k'] == 'BinaryOperator' and n.get('op') == '=':
                t = strip(kids(n)[0])
                if t['k'] == 'DeclRefExpr':
                    tgt, src = t.get('d'), kids(n)[1]
            elif n['k'] == 'DeclStmt':
                for dd, i in zip([x for x in n.get('decls', ()) if x.get('init')], kids(n)):
                    if any(x['k'] == 'CXXNewExpr' or (x['k'] == 'CallExpr' and (callee(x) or '').split('(')[0] in ('malloc', 'calloc'))
                           for x in walk(i)):
                        fresh.add(dd['d'])
            if src is not None and any(x['k'] == 'CXXNewExpr' or (x['k'] == 'CallExpr' and (callee(x) or '').split('(')[0] in ('malloc', 'calloc'))
                                       for x in walk(src)):
                fresh.add(tgt)
        k = 0
        for n in sorted(fn.nodes.values(), key=lambda x: x['i']):
            if n['k'] != 'BinaryOperator' or n.get('op') != '=':
                continue
            t = strip(kids(n)[0])
            if t['k'] != 'MemberExpr' or t.get('n') != 'next':
                continue
            k += 1
            construct = 'next-store#%d' % k
            rhs = strip(kids(n)[1], casts=True)
            base = strip(kids(t)[0], casts=True)
            why = None
            if rhs['k'] in ('CXXNullPtrLiteralExpr', 'GNUNullExpr') or const(rhs) == 0:
                why = 'stores null'
            elif base['k'] == 'DeclRefExpr' and base.get('d') in fresh:
                why = 'the node was allocated in this function'
            else:
                if dom is None:
                    dom = dominators(fn)
                w = fn.block_of(n)
                txt = show(t)
                if w is not None:
                    for b in dom[w[0]]:
                        cn = fn.nodes.get(fn.blocks[b].get('cond')) if 'cond' in fn.blocks[b] else None
                        if cn is not None and txt in show(cn) and any(
                                x['k'] in ('CXXNullPtrLiteralExpr', 'GNUNullExpr') or const(x) == 0 for x in walk(cn)):
                            why = 'dominated by the null test `%s`' % show(cn)[:40]
            if why:
                obs.append(Ob('NEXT-KEEP', fn.file, n['l'], fn.q, construct, DISCHARGED, '', why, False))
            else:
                obs.append(Ob('NEXT-KEEP', fn.file, n['l'], fn.q, construct, VIOLATED,
                              '`%s` overwrites a link that no test shows to be null: the nodes behind %s are dropped from the '
                              'list' % (show(n)[:60], show(base)[:30])))
    if len(obs) < floor:
        raise AnalysisBroken('NEXT-KEEP: only %d stores to a next link' % len(obs))
    return RuleResult('NEXT-KEEP', obs, floor, {})

.65816
.org 0x1000
  jmp ($12345)      ; 6c 45 23 -- same bytes as jmp ($2345)
  jmp ($2345)
  jml [$12345]      ; dc 45 23
  jml [$2345]

.tms340
.org 0x1000
main:
  jruc main+1           ; c0ff -- odd target, bit 0 of the offset is dropped: same word as jruc main
main2:
  jruc main2            ; c0ff
main3:
  jruc main3-254        ; c080 -- offset -128 words is the encoding of jauc (absolute), not a short jump
main4:
  jruc main4+2          ; c000 -- offset 0 is the encoding of the long form, next word is taken as offset

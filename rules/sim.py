"""Simulator rules (C15)."""
from nk.facts import kids, strip, const, show, walk, callee, call_args
from nk.report import Ob, RuleResult, DISCHARGED, VIOLATED, OBSERVATION
from nk.build import AnalysisBroken

MULTI = {'Memory::read16': 2, 'Memory::write16': 2, 'Memory::read32': 4, 'Memory::write32': 4}
BYTE = ('Memory::read8', 'Memory::write8')


def _wrap_mask(a):
    """The low-ones mask 2^k - 1 applied at the top of an address expression, else None."""
    a = strip(a, casts=True)
    if a['k'] == 'BinaryOperator' and a.get('op') == '&':
        for x in kids(a):
            m = const(x)
            if m is not None and m > 0xff and (m + 1) & m == 0:
                return m
    return None


def addr_space(prog):
    """ADDR-SPACE: a simulator that wraps its addresses to the CPU's address space (`memory->read8((a) & 0xffff)`)
    does so for every byte it touches: a multi-byte accessor (read16/write16/read32/write32) called with such a
    wrapped base address touches base+1.. unwrapped, i.e. a byte outside the address space when the base is the last
    address (Z80 `push` with SP = 1 must wrap to 0xffff/0x0000, not write 0x10000)."""
    obs = []
    byfile = {}
    for fn in prog.functions(lambda f: f.file.startswith('simulate/') and f.blocks):
        for c in fn.calls():
            q = (callee(c) or '').split('(')[0]
            if q in BYTE or q in MULTI:
                args = call_args(c)
                if not args:
                    continue
                m = _wrap_mask(args[0])
                byfile.setdefault(fn.file, []).append((fn, c, q, m))
    nfiles = 0
    for f, sites in sorted(byfile.items()):
        masks = [m for _, _, q, m in sites if q in BYTE and m is not None]
        if len(masks) < 2:
            continue
        nfiles += 1
        space = max(set(masks), key=masks.count)
        bad = [(fn, c, q) for fn, c, q, m in sites if q in MULTI and m == space]
        for fn, c, q in bad:
            obs.append(Ob('ADDR-SPACE', f, c['l'], fn.q, 'wide-access:%s' % q.split('::')[1], VIOLATED,
                          '`%s` wraps only the base address to %#x; the accessor also touches the next %d byte(s) at base+1.., '
                          'which is outside the address space when the base is %#x' % (show(c)[:60], space, MULTI[q] - 1, space)))
        obs.append(Ob('ADDR-SPACE', f, sites[0][1]['l'], '*', 'space:%#x' % space, DISCHARGED if not bad else VIOLATED,
                      '' if not bad else '%d multi-byte accesses with a wrapped base' % len(bad),
                      '%d byte accesses wrapped to %#x, no multi-byte accessor on a wrapped base' % (len(masks), space), False))
    if nfiles < 1:
        raise AnalysisBroken('ADDR-SPACE: no simulator wraps its byte accesses any more')
    return RuleResult('ADDR-SPACE', obs, 1, {'simulators_with_wrapped_addresses': nfiles})


def sim_static(prog):
    """SIM-STATIC (C15): a simulator keeps all of its state in its object: no function of simulate/ stores to a variable with
    static storage (file-scope or function-local static), except the Ctrl-C flag Simulate::stop_running.  Hidden state makes
    a step depend on what was executed before it, from the same visible starting state."""
    from nk.report import Ob, RuleResult, DISCHARGED, VIOLATED
    obs = []
    for name, lst in sorted(prog.global_writes().items()):
        for fn, n in lst:
            if not fn.file.startswith('simulate/'):
                continue
            k = sum(1 for o in obs if o.function == fn.q and o.construct.split('#')[0] == 'store:' + name)
            construct = 'store:' + name + ('#%d' % (k + 1) if k else '')
            if name == 'Simulate::stop_running':
                obs.append(Ob('SIM-STATIC', fn.file, n['l'], fn.q, construct, DISCHARGED, '',
                              'the interrupt flag of the run loop (set by the signal handler, cleared when run() starts)', False))
            else:
                obs.append(Ob('SIM-STATIC', fn.file, n['l'], fn.q, construct, VIOLATED,
                              'store to the static-storage variable `%s` in a simulator: the state survives reset() and a new '
                              'simulator object, so the same step from the same registers and memory can give different results' % name))
    nsim = len([f for f in prog.fns.values() if f.file.startswith('simulate/')])
    obs.append(Ob('SIM-STATIC', 'simulate/', 0, '*', 'scan', DISCHARGED, '',
                  'scanned %d simulator functions for stores rooted at static-storage variables' % nsim, False))
    if nsim < 300:
        from nk.build import AnalysisBroken
        raise AnalysisBroken('SIM-STATIC: only %d simulator functions' % nsim)
    return RuleResult('SIM-STATIC', obs, 1, {'simulator_functions': nsim})


def word_addr(prog):
    """WORD-ADDR (C15): the LC-3 simulator addresses 16-bit words and scales them by 2 for the byte store; every word address
    handed to Memory::write8 is narrowed to the 64K-word space first: the scaled operand is a 16-bit typed value (a uint16_t
    variable or a cast) or is masked with 0xffff.  An int sum of a register and a sign-extended offset carries out of 16 bits
    and the store lands at byte 0x20000 and beyond."""
    from nk.facts import kids, strip, const, callee, show, walk, call_args
    from nk.report import Ob, RuleResult, DISCHARGED, VIOLATED
    from nk.build import AnalysisBroken
    from nk.interval import type_range
    obs = []
    for fn in sorted(prog.functions(lambda f: f.file == 'simulate/lc3.cpp' and f.blocks), key=lambda f: f.line):
        for c in sorted(fn.calls(), key=lambda x: x['i']):
            if (callee(c) or '').split('(')[0] != 'Memory::write8' or not call_args(c):
                continue
            a = strip(call_args(c)[0], casts=True)
            # (X * 2) + 1  /  X * 2
            if a['k'] == 'BinaryOperator' and a.get('op') == '+' and const(kids(a)[1]) == 1:
                a = strip(kids(a)[0], casts=True)
            if not (a['k'] == 'BinaryOperator' and a.get('op') in ('*', '<<') and const(kids(a)[1]) in (2, 1)):
                continue
            x = kids(a)[0]
            while x['k'] in ('ParenExpr',):
                x = kids(x)[0]
            inner = strip(x, casts=False)
            # the operand before the integral promotion
            y = x
            while y['k'] == 'ImplicitCastExpr' and y.get('ck') in ('IntegralCast', 'LValueToRValue', 'NoOp'):
                t = fn.type(kids(y)[0]) if kids(y) else None
                y = kids(y)[0]
            tr = type_range(fn.type(strip(x, casts=False)) if False else fn.type(y))
            narrow = tr is not None and tr[0] is not None and tr[0] >= 0 and tr[1] is not None and tr[1] <= 0xffff
            masked = y['k'] == 'BinaryOperator' and y.get('op') == '&' and any((const(k_) or 0x10000) <= 0xffff for k_ in kids(y))
            k = len(obs) + 1
            ok = narrow or masked
            obs.append(Ob('WORD-ADDR', fn.file, c['l'], fn.q, 'write8#%d' % k, DISCHARGED if ok else VIOLATED,
                          '' if ok else 'the word address `%s` is scaled and stored without being narrowed to 16 bits: a register plus '
                          'offset that carries past 0xffff is written at byte 0x20000 and beyond, outside the simulated address '
                          'space' % show(y)[:50], 'word address of type %s' % fn.type(y), False))
    if len(obs) < 4:
        raise AnalysisBroken('WORD-ADDR: only %d scaled stores in simulate/lc3.cpp' % len(obs))
    return RuleResult('WORD-ADDR', obs, 4, {})

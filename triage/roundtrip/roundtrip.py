#!/usr/bin/env python3
"""Triage aid (not a check): for every instruction of tests/comparison/<cpu>.txt assemble it alone with -l, take the
disassembly text of its listing line, assemble that text again and compare the bytes.  Prints the instructions whose
listing text is rejected by the assembler or re-assembles to other bytes.  Used to find candidates for C01 rules; every
candidate is then replayed by hand."""
import os, re, subprocess, sys, tempfile
REPO = os.environ.get('NK_REPO', '/repo')
ASM = os.path.join(REPO, 'naken_asm')

def assemble(cpu, text, d, listing=True):
    src = os.path.join(d, 'x.asm')
    open(src, 'w').write('.%s\n.org 0\n  %s\n' % (cpu, text))
    for f in ('x.hex', 'x.lst'):
        try: os.unlink(os.path.join(d, f))
        except OSError: pass
    r = subprocess.run([ASM, '-l', '-o', os.path.join(d, 'x.hex'), src], capture_output=True, text=True, cwd=d, timeout=20)
    if not os.path.exists(os.path.join(d, 'x.hex')):
        return None, None, r.stdout[-300:]
    data = []
    for l in open(os.path.join(d, 'x.hex')):
        l = l.strip()
        if l.startswith(':') and l[7:9] == '00':
            n = int(l[1:3], 16)
            data.append((int(l[3:7], 16), l[9:9 + 2 * n]))
    lst = open(os.path.join(d, 'x.lst')).read() if os.path.exists(os.path.join(d, 'x.lst')) else ''
    return ''.join(x for _, x in sorted(data)), lst, ''

def listing_texts(lst):
    """Candidate texts, most likely first: all leading hex columns dropped, then one fewer (mnemonics such as `add`, `dec`,
    `cc` look like hex columns too)."""
    for l in lst.splitlines():
        m = re.match(r'^0x[0-9a-f]+:\s+(.*)$', l)
        if not m:
            continue
        rest = re.sub(r'\s+cycles:.*$', '', m.group(1)).rstrip()
        toks = rest.split()
        if not toks:
            return []
        w = len(toks[0])
        k = 0
        while k < len(toks) and len(toks[k]) == w and re.fullmatch(r'(0x)?[0-9a-f]+', toks[k]):
            k += 1
        if k == len(toks):
            k = len(toks) - 1
        out = []
        for kk in (k, k - 1):
            if kk >= 1:
                parts = rest.split(None, kk)
                if len(parts) > kk:
                    out.append(parts[kk])
        return out
    return []


def listing_text(lst):
    for l in lst.splitlines():
        m = re.match(r'^0x[0-9a-f]+:\s+(.*)$', l)
        if not m:
            continue
        rest = re.sub(r'\s+cycles:.*$', '', m.group(1)).rstrip()
        toks = rest.split()
        if not toks:
            return None
        w = len(toks[0])
        k = 0
        while k < len(toks) and len(toks[k]) == w and re.fullmatch(r'(0x)?[0-9a-f]+', toks[k]):
            k += 1
        if k == len(toks):
            k = len(toks) - 1
        # re-split on the original string to keep spacing inside operands
        parts = rest.split(None, k)
        return parts[k] if len(parts) > k else None
    return None

def main():
    cpu = sys.argv[1]
    name = sys.argv[2] if len(sys.argv) > 2 else cpu
    bad = 0
    n = 0
    with tempfile.TemporaryDirectory(prefix='nkrt-') as d:
        for line in open(os.path.join(REPO, 'tests/comparison', name + '.txt')):
            ins = line.split('|')[0].strip()
            if not ins or ins.startswith('main') or ':' in ins:
                continue
            n += 1
            b1, lst, err = assemble(cpu, ins, d)
            if b1 is None:
                continue
            ts = listing_texts(lst)
            if not ts:
                print('%s: NO-TEXT  %-40s' % (cpu, ins)); bad += 1; continue
            # the text as printed first, then without trailing annotations such as (offset=..), {#1, 24}, [0x1f4]
            verdict = None
            for t in ts:
                cands = [t]
                for pat in (r'\s*\((?:offset|address|[-0-9]).*?\)\s*$', r'\s*\{#.*?\}\s*$', r'\s*\[0x[0-9a-f]+\]\s*$', r'\s+--.*$'):
                    t3 = re.sub(pat, '', cands[-1])
                    if t3 != cands[-1]:
                        cands.append(t3)
                for t2 in cands:
                    b2, _, err2 = assemble(cpu, t2, d)
                    if b2 is not None and b2 == b1:
                        verdict = 'ok'
                        break
                    if b2 is not None and verdict is None:
                        verdict = ('DIFFERS', t2, b2)
                if verdict == 'ok':
                    break
            if verdict == 'ok':
                continue
            if verdict is None:
                print('%s: REJECTED %-40s -> listed as `%s`' % (cpu, ins, ts[0])); bad += 1
            else:
                print('%s: DIFFERS  %-40s %s -> listed as `%s` %s' % (cpu, ins, b1, verdict[1], verdict[2])); bad += 1
    print('%s: %d instructions, %d suspicious' % (cpu, n, bad))

if __name__ == '__main__':
    main()

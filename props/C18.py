"""C18 (narrow): R-PURE, SPAN, DUMP, R-UNIT."""
from nk import report
from rules import state, listing, passes
from . import common

EXPLANATION = (
    'Decides the structural clauses listed; does not decide the behaviour as a whole. SPAN: assemble() snapshots the '
    'location counter immediately before parse_instruction (nothing in between can move it) and calls '
    'list_output(start_address, address) right after it. R-PURE: the 59 listing formatters and everything they reach only '
    'read the image. DUMP: the data-section dump walks low..high, selects exactly DL_DATA bytes, prints the image byte, and ends the current line at every address it does not list. '
    'DATA-TAG: every data directive stores its bytes with the DL_DATA marker (never through add_bin*), so each emitted byte is shown by list_output or by the dump. '
    'R-UNIT: printed symbol values / `$` are the byte counter divided once by bytes_per_address. Not decided: the text '
    'of 68 formatters against the output file.')


def run(tier, t0):
    prog = common.program()
    cg = common.callgraph()
    results = [listing.span(prog, cg), listing.dump(prog), listing.data_tag(prog), state.pure(prog, cg), passes.unit(prog)]
    return report.finish('C18', tier, results, EXPLANATION, [], common.TRUSTED, t0)

#!/bin/sh
# usage: check.sh <cpu-dir> ; reads <dir>/x.asm header (lines starting with '.') ; tests each instruction line alone with both binaries
d=$1
OLD=/tmp/rg/old_naken_asm
NEW=/tmp/wt/rg/naken_asm
hdr=$(grep -E '^\.(6502|6809|8008|86000|arc|epiphany|java|sweet16|thumb|pic18)' $d/x.asm | head -1)
grep -vE '^\.|^[a-z0-9]+:$' $d/x.asm | while IFS= read -r line; do
  [ -z "$line" ] && continue
  printf '%s\n.org 0x1000\nlbl:\n%s\n' "$hdr" "$line" > /tmp/rg/one.asm
  l=$(echo "$line" | sed 's/l[0-9]$/lbl/')
  printf '%s\n.org 0x1000\nlbl:\n%s\n' "$hdr" "$l" > /tmp/rg/one.asm
  o=$($OLD -l -o /tmp/rg/one_old.hex /tmp/rg/one.asm | grep -E "^Error" | head -1); ob=$(grep -E "^0x" /tmp/rg/one_old.lst 2>/dev/null| awk '{$1="";print}' | cut -c1-22 | tr '\n' '|')
  [ -n "$o" ] && ob="ERR"
  n=$($NEW -l -o /tmp/rg/one_new.hex /tmp/rg/one.asm | grep -E "^Error" | head -1); nb=$(grep -E "^0x" /tmp/rg/one_new.lst 2>/dev/null| awk '{$1="";print}' | cut -c1-22 | tr '\n' '|')
  [ -n "$n" ] && nb="ERR: $n"
  printf '%-28s old=[%s] new=[%s]\n' "$l" "$ob" "$nb"
done

"""C10 rules: T-SIB(c) opener sets, IFOP (condition operators), IFDEF-TBL (branch decision table), IFCOUNT."""
from nk.facts import kids, strip, const, callee, ckey, call_args, show, walk
from nk.report import Ob, RuleResult, DISCHARGED, VIOLATED, OBSERVATION
from nk.build import AnalysisBroken


def _eval(n, env):
    """Concrete evaluation of a side-effect-free integer/boolean expression over named variables."""
    v = const(n)
    if v is not None:
        return v
    n = strip(n)
    k = n['k']
    c = kids(n)
    if k in ('ImplicitCastExpr', 'CStyleCastExpr', 'ParenExpr'):
        return _eval(c[0], env)
    if k == 'DeclRefExpr':
        return env.get(n['n'])
    if k == 'ConditionalOperator':
        t = _eval(c[0], env)
        if t is None:
            return None
        return _eval(c[1], env) if t else _eval(c[2], env)
    if k == 'UnaryOperator' and n.get('op') == '!':
        a = _eval(c[0], env)
        return None if a is None else int(not a)
    if k == 'BinaryOperator':
        a, b = _eval(c[0], env), _eval(c[1], env)
        if a is None or b is None:
            return None
        op = n['op']
        f = {'==': lambda: int(a == b), '!=': lambda: int(a != b), '<': lambda: int(a < b), '>': lambda: int(a > b),
             '<=': lambda: int(a <= b), '>=': lambda: int(a >= b), '&&': lambda: int(bool(a) and bool(b)),
             '||': lambda: int(bool(a) or bool(b)), '|': lambda: a | b, '&': lambda: a & b, '+': lambda: a + b,
             '-': lambda: a - b, '^': lambda: a ^ b}.get(op)
        return f() if f else None
    return None


def _run_stmts(stmts, env):
    """Tiny interpreter: sequence of `if (c) { return e; }` / `return e;` statements."""
    for st in stmts:
        if st is None:
            continue
        s = st
        if s['k'] == 'CompoundStmt':
            r = _run_stmts(kids(s), env)
            if r is not None:
                return r
        elif s['k'] == 'ReturnStmt':
            return _eval(kids(s)[0], env)
        elif s['k'] == 'IfStmt':
            ks = [k for k in kids(s) if k is not None]
            t = _eval(ks[0], env)
            if t is None:
                return None
            if t:
                r = _run_stmts([ks[1]], env)
                if r is not None:
                    return r
            elif len(ks) > 2:
                r = _run_stmts([ks[2]], env)
                if r is not None:
                    return r
        elif s['k'] in ('BreakStmt', 'NullStmt'):
            return None
    return None


IFOPS = {'>': ('OPER_GT', 'PREC_EQUAL'), '<': ('OPER_LT', 'PREC_EQUAL'), '==': ('OPER_EQUAL', 'PREC_EQUAL'),
         '>=': ('OPER_GT_EQUAL', 'PREC_EQUAL'), '<=': ('OPER_LT_EQUAL', 'PREC_EQUAL'),
         '&&': ('OPER_AND', 'PREC_AND'), '||': ('OPER_OR', 'PREC_OR')}
SEM = {'OPER_GT': lambda a, b: a > b, 'OPER_LT': lambda a, b: a < b, 'OPER_EQUAL': lambda a, b: a == b,
       'OPER_GT_EQUAL': lambda a, b: a >= b, 'OPER_LT_EQUAL': lambda a, b: a <= b,
       'OPER_AND': lambda a, b: bool(a) and bool(b), 'OPER_OR': lambda a, b: bool(a) or bool(b)}


def ifop(prog):
    from rules.oracle import _case_regions
    obs = []
    go = [f for f in prog.by_name.get('get_operator', []) if f.file == 'core/ifdef_expression.cpp']
    eo = [f for f in prog.by_name.get('eval_operation', []) if f.file == 'core/ifdef_expression.cpp']
    if not go or not eo:
        raise AnalysisBroken('IFOP: get_operator / eval_operation not found')
    go, eo = go[0], eo[0]
    got = {}
    for n in go.nodes.values():
        if n['k'] != 'IfStmt':
            continue
        ks = [k for k in kids(n) if k is not None]
        if len(ks) < 2:
            continue
        tok = None
        c = strip(ks[0])
        for x in walk(ks[0]):
            if callee(x) == 'strcmp':
                lit = strip(call_args(x)[1], casts=True)
                if lit['k'] == 'StringLiteral':
                    tok = lit['s']
        if tok is None:
            # IS_TOKEN(token, 'c') expands to token[0] == 'c' && token[1] == 0
            chars = [const(kids(x)[1]) for x in walk(ks[0]) if x['k'] == 'BinaryOperator' and x.get('op') == '==' and
                     const(kids(x)[1]) not in (None, 0)]
            if len(chars) == 1:
                tok = chr(chars[0])
        if tok is None:
            continue
        o = p = None
        for x in walk(ks[1]):
            if x['k'] == 'IfStmt':
                break
            s = strip(x)
            if s['k'] == 'BinaryOperator' and s.get('op') == '=':
                l = strip(kids(s)[0])
                r = strip(kids(s)[1], casts=True)
                if l['k'] == 'MemberExpr' and r['k'] == 'DeclRefExpr' and r.get('dk') == 'enum':
                    if l['n'] == 'operation' and o is None:
                        o = r['n']
                    if l['n'] == 'precedence' and p is None:
                        p = r['n']
        if o and p and tok not in got:
            got[tok] = (o, p)
    for tok, want in IFOPS.items():
        ok = got.get(tok) == want
        obs.append(Ob('IFOP', go.file, go.line, go.q, 'token:' + tok, DISCHARGED if ok else VIOLATED,
                      '' if ok else 'condition operator `%s` is mapped to %s, the documented semantics need %s' % (tok, got.get(tok), want),
                      '%s -> %s' % (tok, got.get(tok)), False))
    # precedence order: || < && < relational
    pv = {}
    ov = {}
    for e in prog.enums.values():
        if e['file'] == 'core/ifdef_expression.cpp':
            for nme, v in e['consts']:
                if nme.startswith('PREC_'):
                    pv[nme] = v
                if nme.startswith('OPER_'):
                    ov[v] = nme
    ok = pv.get('PREC_OR', 9) < pv.get('PREC_AND', -1) < pv.get('PREC_EQUAL', -2)
    obs.append(Ob('IFOP', go.file, go.line, 'enum', 'precedence-order', DISCHARGED if ok else VIOLATED,
                  '' if ok else 'precedence levels are not || < && < relational: %s' % pv, str(pv), False))
    # semantics of each operation
    for n in eo.nodes.values():
        if n['k'] != 'SwitchStmt':
            continue
        for v, stmts in _case_regions(eo, n).items():
            name = ov.get(v)
            if name not in SEM:
                continue
            bad = None
            for a in (-2, -1, 0, 1, 2, 7):
                for b in (-2, -1, 0, 1, 2, 7):
                    r = _run_stmts(stmts, {'num1': a, 'num2': b})
                    if r is None:
                        raise AnalysisBroken('IFOP: case %s of eval_operation not evaluable' % name)
                    if bool(r) != bool(SEM[name](a, b)) or r not in (0, 1):
                        bad = (a, b, r)
                        break
                if bad:
                    break
            obs.append(Ob('IFOP', eo.file, stmts[0]['l'], eo.q, 'semantics:' + name, VIOLATED if bad else DISCHARGED,
                          '%s(%d, %d) evaluates to %s' % ((name,) + bad) if bad else '', 'matches the C operator on 36 operand pairs'))
    return RuleResult('IFOP', obs, 14, {})


def openers(prog):
    """T-SIB(c): the directive names that parse_directives routes to parse_ifdef/parse_if are exactly the names
    ifdef_ignore counts as nested openers while skipping."""
    pd = prog.fn('parse_directives')
    ig = prog.fn('ifdef_ignore')
    A = set()
    for n in pd.nodes.values():
        if n['k'] != 'IfStmt':
            continue
        ks = [k for k in kids(n) if k is not None]
        if len(ks) < 2:
            continue
        names = [strip(call_args(x)[1], casts=True).get('s') for x in walk(ks[0]) if callee(x) in ('strcmp', 'strcasecmp')]
        calls = []
        for x in walk(ks[1]):
            if x['k'] == 'IfStmt' and x is not ks[1]:
                pass
            if callee(x) in ('parse_ifdef', 'parse_if'):
                calls.append(x)
        # only the innermost if directly guarding the call
        direct = [x for x in kids(ks[1]) if x is not None and any(callee(y) in ('parse_ifdef', 'parse_if') for y in walk(x) if y['k'] == 'CallExpr')]
        if names and direct and len(names) == 1:
            A.add(names[0])
    B = set()
    for n in ig.nodes.values():
        if n['k'] != 'IfStmt':
            continue
        ks = [k for k in kids(n) if k is not None]
        if len(ks) < 2:
            continue
        inc = any(x['k'] == 'UnaryOperator' and x.get('op') == '++' for x in kids(ks[1]) or () if x is not None) or \
            any(x['k'] == 'UnaryOperator' and x.get('op') == '++' for y in kids(ks[1]) if y is not None for x in [strip(y)])
        if inc:
            B |= {strip(call_args(x)[1], casts=True).get('s') for x in walk(ks[0]) if callee(x) in ('strcmp', 'strcasecmp')}
            for x in walk(ks[0]):
                if callee(x) in ('strncmp', 'strncasecmp'):
                    lit = strip(call_args(x)[1], casts=True).get('s') or ''
                    ln = const(call_args(x)[2])
                    B.add(lit if ln is not None and ln > len(lit) else (lit[:ln] if ln is not None else lit) + '*')
    if not A or not B:
        raise AnalysisBroken('T-SIB(c): opener sets not recognised (%s / %s)' % (A, B))
    ok = A == B
    obs = [Ob('T-SIB', ig.file, ig.line, ig.q, 'opener-sets', DISCHARGED if ok else VIOLATED,
              '' if ok else 'parse_directives opens a conditional for %s but the skip loop counts only %s as nested openers: the '
              '.endif of an uncounted opener inside a skipped block closes the outer block' % (sorted(A), sorted(B)),
              'openers %s on both sides' % sorted(A))]
    return RuleResult('T-SIB(c)', obs, 1, {})


def ifdef_table(prog):
    """IFDEF-TBL: (defined, .ifdef) -> assemble, (undefined, .ifdef) -> skip, (defined, .ifndef) -> skip,
    (undefined, .ifndef) -> assemble; parse_ifdef_ignore: skip-first assembles only after .else and vice versa."""
    fn = prog.fn('parse_ifdef')
    obs = []
    # find the if (defined) { if (ifndef == 1) ignore = 1 } else { if (ifndef == 0) ignore = 1 }
    table = {}
    for n in fn.nodes.values():
        if n['k'] != 'IfStmt':
            continue
        ks = [k for k in kids(n) if k is not None]
        if len(ks) != 3:
            continue
        if not any(callee(x) in ('macros_lookup', 'Symbols::find') for x in walk(ks[0])):
            continue
        for defined, body in ((True, ks[1]), (False, ks[2])):
            for x in walk(body):
                if x['k'] == 'IfStmt':
                    kk = [k for k in kids(x) if k is not None]
                    c = strip(kk[0])
                    if c['k'] == 'BinaryOperator' and c.get('op') == '==' and strip(kids(c)[0], casts=True).get('n') == 'ifndef':
                        val = const(kids(c)[1])
                        sets = any(strip(y)['k'] == 'BinaryOperator' and strip(y).get('op') == '=' and
                                   strip(kids(strip(y))[0]).get('n') == 'ignore_section' and const(kids(strip(y))[1]) == 1
                                   for y in walk(kk[1]))
                        if sets:
                            table[(defined, val)] = 'skip'
    want = {(True, 1): 'skip', (False, 0): 'skip'}
    ok = table == want
    obs.append(Ob('IFDEF-TBL', fn.file, fn.line, fn.q, 'decision-table', DISCHARGED if ok else VIOLATED,
                  '' if ok else 'parse_ifdef skips for (defined, ifndef) in %s; the documented table skips exactly for (defined,.ifndef) and '
                  '(undefined,.ifdef)' % sorted(table), 'skip iff (defined and .ifndef) or (undefined and .ifdef)'))
    # default of ignore_section is 0
    init0 = any(n['k'] == 'DeclStmt' and any(d['n'] == 'ignore_section' for d in n.get('decls', ())) and
                any(const(k) == 0 for k in kids(n)) for n in fn.nodes.values())
    obs.append(Ob('IFDEF-TBL', fn.file, fn.line, fn.q, 'default-assemble', DISCHARGED if init0 else VIOLATED,
                  '' if init0 else 'ignore_section does not start at 0', 'ignore_section = 0 initially', False))
    pi = prog.fn('parse_ifdef_ignore')
    # if (ignore_section == 1) { ifdef_ignore ... == 2 -> assemble } else { assemble ... == 2 -> ifdef_ignore }
    shape = []
    for n in pi.nodes.values():
        if n['k'] == 'IfStmt':
            ks = [k for k in kids(n) if k is not None]
            c = strip(ks[0])
            if c['k'] == 'BinaryOperator' and strip(kids(c)[0], casts=True).get('n') == 'ignore_section' and len(ks) == 3:
                first_then = [callee(x) for x in walk(ks[1]) if callee(x) in ('ifdef_ignore', 'AsmContext::assemble')]
                first_else = [callee(x) for x in walk(ks[2]) if callee(x) in ('ifdef_ignore', 'AsmContext::assemble')]
                shape = (const(kids(c)[1]), c['op'], sorted(set(first_then), key=first_then.index), sorted(set(first_else), key=first_else.index))
    ok = shape == (1, '==', ['ifdef_ignore', 'AsmContext::assemble'], ['AsmContext::assemble', 'ifdef_ignore'])
    obs.append(Ob('IFDEF-TBL', pi.file, pi.line, pi.q, 'else-swap', DISCHARGED if ok else VIOLATED,
                  '' if ok else 'parse_ifdef_ignore no longer runs skip-then-assemble for an untaken first branch and assemble-then-skip '
                  'for a taken one: %s' % (shape,), 'skip first => assemble after .else; assemble first => skip after .else'))
    return RuleResult('IFDEF-TBL', obs, 3, {})


def else_guard(prog):
    """ELSE-GUARD: .else / .endif outside any conditional are rejected (ifdef_count < 1 -> error return)."""
    pd = prog.fn('parse_directives')
    obs = []
    for word in ('endif', 'else'):
        ok = False
        for n in pd.nodes.values():
            if n['k'] != 'IfStmt':
                continue
            ks = [k for k in kids(n) if k is not None]
            if len(ks) < 2:
                continue
            names = [strip(call_args(x)[1], casts=True).get('s') for x in walk(ks[0]) if callee(x) == 'strcmp']
            if names != [word]:
                continue
            for x in kids(ks[1]) if ks[1]['k'] == 'CompoundStmt' else [ks[1]]:
                if x is None or x['k'] != 'IfStmt':
                    continue
                kk = [k for k in kids(x) if k is not None]
                c = strip(kk[0])
                if c['k'] == 'BinaryOperator' and 'ifdef_count' in show(kids(c)[0]) and \
                        ((c.get('op') == '<' and const(kids(c)[1]) == 1) or (c.get('op') in ('<=', '==') and const(kids(c)[1]) == 0)):
                    if any(y['k'] == 'ReturnStmt' and kids(y) and (const(kids(y)[0]) or 0) < 0 for y in walk(kk[1])):
                        ok = True
        obs.append(Ob('ELSE-GUARD', pd.file, pd.line, pd.q, 'unmatched-' + word, DISCHARGED if ok else VIOLATED,
                      '' if ok else '.%s outside a conditional block is no longer rejected' % word,
                      'ifdef_count < 1 -> error return', False))
    return RuleResult('ELSE-GUARD', obs, 2, {})


def ifdef_raw(prog):
    """IFDEF-RAW: while a condition is being read (parsing_ifdef != 0) tokens_get() hands out names as they are written:
    the statement that replaces a known symbol by its address text and the macro expansion are both control-dependent on
    a test of `parsing_ifdef == 0`.  Otherwise `defined(label)` / `.ifdef label` see a number instead of the name."""
    from rules.passsize import control_deps
    fn = prog.fn('tokens_get')
    cd, succ = control_deps(fn, set())

    def guarded(b):
        seen = set()
        st = [b]
        while st:
            x = st.pop()
            for (pc, ps_) in cd.get(x, ()):
                if (pc, ps_) in seen:
                    continue
                seen.add((pc, ps_))
                cn = fn.nodes.get(fn.blocks[pc].get('cond')) if 'cond' in fn.blocks[pc] else None
                if cn is not None:
                    own = strip(cn)
                    while own['k'] == 'BinaryOperator' and own.get('op') in ('&&', '||'):
                        own = strip(kids(own)[1])
                    if own['k'] == 'BinaryOperator' and own.get('op') in ('==', '!=') and 'parsing_ifdef' in show(kids(own)[0]) and const(kids(own)[1]) == 0:
                        true_edge = ps_ == succ[pc][0]
                        if (own['op'] == '==') == true_edge:
                            return True
                st.append(pc)
        return False
    obs = []
    # (a) symbol substitution: snprintf(token, len, "%d", address)
    subs = [c for c in fn.calls() if callee(c) == 'snprintf' and len(call_args(c)) == 4 and
            strip(call_args(c)[3], casts=True).get('n') == 'address' and strip(call_args(c)[0], casts=True).get('n') == 'token']
    # (b) macro expansion
    exps = [c for c in fn.calls() if callee(c) in ('macros_push_define', 'macros_expand_params')]
    if not subs or not exps:
        raise AnalysisBroken('IFDEF-RAW: symbol substitution (%d) / macro expansion (%d) sites of tokens_get not found' % (len(subs), len(exps)))
    # `if (parsing_ifdef != 0) { macro = NULL; }` ahead of `if (macro != NULL)` guards the expansion through the data
    def nulled_under_ifdef():
        from nk.tables import is_null
        for n in fn.nodes.values():
            if n['k'] == 'BinaryOperator' and n.get('op') == '=' and strip(kids(n)[0], casts=True).get('n') == 'macro' and is_null(kids(n)[1]):
                w = fn.where.get(n['i'])
                if w is None:
                    continue
                for (pc, ps_) in cd.get(w[0], ()):
                    cn = fn.nodes.get(fn.blocks[pc].get('cond')) if 'cond' in fn.blocks[pc] else None
                    if cn is None:
                        continue
                    own = strip(cn)
                    if own['k'] == 'BinaryOperator' and own.get('op') in ('==', '!=') and 'parsing_ifdef' in show(kids(own)[0]) and const(kids(own)[1]) == 0:
                        if (own['op'] == '!=') == (ps_ == succ[pc][0]):
                            return True
        return False
    macro_nulled = nulled_under_ifdef()
    for kind, sites in (('symbol-substitution', subs), ('macro-expansion', exps)):
        bad = [c for c in sites if not guarded(fn.where[c['i']][0])]
        if kind == 'macro-expansion' and macro_nulled:
            bad = []
        c0 = (bad or sites)[0]
        obs.append(Ob('IFDEF-RAW', fn.file, c0['l'], fn.q, kind, VIOLATED if bad else DISCHARGED,
                      '`%s` is not behind a `parsing_ifdef == 0` test: inside .if / .ifdef / defined() a known name is replaced '
                      'before the condition code looks it up' % show(c0)[:50] if bad else '',
                      '%d site(s), all behind parsing_ifdef == 0' % len(sites)))
    return RuleResult('IFDEF-RAW', obs, 2, {})


def tok_op(prog):
    """TOK-OP: tokens_get() builds the two-character comparison operators from the two characters read: in the branch
    taken when the second character is '=' the character appended is that second character (`>=`, `<=`, `==`), not the
    first one again."""
    fn = prog.fn('tokens_get')
    obs = []
    for n in fn.nodes.values():
        if n['k'] != 'IfStmt':
            continue
        ks = [x for x in kids(n) if x is not None]
        c = strip(ks[0])
        if not (c['k'] == 'BinaryOperator' and c.get('op') == '==' and const(kids(c)[1]) == ord('=') and
                strip(kids(c)[0], casts=True)['k'] == 'DeclRefExpr'):
            continue
        second = strip(kids(c)[0], casts=True)
        # the declaration of `second` must be read right before (ch1 = tokens_get_char)
        appends = [x for x in walk(ks[1]) if x['k'] == 'BinaryOperator' and x.get('op') == '=' and
                   strip(kids(x)[0])['k'] == 'ArraySubscriptExpr' and strip(kids(strip(kids(x)[0]))[0], casts=True).get('n') == 'token']
        if not appends:
            continue
        v = strip(kids(appends[0])[1], casts=True)
        ok = (v['k'] == 'DeclRefExpr' and v.get('d') == second.get('d')) or const(kids(appends[0])[1]) == ord('=')
        obs.append(Ob('TOK-OP', fn.file, appends[0]['l'], fn.q, 'second-char:%s' % second.get('n'), DISCHARGED if ok else VIOLATED,
                      '' if ok else 'when `%s == \'=\'` the tokeniser appends `%s` instead: ">=" and "<=" become ">>" and "<<", which the '
                      '.if evaluator does not know' % (second.get('n'), show(kids(appends[0])[1])), 'appends the character it tested'))
    if not obs:
        raise AnalysisBroken('TOK-OP: the `ch1 == \'=\'` branch of tokens_get was not found')
    return RuleResult('TOK-OP', obs, 1, {})


def ret_store(prog):
    """RET-STORE: parse_ifdef_expression() hands its value back through *num: every `return 0` is in a block that stores
    `*num` first (a level that returns to a lower-precedence operator without storing leaves the caller with the left
    operand instead of the comparison's result)."""
    fns = [f for f in prog.by_name.get('parse_ifdef_expression', []) if f.file == 'core/ifdef_expression.cpp']
    if not fns:
        raise AnalysisBroken('RET-STORE: parse_ifdef_expression not found')
    fn = fns[0]
    ps = fn.params()
    outp = [p for p in ps if p['n'] == 'num']
    if not outp:
        raise AnalysisBroken('RET-STORE: no `num` parameter')
    obs = []
    k = 0
    for n in sorted(fn.nodes.values(), key=lambda x: x['i']):
        if n['k'] != 'ReturnStmt' or not kids(n) or const(kids(n)[0]) != 0:
            continue
        w = fn.where.get(n['i'])
        if w is None:
            continue
        k += 1
        stored = False
        for e in fn.blocks[w[0]]['e'][:w[1]]:
            x = fn.nodes.get(e)
            if x is not None and x['k'] == 'BinaryOperator' and x.get('op') == '=':
                l = strip(kids(x)[0])
                if l['k'] == 'UnaryOperator' and l.get('op') == '*' and strip(kids(l)[0], casts=True).get('d') == outp[0]['d']:
                    stored = True
        if not stored:
            # `*num = n;` in a dominating block, with nothing but statements that leave n alone on the way to the return
            # (`*num = n; if (...) { tokens_push(...); } return 0;`)
            from nk.cfg import dominators
            dom = dominators(fn)
            pr = fn.preds()
            for sb in dom[w[0]]:
                if sb == w[0]:
                    continue
                st_i = None
                for i_, e in enumerate(fn.blocks[sb]['e']):
                    x = fn.nodes.get(e)
                    if x is not None and x['k'] == 'BinaryOperator' and x.get('op') == '=':
                        l = strip(kids(x)[0])
                        if l['k'] == 'UnaryOperator' and l.get('op') == '*' and strip(kids(l)[0], casts=True).get('d') == outp[0]['d']:
                            st_i = (i_, strip(kids(x)[1], casts=True).get('d'))
                if st_i is None:
                    continue
                # blocks between: reachable from sb without leaving through the function's loops back to sb, reaching w
                fwd = set()
                stack = [x for x in fn.succs(sb)]
                while stack:
                    x = stack.pop()
                    if x in fwd or x == sb:
                        continue
                    fwd.add(x)
                    if x != w[0]:
                        stack.extend(fn.succs(x))
                bwd = set()
                stack = [w[0]]
                while stack:
                    x = stack.pop()
                    if x in bwd or x == sb:
                        continue
                    bwd.add(x)
                    stack.extend(pr.get(x, ()))
                between = (fwd & bwd) | {w[0]}
                clean = True
                for b_ in between:
                    for e in fn.blocks[b_]['e']:
                        x = fn.nodes.get(e)
                        if x is not None and x['k'] in ('BinaryOperator', 'CompoundAssignOperator', 'UnaryOperator') and \
                                (x.get('op') in ('++', '--') or (x.get('op', '').endswith('=') and x['op'] not in ('==', '!=', '<=', '>='))):
                            t_ = strip(kids(x)[0])
                            if t_.get('d') == st_i[1] or (t_['k'] == 'UnaryOperator' and t_.get('op') == '*'):
                                clean = False
                for e in fn.blocks[sb]['e'][st_i[0] + 1:]:
                    x = fn.nodes.get(e)
                    if x is not None and x['k'] == 'BinaryOperator' and x.get('op') == '=' and strip(kids(x)[0]).get('d') == st_i[1]:
                        clean = False
                if clean:
                    stored = True
        obs.append(Ob('RET-STORE', fn.file, n['l'], fn.q, 'return-0#%d' % k, DISCHARGED if stored else VIOLATED,
                      '' if stored else 'this `return 0` does not store *num: the value computed at this precedence level is lost and the '
                      'caller continues with the operand it had before (`.if 2 < 1 || 0` is true)', '*num stored before the return'))
    if k < 3:
        raise AnalysisBroken('RET-STORE: only %d success returns in parse_ifdef_expression' % k)
    return RuleResult('RET-STORE', obs, 3, {})


def endif_protocol(prog):
    """ENDIF-PROTOCOL: a branch that is being assembled ends at its .endif and nowhere else:
    (a) the .endif directive makes parse_directives() return a code that AsmContext::assemble() turns into a non-zero
        return (so the assemble() call started for the branch stops there), and
    (b) in parse_ifdef_ignore() an assemble() that comes back with 0 (end of file) is an error: every path on which the
        result is 0 ends in `return -1`."""
    obs = []
    pd = prog.fn('parse_directives')
    code = None
    for n in pd.nodes.values():
        if n['k'] == 'IfStmt':
            ks = [x for x in kids(n) if x is not None]
            if '"endif"' in show(ks[0]) and 'strcmp' in show(ks[0]):
                rets = [x for x in walk(ks[1]) if x['k'] == 'ReturnStmt' and kids(x)]
                vals = [const(kids(x)[0]) for x in rets]
                code = [v for v in vals if v not in (-1, None)]
    if code is None:
        raise AnalysisBroken('ENDIF-PROTOCOL: .endif branch of parse_directives not found')
    asm = prog.fn('AsmContext::assemble')
    mapped = None
    for n in asm.nodes.values():
        if n['k'] == 'IfStmt':
            ks = [x for x in kids(n) if x is not None]
            c = strip(ks[0])
            if c['k'] == 'BinaryOperator' and c.get('op') == '==' and code and const(kids(c)[1]) == code[-1] and code[-1] != 0:
                rets = [x for x in walk(ks[1]) if x['k'] == 'ReturnStmt' and kids(x)]
                if rets:
                    mapped = const(kids(rets[0])[0])
    ok = bool(code) and code[-1] not in (0, None) and mapped not in (None, 0, -1)
    obs.append(Ob('ENDIF-PROTOCOL', pd.file, pd.line, 'parse_directives', 'endif-ends-branch', DISCHARGED if ok else VIOLATED,
                  '' if ok else '.endif returns %s from parse_directives() and assemble() maps it to %s: the assemble() call of a taken '
                  'branch does not stop at .endif, so a missing or surplus .endif cannot be noticed' % (code, mapped),
                  '.endif returns %s, assemble() returns %s' % (code, mapped)))
    # (b)
    fn = prog.fn('parse_ifdef_ignore')
    calls = [c for c in fn.calls() if (callee(c) or '').split('(')[0] == 'AsmContext::assemble']
    if not calls:
        raise AnalysisBroken('ENDIF-PROTOCOL: parse_ifdef_ignore does not call assemble()')
    k = 0
    for c in sorted(calls, key=lambda x: x['i']):
        k += 1
        p = fn.parent.get(c['i'])
        while p is not None and p['k'] in ('ImplicitCastExpr', 'ParenExpr'):
            p = fn.parent.get(p['i'])
        var = None
        if p is not None and p['k'] == 'BinaryOperator' and p.get('op') == '=':
            var = strip(kids(p)[0], casts=True).get('d')
        elif p is not None and p['k'] == 'DeclStmt':
            var = p['decls'][0]['d'] if p.get('decls') else None
        w = fn.where.get(c['i'])
        bad = None
        if var is None or w is None:
            bad = 'the result of assemble() is not kept in a variable that is tested'
        else:
            # follow the CFG with var == 0
            seen = set()
            st = [w[0]]
            first = True
            while st and bad is None:
                b = st.pop()
                if b in seen:
                    continue
                seen.add(b)
                bb = fn.blocks[b]
                rets = [fn.nodes[e] for e in bb['e'] if e in fn.nodes and fn.nodes[e]['k'] == 'ReturnStmt']
                if rets and not (first and fn.where[rets[0]['i']][1] < w[1]):
                    v = const(kids(rets[0])[0]) if kids(rets[0]) else None
                    if v != -1:
                        bad = 'with assemble() == 0 (end of file inside the branch) the function reaches `return %s` at line %d' % (v, rets[0]['l'])
                    continue
                first = False
                cn = fn.nodes.get(bb.get('cond')) if 'cond' in bb else None
                nxt = list(bb['s'])
                if cn is not None and len(nxt) == 2:
                    own = strip(cn)
                    while own['k'] == 'BinaryOperator' and own.get('op') in ('&&', '||'):
                        own = strip(kids(own)[1])
                    if own['k'] == 'BinaryOperator' and own.get('op') in ('==', '!=') and \
                            strip(kids(own)[0], casts=True).get('d') == var and const(kids(own)[1]) is not None:
                        t = (0 == const(kids(own)[1])) == (own['op'] == '==')
                        nxt = [nxt[0]] if t else [nxt[1]]
                st.extend(x for x in nxt if x is not None)
        obs.append(Ob('ENDIF-PROTOCOL', fn.file, c['l'], fn.q, 'eof-in-branch#%d' % k, VIOLATED if bad else DISCHARGED, bad or '',
                      'assemble() == 0 leads to return -1'))
    return RuleResult('ENDIF-PROTOCOL', obs, 3, {})


def not_apply(prog):
    """NOT-APPLY: in parse_ifdef_expression every place that completes an operand (`state = 1`) is dominated by the test that
    applies and clears a pending `!` (`if (is_not == 1) { n = !n; is_not = 0; }`).  A path that reaches `state = 1` around
    it (e.g. after the value of a parenthesised group) leaves the negation pending: `!(A)` evaluates as A and the `!` lands
    on the next operand."""
    from nk.cfg import dominators
    fn = prog.fn('parse_ifdef_expression')
    dom = dominators(fn)
    tests = set()
    for b, bb in fn.blocks.items():
        cn = fn.nodes.get(bb.get('cond')) if 'cond' in bb else None
        if cn is not None and any(x['k'] == 'DeclRefExpr' and x.get('n') == 'is_not' for x in walk(cn)):
            tests.add(b)
    if not tests:
        raise AnalysisBroken('NOT-APPLY: no test of is_not in parse_ifdef_expression')
    obs = []
    k = 0
    for n in sorted(fn.nodes.values(), key=lambda x: x['i']):
        if n['k'] == 'BinaryOperator' and n.get('op') == '=' and strip(kids(n)[0]).get('n') == 'state' and const(kids(n)[1]) == 1:
            w = fn.where.get(n['i'])
            if w is None:
                continue
            k += 1
            ok = bool(tests & dom[w[0]])
            obs.append(Ob('NOT-APPLY', fn.file, n['l'], fn.q, 'state=1#%d' % k, DISCHARGED if ok else VIOLATED,
                          '' if ok else '`state = 1` at line %d completes an operand on a path that does not pass the `is_not` test: a `!` '
                          'written before this operand (a parenthesised group) is not applied to it and stays pending for the next '
                          'operand' % n['l'], 'dominated by the is_not test', False))
    if not obs:
        raise AnalysisBroken('NOT-APPLY: no `state = 1` in parse_ifdef_expression')
    # every store to is_not other than the clearing one toggles it: `!!A` is A, so the store must read the old value
    nt = 0
    for n in sorted(fn.nodes.values(), key=lambda x: x['i']):
        if n['k'] in ('BinaryOperator', 'CompoundAssignOperator') and n.get('op', '').endswith('=') and \
                n['op'] not in ('==', '!=', '<=', '>=') and strip(kids(n)[0]).get('n') == 'is_not':
            if n['op'] == '=' and const(kids(n)[1]) == 0:
                continue
            nt += 1
            reads_old = n['k'] == 'CompoundAssignOperator' or any(
                x['k'] == 'DeclRefExpr' and x.get('n') == 'is_not' for x in walk(kids(n)[1]))
            obs.append(Ob('NOT-APPLY', fn.file, n['l'], fn.q, 'toggle#%d' % nt, DISCHARGED if reads_old else VIOLATED,
                          '' if reads_old else '`%s` sets the pending negation without reading its old value: a second `!` no longer '
                          'cancels the first (`!!A` evaluates as `!A`)' % show(n), 'the store toggles the flag', False))
    if nt == 0:
        raise AnalysisBroken('NOT-APPLY: no store that sets is_not in parse_ifdef_expression')
    return RuleResult('NOT-APPLY', obs, 2, {})

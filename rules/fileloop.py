"""FILE-LOOP (C17): a loop in a file reader whose trip count comes from the file is bounded by the file.

Scope: fileio/read_*.cpp.  Sources are the values the readers take from the file (FileIo::get_int8/16/32/64, getc, fgetc,
fread buffers are not followed).  A local or record field is *file-supplied* when it is assigned from an expression that
contains a source call or another file-supplied value (flow-insensitive closure over the readers; fields by record and
name).  A loop `for (i = 0; i < X; ...)` / `while (i < X)` whose bound X reads a file-supplied value of a 32- or 64-bit type
must be preceded, on every path (dominating test), by a test that reads the same value and has an arm that never reaches
the loop (error return, break out).  Without it a damaged or hostile header makes the loader run up to 2^32 iterations, each
storing an EOF byte into the image: naken_util eats memory for minutes instead of reporting the file as bad.
8- and 16-bit counts are bounded by their type and are not sites."""
from nk.facts import kids, strip, const, callee, ckey, call_args, show, walk
from nk.cfg import dominators, natural_loops
from nk.report import Ob, RuleResult, DISCHARGED, VIOLATED, OBSERVATION
from nk.build import AnalysisBroken
from rules.passsize import key_of

SOURCES = ('FileIo::get_int32', 'FileIo::get_int64')     # 8/16-bit reads are bounded by their type
BYTE_SOURCES = ('getc', 'fgetc', 'FileIo::get_int8', 'FileIo::get_int16')


def _cal(n):
    return (callee(n) or '').split('(')[0]


def _keys(fn, n):
    out = set()
    for x in walk(n):
        if x['k'] in ('DeclRefExpr', 'MemberExpr'):
            k = key_of(fn, x)
            if k:
                out.add(k if k.startswith('F:') else '%s|%s' % (fn.key, k))
    return out


def _width(t):
    t = (t or '').replace('const ', '').strip()
    return {'char': 8, 'unsigned char': 8, 'signed char': 8, 'uint8_t': 8, 'int8_t': 8, 'short': 16, 'unsigned short': 16,
            'uint16_t': 16, 'int16_t': 16, 'int': 32, 'unsigned int': 32, 'uint32_t': 32, 'int32_t': 32, 'long': 64,
            'unsigned long': 64, 'uint64_t': 64, 'int64_t': 64, 'long long': 64, 'unsigned long long': 64, 'size_t': 64}.get(t)


def _wraps(fn, side, ks, w):
    """Does the file-supplied value occur in `side` under a +, * or << with a second non-constant operand, computed in a type
    no wider than the value itself?"""
    for x in walk(side):
        if x['k'] == 'BinaryOperator' and x.get('op') in ('+', '*', '<<') and (_keys(fn, x) & ks):
            a, b = kids(x)
            if const(a) is not None or const(b) is not None:
                continue
            wx = _width(fn.type(x))
            if wx is None or w is None or wx <= w:
                return True
    return False


def file_loops(prog, floor=6):
    fns = [f for f in prog.fns.values() if f.file.startswith('fileio/read_') and f.blocks]
    if len(fns) < 8:
        raise AnalysisBroken('FILE-LOOP: only %d reader functions' % len(fns))
    # assignments: (fn, lhs key, rhs)
    assigns = []
    for fn in fns:
        for n in fn.nodes.values():
            if n['k'] in ('BinaryOperator', 'CompoundAssignOperator') and n.get('op', '').endswith('=') and \
                    n['op'] not in ('==', '!=', '<=', '>='):
                lk = key_of(fn, kids(n)[0])
                if lk:
                    assigns.append((fn, lk if lk.startswith('F:') else '%s|%s' % (fn.key, lk), kids(n)[1]))
            elif n['k'] == 'DeclStmt':
                for d, i in zip([x for x in n.get('decls', ()) if x.get('init')], kids(n)):
                    assigns.append((fn, '%s|V:%s' % (fn.key, d['d']), i))
    # static helpers that assemble a 24/32-bit value from bytes of the file (`read_int32(FILE *)`) are sources too
    helper_src = set()
    for fn in fns:
        if fn.name.startswith(('read_int32', 'read_int24', 'get_int32', 'get_int24')):
            if any(_cal(c) in BYTE_SOURCES for c in fn.calls()):
                helper_src.add(fn.key)
    tainted = set()
    changed = True
    while changed:
        changed = False
        for fn, lk, rhs in assigns:
            if lk in tainted:
                continue
            src = any(x['k'] in ('CallExpr', 'CXXMemberCallExpr') and (_cal(x) in SOURCES or ckey(x) in helper_src)
                      for x in walk(rhs))
            if src or (_keys(fn, rhs) & tainted):
                tainted.add(lk)
                changed = True
    obs = []
    nloops = 0
    for fn in sorted(fns, key=lambda f: (f.file, f.line)):
        loops = natural_loops(fn)
        if not loops:
            continue
        dom = None
        for h, body in sorted(loops.items()):
            bb = fn.blocks[h]
            cn = fn.nodes.get(bb.get('cond')) if 'cond' in bb else None
            if cn is None:
                continue
            own = strip(cn)
            if own['k'] != 'BinaryOperator' or own.get('op') not in ('<', '<=', '>', '>=', '!='):
                continue
            nloops += 1
            for bound in kids(own):
                ks = _keys(fn, bound) & tainted
                if not ks:
                    continue
                w = _width(fn.type(strip(bound, casts=True)))
                if w is not None and w <= 16:
                    continue
                # the loop counter itself is not a bound
                if all(k.split('|')[-1].startswith('V:') and any(
                        x['k'] == 'UnaryOperator' and x.get('op') in ('++', '--') and
                        key_of(fn, kids(x)[0]) == k.split('|')[-1] for x in fn.nodes.values()) for k in ks):
                    continue
                if dom is None:
                    dom = dominators(fn)
                # blocks that can reach the loop header
                reach = {h}
                pr = fn.preds()
                st = [h]
                while st:
                    x = st.pop()
                    for p in pr.get(x, ()):
                        if p not in reach:
                            reach.add(p)
                            st.append(p)
                guard = None
                for b in dom[h]:
                    if b == h:
                        continue
                    c2 = fn.nodes.get(fn.blocks[b].get('cond')) if 'cond' in fn.blocks[b] else None
                    if c2 is None or not (_keys(fn, c2) & ks):
                        continue
                    # an upper bound: a relational comparison that reads the value
                    # (a side where the value is an operand of a sum/product computed in its own width does not bound it:
                    #  `offset + size > file_length` holds for size = 2^64 - offset)
                    if not any(x['k'] == 'BinaryOperator' and x.get('op') in ('<', '>', '<=', '>=') and
                               any((_keys(fn, sd) & ks) and not _wraps(fn, sd, ks, w) for sd in kids(x))
                               for x in walk(c2)):
                        continue
                    if any(s_ is not None and s_ not in reach for s_ in fn.blocks[b]['s']):
                        guard = c2
                        break
                txt = show(own)[:60]
                eof_break = None
                if True:
                    # the body leaves the loop when the file ends (`if (ch == EOF) break;`, `if (feof(in)) break;`)
                    for b in body:
                        c2 = fn.nodes.get(fn.blocks[b].get('cond')) if 'cond' in fn.blocks[b] else None
                        if c2 is None or not any(s_ is not None and s_ not in body for s_ in fn.blocks[b]['s']) or b == h:
                            continue
                        t2 = show(c2)
                        if 'EOF' in t2 or 'feof' in t2 or '== -1' in t2:
                            eof_break = c2
                if eof_break is not None:
                    obs.append(Ob('FILE-LOOP', fn.file, own['l'], fn.q, 'loop:%s' % txt, DISCHARGED, '',
                                  'the body leaves the loop at the end of the file (`%s`, line %d)' % (show(eof_break)[:40], eof_break['l'])))
                elif guard is not None:
                    obs.append(Ob('FILE-LOOP', fn.file, own['l'], fn.q, 'loop:%s' % txt, DISCHARGED, '',
                                  'the file-supplied bound is tested before the loop (`%s`, line %d) with an arm that leaves' % (
                                      show(guard)[:50], guard['l'])))
                else:
                    obs.append(Ob('FILE-LOOP', fn.file, own['l'], fn.q, 'loop:%s' % txt, VIOLATED,
                                  'the loop `%s` runs as often as `%s` says, a %s-bit value taken from the file, and nothing before it '
                                  'compares that value with the file length or a limit: a damaged header makes the reader loop up to '
                                  '2^32 times past the end of the file (every get_int8 returns EOF, every byte is stored into a new '
                                  'page) instead of rejecting the file' % (txt, show(bound)[:40], w or '32/64')))
                break
    if nloops < floor:
        raise AnalysisBroken('FILE-LOOP: only %d loops in the readers' % nloops)
    return RuleResult('FILE-LOOP', obs, 3, {'reader_functions': len(fns), 'loops': nloops, 'file_supplied_keys': len(tainted)})

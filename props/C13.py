"""C13 (partial): R-NDET, R-GLOB, R-PURE, R-OPT, R-PASS, FRESH, OUT-NAME, DATA-TAG."""
from nk import report
from rules import state, passes, listing, lane
from . import common

EXPLANATION = (
    'Decides the structural clauses listed; does not decide the behaviour as a whole. R-NDET: time/rand/getenv/%p are '
    'reachable from the assembler only through write_srec_header (the named exception). R-GLOB: no function outside the '
    'drivers and simulators stores to a variable with static storage. R-PURE: everything reachable from the 59 '
    'list_output/disasm_range entry points only reads the image. R-OPT: branches on reporting options (-q, -l, '
    '-dump_symbols, -dump_macros, write_list_file) control only reporting statements (nothing that reaches an image/symbol '
    'write or consumes input). R-PASS: no assembling state survives from pass 1 into pass 2. FRESH: the interactive asm '
    'command assembles into a fresh automatic AsmContext. OUT-NAME: the output file name is only opened, printed, compared or '
    'deleted, never handed to a content writer. DATA-TAG: every data directive writes its bytes in pass 2 (nothing relies on what pass 1 left in the image). Not decided: byte equality of two outputs.')


def run(tier, t0):
    prog = common.program()
    cg = common.callgraph()
    results = [state.ndet(prog, cg, [common.ASM_MAIN, 'assemble_code']), state.glob(prog), state.pure(prog, cg),
               state.opt(prog, cg), passes.rpass(prog, cg), state.fresh(prog), state.outname(prog), listing.data_tag(prog), lane.dl_width(prog)]
    return report.finish('C13', tier, results, EXPLANATION, [], common.TRUSTED, t0)

.thumb
  add sp, #0
  add sp, #512
  add sp, #-4
  add sp, #516

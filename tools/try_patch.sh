#!/bin/sh
# try_patch.sh <patch.diff> <PROP>... : run checks against a scratch copy of /repo with the patch applied
p="$1"; shift
t=$(mktemp -d /tmp/nktry-XXXXXX)
rsync -a --exclude .git --exclude 'build/*/' --exclude '*.o' --exclude '*.a' /repo/ $t/repo/ 2>/dev/null
if ! patch -p1 -s -d $t/repo -i "$(realpath $p)"; then echo "PATCH-DOES-NOT-APPLY"; rm -rf $t; exit 3; fi
for prop in "$@"; do
  NK_REPO=$t/repo NK_NO_EVIDENCE=1 /verif/check $prop > $t/out.txt 2>&1
  rc=$?
  grep -B1 "^VIOLATION\|^ANALYSIS-BROKEN" $t/out.txt | grep -v "^--" | cut -c1-${WIDTH:-400} | head -${TAIL:-12}
  echo "== $prop exit=$rc"
done
rm -rf $t

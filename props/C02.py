"""C02 (partial): T-SIB(a) inter-pass protocol, ADD-SYM, R-PASS, SYM-LOCK."""
from nk import report
from nk.facts import kids, strip, const, callee
from nk.report import Ob, RuleResult, DISCHARGED, VIOLATED
from rules import passes, passsize
from . import common

EXPLANATION = (
    'Decides the structural clauses listed; does not decide the behaviour as a whole. T-SIB(a): on every path between '
    'the two assemble() calls of main(), symbols.lock(), symbols.scope_reset(), pass = 2 and init() are executed. '
    'ADD-SYM: the pass-1 skip branch of add_bin8/16/32 advances the address by exactly the bytes the write branches emit. '
    'R-PASS: no encoding-relevant state written in pass 1 survives into pass 2. SYM-LOCK: Symbols::append is a no-op '
    'returning success once the table is locked, and nothing unlocks it. DEFAULT-CPU: init() selects the default CPU through set_cpu(), so a source without CPU directive gets the complete cpu_list[] settings of msp430 (pass_1_write_disable for its memo) and cpu_list_index is never negative. MEMO-GOV: a value test that governs a pass-1 memo '
    'write governs in pass 2 only statements that consult the memo. MEMO-PAIR: a memo that is written is read. MEMO-SURVIVES: '
    'CPUs whose assembler writes the memo have pass_1_write_disable set (else add_bin overwrites it in pass 1). MEMO-ADDR: '
    'no memo access follows an emission of the same instruction (the address has moved). PASS-FLAG: no emission-controlling '
    'pass-2 test reads a variable that is stored only in pass 1. PASS-SIZE: a pass-2 test of a symbol-derived value against a '
    'constant whose arms emit different byte counts when the memo says "unknown" is a violation; tests whose arms are not '
    'finite byte sets (table search loops) are listed as not decided, with the triage classification (forward-reference '
    'experiments, triage/passsize/) where there is one. Not decided: size decisions taken through strings or table rows '
    '(68000 add->addq alias), parser-level differences between the passes (ignore_operand swallowing a closing token).')


def symlock(prog):
    obs = []
    ap = prog.fn('Symbols::append')
    # first statement: if (locked) return 0
    ok = False
    for b in ap.blocks.values():
        cond = ap.nodes.get(b.get('cond')) if 'cond' in b else None
        if cond is None:
            continue
        c = strip(cond, casts=True)
        names = c.get('n') if c['k'] == 'MemberExpr' else None
        if c['k'] == 'BinaryOperator' and c.get('op') == '==':
            names = strip(kids(c)[0], casts=True).get('n')
        if names == 'locked' and b['s'][0] is not None:
            for e in ap.blocks[b['s'][0]]['e']:
                x = ap.nodes.get(e)
                if x is not None and x['k'] == 'ReturnStmt' and kids(x) and const(kids(x)[0]) == 0:
                    ok = True
    obs.append(Ob('SYM-LOCK', ap.file, ap.line, ap.q, 'locked-noop', DISCHARGED if ok else VIOLATED,
                  '' if ok else 'Symbols::append no longer returns 0 without effect when the table is locked: pass-2 labels are '
                  'appended again (duplicate errors or moved labels)', 'if (locked) return 0'))
    unlocks = []
    for fn in prog.fns.values():
        for n in fn.nodes.values():
            if n['k'] == 'BinaryOperator' and n.get('op') == '=':
                l = strip(kids(n)[0])
                if l['k'] == 'MemberExpr' and l['n'] == 'locked' and l.get('rec') == 'Symbols' and const(kids(n)[1]) == 0:
                    unlocks.append((fn, n))
    for fn, n in unlocks:
        obs.append(Ob('SYM-LOCK', fn.file, n['l'], fn.q, 'unlock', VIOLATED, 'Symbols::locked is cleared: labels could move in pass 2'))
    obs.append(Ob('SYM-LOCK', ap.file, ap.line, 'Symbols', 'irreversible', DISCHARGED if not unlocks else VIOLATED, '',
                  'no store of false/0 to Symbols::locked outside the constructor initialiser', False))
    return RuleResult('SYM-LOCK', obs, 2, {})


def run(tier, t0):
    prog = common.program()
    cg = common.callgraph()
    results = [passes.interpass(prog), passes.addsym(prog), passes.rpass(prog, cg), passes.default_cpu(prog, cg), symlock(prog),
               passsize.memo_gov(prog), passsize.memo_pair(prog), passsize.memo_survives(prog, cg), passsize.memo_addr(prog),
               passsize.pass_flag(prog), passsize.pass_size(prog)]
    return report.finish('C02', tier, results, EXPLANATION, [], common.TRUSTED, t0)

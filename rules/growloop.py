"""GROW-LOOP (C20/C16): a loop does not iterate up to a *snapshot* of the size of a container that its own body makes grow.

Instance: a natural loop whose exit test compares a counter with a local that has exactly one definition, a call of a member
function M on some object (`const int count = linker->get_symbol_count()`), evaluated before the loop.  Let R be the member
fields M reads (through helpers of the same class).  The instance is violated when a function reachable from the loop body
(call graph, depth <= 6) is a member of the same class and stores to a field in R: elements appended while the loop runs are
never visited (a function that is only called by another imported function is never placed).  Loops that re-evaluate the
size in their test, or ask the container for the element at the index until it answers null, are the accepted forms."""
from nk.facts import kids, strip, const, callee, ckey, show, walk, call_args
from nk.cfg import natural_loops
from nk.report import Ob, RuleResult, DISCHARGED, VIOLATED, OBSERVATION
from nk.build import AnalysisBroken
from rules.pagebase import _defs


def _fields(fn, write):
    out = set()
    for n in fn.nodes.values():
        if write:
            tgt = None
            if n['k'] in ('BinaryOperator', 'CompoundAssignOperator') and n.get('op', '').endswith('=') and \
                    n['op'] not in ('==', '!=', '<=', '>='):
                tgt = kids(n)[0]
            elif n['k'] == 'UnaryOperator' and n.get('op') in ('++', '--'):
                tgt = kids(n)[0]
            if tgt is None:
                continue
            for x in walk(tgt):
                if x['k'] == 'MemberExpr' and x.get('rec'):
                    out.add((x['rec'], x['n']))
                    break
        elif n['k'] == 'MemberExpr' and n.get('rec'):
            out.add((n['rec'], n['n']))
    return out


def grow_loop(prog, cg, scope, floor=3):
    obs = []
    for fn in sorted(prog.functions(scope), key=lambda f: (f.file, f.line)):
        if not fn.blocks:
            continue
        loops = natural_loops(fn)
        k = 0
        for h, body in sorted(loops.items()):
            done = False
            for b in sorted(body):
                bb = fn.blocks[b]
                cn = fn.nodes.get(bb.get('cond')) if 'cond' in bb else None
                if cn is None or not any(s_ is not None and s_ not in body for s_ in bb['s']):
                    continue
                own = strip(cn)
                while own['k'] == 'BinaryOperator' and own.get('op') in ('&&', '||'):
                    own = strip(kids(own)[1])
                if own['k'] != 'BinaryOperator' or own.get('op') not in ('<', '<=', '>', '>=', '!='):
                    continue
                for side in kids(own):
                    v = strip(side, casts=True)
                    if v['k'] != 'DeclRefExpr' or v.get('dk') != 'local':
                        continue
                    ds = _defs(fn, v['d'])
                    if len(ds) != 1:
                        continue
                    c = strip(ds[0], casts=True)
                    if c['k'] != 'CXXMemberCallExpr':
                        continue
                    # defined outside the loop
                    w = fn.block_of(c)
                    if w is None or w[0] in body:
                        continue
                    m = prog.by_key.get(ckey(c))
                    if m is None or '::' not in m.q:
                        continue
                    cls = m.q.split('::')[0]
                    reads = set(_fields(m, False))
                    for q in cg.reachable({m.key}):
                        f2 = prog.by_key.get(q)
                        if f2 is not None and f2.q.startswith(cls + '::'):
                            reads |= _fields(f2, False)
                    reads = {r for r in reads if r[0] == cls}
                    k += 1
                    construct = 'loop#%d:%s' % (k, show(own)[:40])
                    # functions reachable from the body
                    roots = set()
                    indirect = False
                    for bid in body:
                        for e in fn.blocks[bid]['e']:
                            n = fn.nodes.get(e)
                            if n is not None and n['k'] in ('CallExpr', 'CXXMemberCallExpr'):
                                if ckey(n):
                                    roots.add(ckey(n))
                                else:
                                    indirect = True
                    if indirect:
                        # a call through a function pointer: the targets the call graph resolved for this function
                        direct = {ckey(c_) for c_ in fn.calls() if ckey(c_)}
                        roots |= set(cg.edges.get(fn.key, ())) - direct
                    grow = None
                    for q in sorted(cg.reachable(roots)):
                        f2 = prog.by_key.get(q)
                        if f2 is None or not f2.q.startswith(cls + '::'):
                            continue
                        wr = _fields(f2, True) & reads
                        if wr:
                            grow = (f2, sorted(wr)[0])
                            break
                    if grow:
                        obs.append(Ob('GROW-LOOP', fn.file, own['l'], fn.q, construct, VIOLATED,
                                      'the loop runs up to `%s`, a snapshot of `%s` taken before the loop, while its body reaches %s, '
                                      'which changes %s::%s — what %s counts: elements added during the loop are never visited' % (
                                          v['n'], show(c)[:50], grow[0].q, grow[1][0], grow[1][1], m.q)))
                    else:
                        obs.append(Ob('GROW-LOOP', fn.file, own['l'], fn.q, construct, DISCHARGED, '',
                                      'nothing reachable from the body stores to a field %s reads' % m.q, True))
                    done = True
                    break
                if done:
                    break
    return RuleResult('GROW-LOOP', obs, floor, {})

.f100_l
.org 0x100
start:
  add short data
after_add:
  nop
  nop
data:
  nop

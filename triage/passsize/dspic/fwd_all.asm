.dspic
.org 0x100
start:
  goto fwd_code
l1:
  call fwd_code
l2:
  call w3
l3:
  goto w4
l4:
  do #fwd_small, fwd_code
l5:
  do w2, fwd_code
l6:
  bra fwd_code
l7:
  bra nz, fwd_code
l8:
  rcall fwd_code
l9:
  mov #fwd_big, w1
l10:
  mov.b #fwd_small, w1
l11:
  add #fwd_small, w1
l12:
  mov fwd_data, w2
l13:
  mov w2, fwd_data
l14:
  mov [w1+8], w2
l15:
  mov w2, [w1+8]
l16:
  mov [w1+w2], w3
l17:
  mov.b [w1++], [--w3]
l18:
  add w1, #fwd_small, [w3++]
l19:
  add w1, [w2], [w3]
l20:
  bclr [w1], #fwd_small
l21:
  btst.c [w1++], #fwd_small
l22:
  btst.c [w1], w2
l23:
  mul.uu w1, #fwd_small, w2
l24:
  mul.ss w1, [w2], w4
l25:
  sl w1, #fwd_small, w2
l26:
  cp w1, #fwd_small
l27:
  cp w1, [w2++]
l28:
  cp0 [w2]
l29:
  clr [w3++]
l30:
  mov.d w2, [w4++]
l31:
  mov.d [w4++], w2
l32:
  pop.d w2
l33:
  push.d w2
l34:
  exch w1, w2
l35:
  daw.b w1
l36:
  swap w1
l37:
  ff1l [w1], w2
l38:
  div.s w2, w3
l39:
  divf w2, w3
l40:
  add w1, w2, w3
l41:
  bsw.z [w1], w2
l42:
  lac [w1+w2], #fwd_lit4, a
l43:
  sac a, #fwd_lit4, [w1+w2]
l44:
  repeat #fwd_small
l45:
  lnk #fwd_small
l46:
  mov fwd_data, wreg
l47:
  nop
fwd_code:
  nop
last:
  return
.set fwd_small = 4
.set fwd_lit4 = 2
.set fwd_big = 0x1234
.set fwd_data = 0x0800

"""WRAP-LOOP: a loop `while (a <= E)` over a 32-bit unsigned address a that is advanced in the body terminates only
if a can exceed E; when E can be 0xffffffff (the loop bound is an address range's last byte taken from a parameter or
from Memory::high_address, both of which reach the top of the 32-bit space) the increment wraps to 0 and the test
never fails.  Discharged when the loop variable is wider than 32 bits, the bound is proven < 2^32 - step, or the
body leaves the loop on wrap (`if (a < old) break`, `if (a == 0) break`)."""
from nk.facts import kids, strip, const, show, walk, callee
from nk.cfg import natural_loops
from nk.bitflow import type_width
from nk.report import Ob, RuleResult, DISCHARGED, VIOLATED, OBSERVATION
from nk.build import AnalysisBroken


# loops that match the pattern but cannot wrap, one reason each (replayed)
ACCEPTED = {
    ('disasm/ebpf.cpp', 'disasm_range_ebpf'):
        'the range is scaled by bytes_per_address = 8 before the call, so `end` is at most 0xfffffff8 while `start` advances '
        'by the 2 the decoder returns: start reaches 0xfffffffa > end before it can wrap (replayed: '
        '-ebpf -disasm_range 0xfffffff0-0xffffffff ends)',
}


def wrap_loops(prog, scope, an, floor=20, strict_fns=()):
    obs = []
    for fn in sorted(prog.functions(scope), key=lambda f: (f.file, f.line)):
        if not fn.blocks:
            continue
        loops = natural_loops(fn)
        if not loops:
            continue
        fa = None
        k = 0
        for h, body in sorted(loops.items()):
            # loop test: a <= E in the header (or a block of the header's condition chain)
            for b in sorted(body):
                bb = fn.blocks[b]
                cn = fn.nodes.get(bb.get('cond')) if 'cond' in bb else None
                if cn is None:
                    continue
                own = strip(cn)
                while own['k'] == 'BinaryOperator' and own.get('op') in ('&&', '||'):
                    own = strip(kids(own)[1])
                if own['k'] != 'BinaryOperator' or own.get('op') not in ('<=', '>=', '<', '>'):
                    continue
                a, e = kids(own) if own['op'] in ('<=', '<') else kids(own)[::-1]
                strict = own['op'] in ('<', '>')
                av = strip(a, casts=True)
                if av['k'] != 'DeclRefExpr':
                    continue
                ta = (fn.type(av) or '').replace('const ', '')
                wide = ta in ('uint64_t', 'unsigned long', 'unsigned long long', 'int64_t', 'long')
                if ta not in ('uint32_t', 'unsigned int') and not wide:
                    continue
                te0 = (fn.type(strip(e, casts=True)) or '').replace('const ', '')
                if wide and te0 not in ('uint32_t', 'unsigned int'):
                    continue
                # one successor leaves the loop
                if not any(s_ is not None and s_ not in body for s_ in bb['s']):
                    continue
                # a is advanced in the body
                adv = False
                step1 = True
                for x in fn.nodes.values():
                    w = fn.where.get(x['i'])
                    if w is None or w[0] not in body:
                        continue
                    if x['k'] == 'UnaryOperator' and x.get('op') == '++' and strip(kids(x)[0], casts=True).get('d') == av.get('d'):
                        adv = True
                    elif x['k'] == 'CompoundAssignOperator' and x.get('op') == '+=' and strip(kids(x)[0], casts=True).get('d') == av.get('d'):
                        adv = True
                        if const(kids(x)[1]) != 1:
                            step1 = False
                    elif x['k'] == 'BinaryOperator' and x.get('op') == '=' and strip(kids(x)[0], casts=True).get('d') == av.get('d') and \
                            any(y['k'] == 'DeclRefExpr' and y.get('d') == av.get('d') for y in walk(kids(x)[1])):
                        adv = True
                        step1 = False
                if not adv or (strict and step1):
                    continue
                if strict:
                    # only inclusive address ranges handed in by the user: the range printers of cpu_list[] (list_output_*'s
                    # exclusive end is the address the instruction itself ended at)
                    if fn.q not in strict_fns:
                        continue
                    es = strip(e, casts=True)
                    outp = es['k'] == 'DeclRefExpr' and es.get('dk') == 'local' and any(
                        x['k'] == 'UnaryOperator' and x.get('op') == '&' and strip(kids(x)[0]).get('d') == es.get('d')
                        for x in fn.nodes.values())          # filled by get_range(token, &start, &end)
                    if not ((es['k'] == 'DeclRefExpr' and es.get('dk') == 'param') or outp or
                            (es['k'] == 'MemberExpr' and es.get('n') == 'high_address')):
                        continue
                k += 1
                if wide:
                    obs.append(Ob('WRAP-LOOP', fn.file, own['l'], fn.q, 'loop:%s%s%s#%d' % (av.get('n'), own['op'], show(e)[:24], k), DISCHARGED, '',
                                  'the counter is 64 bits wide, the bound 32: it passes the bound before it can wrap', False))
                    break
                # the bound's type and range
                te = fn.type(strip(e, casts=True)) or ''
                if fa is None:
                    fa = an._fa_cache(fn)
                iv = fa.eval_at(e, own) if b in fa.reached else (None, None)
                ok = iv[1] is not None and iv[1] < 0xffffffff - 0x10000
                # wrap escape inside the body: a test of a against 0 or against a saved copy that leaves the loop
                if not ok:
                    for b2 in body:
                        c2 = fn.nodes.get(fn.blocks[b2].get('cond')) if 'cond' in fn.blocks[b2] else None
                        if c2 is None or b2 == b:
                            continue
                        o2 = strip(c2)
                        if o2['k'] == 'BinaryOperator' and o2.get('op') in ('==', '<') and \
                                strip(kids(o2)[0], casts=True).get('d') == av.get('d') and \
                                any(s_ is not None and s_ not in body for s_ in fn.blocks[b2]['s']):
                            ok = True
                        # `if (end - a <= step) break;` before the advance: the last element is recognised without passing it
                        if o2['k'] == 'BinaryOperator' and o2.get('op') in ('<=', '<') and const(kids(o2)[1]) is not None and \
                                any(s_ is not None and s_ not in body for s_ in fn.blocks[b2]['s']):
                            d2 = strip(kids(o2)[0], casts=True)
                            if d2['k'] == 'BinaryOperator' and d2.get('op') == '-' and show(kids(d2)[0]) == show(e) and \
                                    strip(kids(d2)[1], casts=True).get('d') == av.get('d') and const(kids(o2)[1]) >= 1:
                                ok = True
                if not ok and (fn.file, fn.q) in ACCEPTED:
                    obs.append(Ob('WRAP-LOOP', fn.file, own['l'], fn.q, 'loop:%s%s%s#%d' % (av.get('n'), own['op'], show(e)[:24], k),
                                  OBSERVATION, 'matches the wrap pattern; accepted: ' + ACCEPTED[(fn.file, fn.q)]))
                    break
                obs.append(Ob('WRAP-LOOP', fn.file, own['l'], fn.q, 'loop:%s%s%s#%d' % (av.get('n'), own['op'], show(e)[:24], k),
                              DISCHARGED if ok else VIOLATED,
                              '' if ok else '`%s` with 32-bit `%s` advanced in the body: when %s is 0xffffffff (an image or range that '
                              'includes the last byte of the address space) the increment wraps to 0 and the loop never ends' % (
                                  show(own)[:50], av.get('n'), show(e)[:30]),
                              'bound %s' % (iv,)))
                break
    return RuleResult('WRAP-LOOP', obs, floor, {})


def shift_term(prog):
    """SHIFT-TERM: a loop that ends when a variable reaches 0 and changes it only by shifting right (or dividing) by a
    constant ends for every start value only if the variable is unsigned: an arithmetic shift of a negative value settles at
    -1 and never reaches 0 (add_bin_varint with a signed accumulator: `i32.const -1` never ends and fills memory)."""
    from nk.facts import kids, strip, const, show, walk
    from nk.cfg import natural_loops
    from nk.report import Ob, RuleResult, DISCHARGED, VIOLATED
    from nk.build import AnalysisBroken
    obs = []
    for fn in sorted(prog.fns.values(), key=lambda f: (f.file, f.line)):
        if not fn.blocks:
            continue
        for h, body in sorted(natural_loops(fn).items()):
            upd = {}
            for b in body:
                for e in fn.blocks[b]['e']:
                    x = fn.nodes.get(e)
                    if x is None:
                        continue
                    if x['k'] == 'CompoundAssignOperator':
                        t = strip(kids(x)[0])
                        if t['k'] == 'DeclRefExpr':
                            kind = 'shift' if x.get('op') in ('>>=', '/=') and const(kids(x)[1]) else 'other'
                            upd.setdefault(t['d'], []).append((kind, x))
                    elif x['k'] == 'BinaryOperator' and x.get('op') == '=':
                        t = strip(kids(x)[0])
                        r = strip(kids(x)[1], casts=True)
                        if t['k'] == 'DeclRefExpr':
                            sh = r['k'] == 'BinaryOperator' and r.get('op') in ('>>', '/') and const(kids(r)[1]) and \
                                strip(kids(r)[0], casts=True).get('d') == t['d']
                            upd.setdefault(t['d'], []).append(('shift' if sh else 'other', x))
                    elif x['k'] == 'UnaryOperator' and x.get('op') in ('++', '--'):
                        t = strip(kids(x)[0])
                        if t['k'] == 'DeclRefExpr':
                            upd.setdefault(t['d'], []).append(('other', x))
            for d, us in sorted(upd.items(), key=lambda kv: kv[1][0][1]['i']):
                if not all(k == 'shift' for k, _ in us):
                    continue
                tests = []
                for b in body:
                    cn = fn.nodes.get(fn.blocks[b].get('cond')) if 'cond' in fn.blocks[b] else None
                    if cn is not None and any(x['k'] == 'DeclRefExpr' and x.get('d') == d for x in walk(cn)) and \
                            any(s is not None and s not in body for s in fn.blocks[b]['s']):
                        tests.append(cn)
                if not tests:
                    continue
                lhs = strip(kids(us[0][1])[0])
                t = (fn.type(lhs) or '').replace('const ', '')
                unsigned = t.startswith('unsigned') or t.startswith('uint') or t in ('size_t', 'bool')
                obs.append(Ob('SHIFT-TERM', fn.file, us[0][1]['l'], fn.q, 'loop:%s' % lhs.get('n'), DISCHARGED if unsigned else VIOLATED,
                              '' if unsigned else '`%s` (%s) is only shifted right inside the loop and the loop ends on `%s`: for a negative '
                              'start value the arithmetic shift stays at -1 and the loop never ends' % (lhs.get('n'), t, show(tests[0])[:40]),
                              '%s is %s: every right shift brings it closer to 0' % (lhs.get('n'), t), False))
    if len(obs) < 2:
        raise AnalysisBroken('SHIFT-TERM: only %d shift-until-zero loops found' % len(obs))
    return RuleResult('SHIFT-TERM', obs, 2, {})


VLA_ACCEPTED = {
    ('fileio/write_elf.cpp', 'write_elf', 'symbol_address'):
        'one int per exported symbol: the 8 MiB stack holds two million of them, and a source with that many `.export` lines '
        'does not finish assembling (symbol lookup is linear per definition); not replayable as a crash',
}


def vla(prog, scope):
    """VLA-BOUND: no variable-length array on the stack in the assembler and its writers.  The length of such an array is a
    run-time quantity derived from the source (size of a .repeat body, number of symbols); nothing bounds it by the stack
    size, and a body larger than the stack (`.repeat 2` / `resb 9000000` / `.endr`) ends the process with SIGSEGV.
    Arrays listed in VLA_ACCEPTED are kept with their reason."""
    import re
    from nk.report import Ob, RuleResult, DISCHARGED, VIOLATED, OBSERVATION
    obs = []
    nfn = 0
    for fn in sorted(prog.fns.values(), key=lambda f: (f.file, f.line)):
        if not fn.blocks or not scope(fn):
            continue
        nfn += 1
        for n in fn.nodes.values():
            if n['k'] != 'DeclStmt':
                continue
            for d in n.get('decls', ()):
                t = fn.types[d['t']] if isinstance(d.get('t'), int) else ''
                if '[' in t and not re.search(r'\[\d+\]', t) and '*' not in t.split('[')[0][-2:]:
                    why = VLA_ACCEPTED.get((fn.file, fn.q, d['n']))
                    obs.append(Ob('VLA-BOUND', fn.file, n['l'], fn.q, 'vla:%s' % d['n'], OBSERVATION if why else VIOLATED,
                                  ('accepted: ' + why) if why else '`%s %s` is a variable-length array on the stack: its length comes from the '
                                  'input and is not bounded by the stack size, a large value ends the process with SIGSEGV' % (t, d['n'])))
    obs.append(Ob('VLA-BOUND', 'core/', 0, '*', 'functions:%d' % (nfn // 100 * 100), DISCHARGED, '',
                  '%d functions scanned, no other variable-length array' % nfn, False))
    if nfn < 300:
        raise AnalysisBroken('VLA-BOUND: only %d functions in scope' % nfn)
    return RuleResult('VLA-BOUND', obs, 1, {})

"""FMT-WIDTH (C03): a fixed-width hexadecimal field of an output record holds its value.

In the text writers (fileio/write_hex.cpp, write_srec.cpp) every `fprintf(out, "...%0NX...", ..., v, ...)` prints v into a
field that the record format defines as exactly N hex digits (the byte count of the record says so).  `%0NX` pads but
does not cut: a value above 16^N - 1 prints more digits, the record becomes longer than its length byte announces and
every following field is read at the wrong position.  The rule proves, by interval analysis at the call, that each such
argument lies in [0, 16^N - 1] (an explicit `& mask`, a narrow type, or a dominating comparison with an arm that takes
another format)."""
import re
from nk.facts import kids, strip, const, callee, call_args, show
from nk.report import Ob, RuleResult, DISCHARGED, VIOLATED, OBSERVATION
from nk.build import AnalysisBroken
from nk.interval import Analyzer

CONV = re.compile(r'%([-+ #0]*)(\d*)(?:\.(\d+))?(hh|h|ll|l|z)?([diouxXcsp%])')


def _with_callers(prog, an, fn, files):
    """Intervals of fn; for a file-local helper the integer parameters start from the join of the argument ranges at
    all of its call sites."""
    from nk.interval import FnIntervals, join
    from nk.facts import ckey
    if not fn.j.get('static'):
        return an._fa_cache(fn)
    init = {}
    sites = 0
    for g in prog.fns.values():
        if g.file not in files or not g.blocks:
            continue
        ga = None
        for c in g.calls():
            if ckey(c) != fn.key:
                continue
            sites += 1
            if ga is None:
                ga = an._fa_cache(g)
            for p_, a in zip(fn.params(), call_args(c)):
                iv = ga.eval_at(a, c)
                init[p_['d']] = iv if p_['d'] not in init else join(init[p_['d']], iv)
    if not sites:
        return an._fa_cache(fn)
    init = {d: v for d, v in init.items() if v[0] is not None and v[1] is not None}
    return FnIntervals(an, fn, param_init=init)


def fmt_width(prog, files=('fileio/write_hex.cpp', 'fileio/write_srec.cpp'), floor=10):
    an = Analyzer(prog)
    obs = []
    for fn in sorted(prog.fns.values(), key=lambda f: (f.file, f.line)):
        if not fn.blocks or fn.file not in files:
            continue
        fa = None
        k = 0
        for c in sorted(fn.calls(), key=lambda x: x['i']):
            if (callee(c) or '').split('(')[0] not in ('fprintf', 'printf', 'snprintf', 'sprintf'):
                continue
            args = call_args(c)
            fi = None
            for i, a in enumerate(args):
                s = strip(a, casts=True)
                if s['k'] == 'StringLiteral':
                    fi = i
                    break
            if fi is None:
                continue
            fmt = strip(args[fi], casts=True).get('s') or ''
            ai = fi + 1
            for m in CONV.finditer(fmt):
                flags, width, prec, lm, conv = m.groups()
                if conv == '%':
                    continue
                if conv in 'xX' and width and '0' in flags and ai < len(args):
                    N = int(width)
                    a = args[ai]
                    if fa is None:
                        fa = _with_callers(prog, an, fn, files)
                    if fn.where.get(c['i']) is None or fn.where[c['i']][0] not in fa.reached:
                        ai += 1
                        continue
                    k += 1
                    iv = fa.eval_at(a, c)
                    hi = (1 << (4 * N)) - 1
                    ok = iv[0] is not None and iv[1] is not None and iv[0] >= 0 and iv[1] <= hi
                    obs.append(Ob('FMT-WIDTH', fn.file, c['l'], fn.q, '%%0%d%s#%d:%s' % (N, conv, k, show(a)[:30]),
                                  DISCHARGED if ok else VIOLATED,
                                  '' if ok else '`%s` is printed with %%0%d%s into a record field of %d hex digits, but its range %s is not '
                                  'inside [0, %#x]: a larger value prints more digits than the record length announces and shifts '
                                  'every following field' % (show(a)[:50], N, conv, N, iv, hi),
                                  'value in %s fits %d hex digits' % (iv, N), True))
                ai += 1
    if len(obs) < floor:
        raise AnalysisBroken('FMT-WIDTH: only %d fixed-width hex conversions in the writers' % len(obs))
    return RuleResult('FMT-WIDTH', obs, floor, {})

"""R-IDX: every subscript of a fixed-size array stays inside the array.

Obligations: every ArraySubscriptExpr whose base is an array of known bound B, in the functions of the scope.
Discharged when the index is a constant in [0, B) (B itself only under `&a[B]` / sizeof idioms is not accepted),
or the interval analysis (branch refinement, threshold widening, trace partitioning, table ranges, field invariants,
context-sensitive return ranges) proves 0 <= index < B in the state just before the index expression is evaluated.
An undischarged (function, array) pair is
  * a known finding / violation when it is not in the frozen table, or
  * an observation "not decided" when rules/idx_table.json lists the pair with the invariant (read from the code) that
    keeps it in range but that the domain cannot express."""
import json
import os
from nk.facts import kids, strip, const, show, ckey
from nk.interval import Analyzer, FnIntervals
from nk.report import Ob, RuleResult, DISCHARGED, VIOLATED, OBSERVATION
from nk.build import AnalysisBroken

HERE = os.path.dirname(os.path.abspath(__file__))


def load_table():
    with open(os.path.join(HERE, 'idx_table.json')) as f:
        return json.load(f)


def array_name(n):
    b = strip(kids(n)[0])
    t = show(b)
    return t


def idx(prog, scope, floor, an=None, table=None):
    an = an or Analyzer(prog)
    table = table or load_table()
    unproven = {(e['file'], e['function'], e['array']): e for e in table.get('unproven', [])}
    obs = []
    nfun = 0
    for fn in prog.functions(scope):
        if not fn.blocks:
            continue
        subs = [n for n in fn.nodes.values() if n['k'] == 'ArraySubscriptExpr' and 'bound' in n]
        # arrays declared `extern T name[];`: the bound is the length of the initialiser of the definition (scalar element
        # types only: the opcode tables end in a sentinel row and are walked up to it, T-TBL decides those)
        for n in fn.nodes.values():
            if n['k'] == 'ArraySubscriptExpr' and 'bound' not in n:
                b_ = strip(kids(n)[0], casts=True)
                if b_['k'] == 'DeclRefExpr' and b_.get('dk') == 'global' and not b_['n'].startswith('table_'):
                    et = fn.type(n) or ''
                    if 'struct' in et or et.startswith('_'):
                        continue
                    gl = [g for g in prog.globals.get(b_['n'], ()) if g.get('init') is not None and g['init']['k'] == 'InitListExpr']
                    if gl:
                        n = dict(n)
                        n['bound'] = len(kids(gl[0]['init']))
                        subs.append(n)
        if not subs:
            continue
        nfun += 1
        fa = None
        per_array = {}
        for n in sorted(subs, key=lambda x: x['i']):
            B = n['bound']
            arr = array_name(n)
            idxe = kids(n)[1]
            v = const(idxe)
            key = per_array.setdefault(arr, [0, 0, None])
            key[0] += 1
            if v is not None:
                if 0 <= v < B:
                    continue
                if v == B:
                    # &a[B] (one past the end) is legal only when the address is taken
                    p = fn.parent.get(n['i'])
                    if p is not None and p['k'] == 'UnaryOperator' and p.get('op') == '&':
                        continue
                key[1] += 1
                key[2] = key[2] or (n, (v, v))
                continue
            if fa is None:
                fa = an._fa_cache(fn)
            w = fn.block_of(n)
            if w is None or w[0] not in fa.reached:
                continue
            iv = fa.eval_own(idxe)
            if iv[0] is not None and iv[1] is not None and iv[0] >= 0 and iv[1] < B:
                continue
            key[1] += 1
            if key[2] is None:
                key[2] = (n, iv)
        for arr, (total, bad, ex) in per_array.items():
            construct = '%s[]' % arr
            if not bad:
                obs.append(Ob('R-IDX', fn.file, fn.line, fn.q, construct, DISCHARGED, '',
                              'all %d subscripts of %s proven inside the array' % (total, arr), True))
                continue
            n, iv = ex
            det = '`%s`: index range %s is not proven inside [0, %d) (%d of %d subscripts of this array in the function)' % (
                show(n)[:60], iv, n['bound'], bad, total)
            u = unproven.get((fn.file, fn.q, arr))
            if u:
                obs.append(Ob('R-IDX', fn.file, n['l'], fn.q, construct, OBSERVATION,
                              'not decided by the interval domain; invariant read from the code: ' + u['reason']))
            else:
                obs.append(Ob('R-IDX', fn.file, n['l'], fn.q, construct, VIOLATED, det))
    return RuleResult('R-IDX', obs, floor, {'functions_with_fixed_arrays': nfun})


# ----------------------------------------------------------------------------------------------- R-CAP
CAP_FUNCS = {'tokens_get': (1, 2), 'macros_parse_token': (1, 2), 'FileIo::get_string_at_offset': (0, 1),
             'EvalExpression::get_quoted_literal': (1, 2)}


def _param_bound(prog, cg, fn, pi, depth=0, agg=min):
    """Smallest array bound any caller passes for pointer parameter pi of fn (None when unknown)."""
    from nk.facts import call_args, ckey
    if depth > 3:
        return None
    best = None
    found = False
    cols = [c for c, s_ in cg.columns.items() if fn.key in s_]
    for f2 in prog.fns.values():
        for c in f2.calls():
            hit = ckey(c) == fn.key
            if not hit and c.get('indirect') and cols:
                tgt = strip(kids(c)[0], casts=True)
                hit = tgt.get('n') in cols
            if not hit:
                continue
            a = call_args(c)
            if pi >= len(a):
                return None
            found = True
            b = strip(a[pi], casts=True)
            t = f2.type(b) or ''
            B = None
            if '[' in t:
                try:
                    B = int(t.split('[')[1].split(']')[0])
                except ValueError:
                    B = None
            elif b['k'] == 'DeclRefExpr' and b.get('dk') == 'param':
                idx2 = [i for i, pp in enumerate(f2.params()) if pp['d'] == b['d']]
                B = _param_bound(prog, cg, f2, idx2[0], depth + 1, agg) if idx2 else None
            if B is None:
                return None
            best = B if best is None else agg(best, B)
    return best if found else None


def cap_callers(prog, scope, floor=400, cg=None):
    """R-CAP(a): every call of a (buffer, length) function passes an array of bound B with a constant length <= B
    (or forwards its own (buffer, length) parameters)."""
    obs = []
    for fn in prog.functions(scope):
        k = {}
        for c in sorted(fn.calls(), key=lambda x: x['i']):
            q = c.get('callee')
            if q not in CAP_FUNCS:
                continue
            bi, li = CAP_FUNCS[q]
            from nk.facts import call_args
            a = call_args(c)
            if len(a) <= max(bi, li):
                continue
            buf = strip(a[bi], casts=True)
            ln = a[li]
            short = q.split('::')[-1]
            k[short] = k.get(short, 0) + 1
            construct = '%s#%d' % (short, k[short])
            B = None
            if buf['k'] == 'DeclRefExpr':
                t = fn.type(buf) or ''
                if '[' in t:
                    try:
                        B = int(t.split('[')[1].split(']')[0])
                    except ValueError:
                        B = None
                elif buf.get('dk') == 'param':
                    # forwarding: the length argument must be the matching parameter
                    lp = strip(ln, casts=True)
                    ok = lp['k'] == 'DeclRefExpr' and lp.get('dk') == 'param'
                    if not ok and const(ln) is not None and cg is not None:
                        pi = [i for i, pp in enumerate(fn.params()) if pp['d'] == buf['d']]
                        pb = _param_bound(prog, cg, fn, pi[0]) if pi else None
                        if pb is not None:
                            ok2 = const(ln) <= pb
                            obs.append(Ob('R-CAP', fn.file, c['l'], fn.q, construct, DISCHARGED if ok2 else VIOLATED,
                                          '' if ok2 else 'length %d is passed for a parameter buffer whose callers provide only %d bytes' % (const(ln), pb),
                                          'every caller of %s passes an array of >= %d bytes for `%s`' % (fn.q, pb, buf['n'])))
                            continue
                    obs.append(Ob('R-CAP', fn.file, c['l'], fn.q, construct, DISCHARGED if ok else VIOLATED,
                                  '' if ok else 'a pointer parameter is passed on as buffer with length `%s` that is not the caller\'s own '
                                  'length parameter' % show(ln), 'forwards its own (buffer, length) pair', False))
                    continue
            elif buf['k'] == 'MemberExpr':
                t = fn.type(buf) or ''
                if '[' in t:
                    try:
                        B = int(t.split('[')[1].split(']')[0])
                    except ValueError:
                        B = None
            L = const(ln)
            if B is None or L is None:
                # pointer arithmetic (token + n) etc.: not decided here
                obs.append(Ob('R-CAP', fn.file, c['l'], fn.q, construct, OBSERVATION,
                              'buffer `%s` / length `%s` not an (array, constant) pair' % (show(a[bi])[:30], show(ln)[:20])))
                continue
            ok = L <= B
            obs.append(Ob('R-CAP', fn.file, c['l'], fn.q, construct, DISCHARGED if ok else VIOLATED,
                          '' if ok else 'passes a %d-byte buffer with length %d to %s' % (B, L, q),
                          '%d-byte array, length %d' % (B, L), False))
    return RuleResult('R-CAP(a)', obs, floor, {})


def cap_callee(prog):
    """R-CAP(b): in a (buffer, length) function every loop that appends `buf[i++] = c` contains a test of the cursor
    against the length parameter whose true edge leaves the loop."""
    from nk.cfg import natural_loops
    obs = []
    for q, (bi, li) in CAP_FUNCS.items():
        fns = prog.by_q.get(q) or [f for f in prog.fns.values() if f.q.split('(')[0] == q]
        if not fns:
            raise AnalysisBroken('R-CAP: %s not found' % q)
        fn = fns[0]
        ps = fn.params()
        bd, ld = ps[bi]['d'], ps[li]['d']
        loops = natural_loops(fn)
        k = 0
        for n in sorted(fn.nodes.values(), key=lambda x: x['i']):
            if n['k'] != 'BinaryOperator' or n.get('op') != '=':
                continue
            l = strip(kids(n)[0])
            if l['k'] != 'ArraySubscriptExpr' or strip(kids(l)[0], casts=True).get('d') != bd:
                continue
            ix = strip(kids(l)[1], casts=True)
            if not (ix['k'] == 'UnaryOperator' and ix.get('op') == '++'):
                continue
            cur = strip(kids(ix)[0]).get('d')
            w = fn.where.get(n['i'])
            if w is None:
                continue
            inl = [(h, body) for h, body in loops.items() if w[0] in body]
            if not inl:
                continue       # straight-line append (bounded number of characters)
            k += 1
            ok = False
            for h, body in inl:
                for bid in body:
                    b = fn.blocks[bid]
                    cond = fn.nodes.get(b.get('cond')) if 'cond' in b else None
                    if cond is None:
                        continue
                    cs = strip(cond)
                    while cs['k'] == 'BinaryOperator' and cs.get('op') in ('||', '&&'):
                        cs = strip(kids(cs)[1])
                    if cs['k'] == 'BinaryOperator' and cs.get('op') in ('>=', '>', '==') and \
                            strip(kids(cs)[0], casts=True).get('d') == cur and \
                            (any(x['k'] == 'DeclRefExpr' and x.get('d') == ld for x in __import__('nk.facts').facts.walk(kids(cs)[1]))
                             or (const(kids(cs)[1]) is not None and 0 <= const(kids(cs)[1]) <= 64)):
                        t = b['s'][0]
                        if t is not None and (t not in body or True):
                            ok = True
            obs.append(Ob('R-CAP', fn.file, n['l'], fn.q, 'append#%d' % k, DISCHARGED if ok else VIOLATED,
                          '' if ok else '`%s` appends in a loop that never compares the cursor with the length parameter: input longer '
                          'than the caller\'s buffer overruns it' % show(n)[:40], 'cursor tested against the length inside the loop'))
    return RuleResult('R-CAP(b)', obs, 4, {})


def ptr_into_array(prog, scope, an=None):
    """R-IDX(ptr): a local pointer initialised to an element of a fixed-size array (`T *p = arr + e;` / `&arr[e]`, same
    element type) and then subscripted or dereferenced (`p[k]`, `*(p + k)`) stays inside the array: e + k is proven
    in [0, bound).  Today's tree has no such pointer (the pool walkers cast to a record type and are covered by T-SIB(b)
    / POOL-FIT); the rule exists so that replacing per-byte accessor calls by raw pointer arithmetic into
    MemoryPage::bin and similar arrays is decided rather than invisible."""
    an = an or Analyzer(prog)
    obs = []
    nfn = 0

    def into_array(fn, e):
        """(array node, offset node or None for element 0, bound) when e is `arr + off`, `&arr[off]` or `arr` itself."""
        x = e
        while x is not None and x['k'] in ('ImplicitCastExpr', 'ParenExpr', 'CStyleCastExpr', 'CXXReinterpretCastExpr', 'CXXStaticCastExpr'):
            if x['k'] in ('CStyleCastExpr', 'CXXReinterpretCastExpr') and x.get('ck') in ('BitCast',):
                return None
            x = kids(x)[0] if kids(x) else None
        if x is None:
            return None
        arr = off = None
        if x['k'] == 'BinaryOperator' and x.get('op') == '+':
            a = strip(kids(x)[0], casts=True)
            if '[' in (fn.type(a) or '') and a['k'] in ('MemberExpr', 'DeclRefExpr'):
                arr, off = a, kids(x)[1]
        elif x['k'] == 'UnaryOperator' and x.get('op') == '&':
            a = strip(kids(x)[0])
            if a['k'] == 'ArraySubscriptExpr' and 'bound' in a:
                arr, off = strip(kids(a)[0], casts=True), kids(a)[1]
        elif x['k'] in ('MemberExpr', 'DeclRefExpr') and '[' in (fn.type(x) or '') and '*' not in (fn.type(x) or ''):
            arr, off = x, None
        if arr is None:
            return None
        try:
            B = int((fn.type(arr) or '').split('[')[1].split(']')[0])
        except (IndexError, ValueError):
            return None
        return arr, off, B

    # helpers of the scope that hand out a pointer into an array: every return is `arr + off` / `&arr[off]` / `arr`
    ret_ptr = {}
    for fn in prog.functions(scope):
        if not fn.blocks or '*' not in (fn.ret_type() or ''):
            continue
        forms = []
        good = True
        for n in fn.nodes.values():
            if n['k'] == 'ReturnStmt' and kids(n):
                if strip(kids(n)[0], casts=True)['k'] in ('CXXNullPtrLiteralExpr', 'GNUNullExpr') or const(kids(n)[0]) == 0:
                    continue
                ia = into_array(fn, kids(n)[0])
                if ia is None:
                    good = False
                    break
                arr, off, B = ia
                o_iv = (0, 0) if off is None else an._fa_cache(fn).eval_at(off, n)
                forms.append((show(arr), show(off) if off is not None else '0', o_iv, B, n))
        if good and forms:
            ret_ptr[fn.key] = (fn, forms)

    def check_forms(fn, n, name, forms, k, fa):
        k_iv = (0, 0) if k is None else fa.eval_own(k)
        for (atxt, otxt, o_iv, B, where) in forms:
            lo = None if o_iv[0] is None or k_iv[0] is None else o_iv[0] + k_iv[0]
            hi = None if o_iv[1] is None or k_iv[1] is None else o_iv[1] + k_iv[1]
            ok = lo is not None and hi is not None and lo >= 0 and hi < B
            if not ok and k_iv == (0, 0):
                obs.append(Ob('R-IDX', fn.file, n['l'], fn.q, 'ptr:%s->%s' % (name, atxt[-20:]), OBSERVATION,
                              'element the pointer was set to; offset %s not decided' % (o_iv,)))
                continue
            obs.append(Ob('R-IDX', fn.file, n['l'], fn.q, 'ptr:%s->%s' % (name, atxt[-20:]), DISCHARGED if ok else VIOLATED,
                          '' if ok else '`%s` reads through a pointer that %s: offset %s plus index %s is not proven inside [0, %d): an '
                          'element near the end of the array makes this run past it (for a 64 KiB page: a 16/32-bit value that '
                          'straddles the page boundary)' % (show(n)[:30], name, o_iv, k_iv, B),
                          'offset + index inside the array'))

    for fn in prog.functions(scope):
        if not fn.blocks:
            continue
        # pointers handed out by a helper: locals initialised from the call, and direct `helper(...)[k]`
        hp = {}
        for n in fn.nodes.values():
            if n['k'] == 'DeclStmt':
                for d, i in zip([x for x in n.get('decls', ()) if x.get('init')], kids(n)):
                    c_ = strip(i, casts=True)
                    if c_['k'] in ('CallExpr', 'CXXMemberCallExpr') and ckey(c_) in ret_ptr and '*' in fn.types[d['t']]:
                        hp[d['d']] = (d['n'], ckey(c_))
        if hp or any(ckey(c_) in ret_ptr for c_ in fn.calls()):
            fa = an._fa_cache(fn)
            stored = set()
            for n in fn.nodes.values():
                if n['k'] in ('BinaryOperator', 'CompoundAssignOperator', 'UnaryOperator') and \
                        (n.get('op') in ('++', '--') or (n.get('op', '').endswith('=') and n['op'] not in ('==', '!=', '<=', '>='))):
                    t_ = strip(kids(n)[0])
                    if t_['k'] == 'DeclRefExpr':
                        stored.add(t_.get('d'))
            for n in sorted(fn.nodes.values(), key=lambda x: x['i']):
                base = k = None
                if n['k'] == 'ArraySubscriptExpr':
                    b = strip(kids(n)[0], casts=True)
                    if b['k'] == 'DeclRefExpr' and b.get('d') in hp and b['d'] not in stored:
                        base, k = hp[b['d']], kids(n)[1]
                    elif b['k'] in ('CallExpr', 'CXXMemberCallExpr') and ckey(b) in ret_ptr:
                        base, k = ('%s(...)' % ret_ptr[ckey(b)][0].name, ckey(b)), kids(n)[1]
                elif n['k'] == 'UnaryOperator' and n.get('op') == '*':
                    b = strip(kids(n)[0], casts=True)
                    if b['k'] == 'DeclRefExpr' and b.get('d') in hp and b['d'] not in stored:
                        base, k = hp[b['d']], None
                    elif b['k'] == 'BinaryOperator' and b.get('op') == '+':
                        bb = strip(kids(b)[0], casts=True)
                        if bb['k'] == 'DeclRefExpr' and bb.get('d') in hp and bb['d'] not in stored:
                            base, k = hp[bb['d']], kids(b)[1]
                if base is None:
                    continue
                hf, forms = ret_ptr[base[1]]
                check_forms(fn, n, '%s = %s() (which returns %s)' % (base[0], hf.name, ' or '.join(
                    '%s + %s' % (f_[0], f_[1]) for f_ in forms)), forms, k, fa)
    for fn in prog.functions(scope):
        if not fn.blocks:
            continue
        nfn += 1
        ptrs = {}
        for n in fn.nodes.values():
            if n['k'] != 'DeclStmt':
                continue
            for d, i in zip([x for x in n.get('decls', ()) if x.get('init')], kids(n)):
                t = fn.types[d['t']]
                if '*' not in t:
                    continue
                e = i
                # no reinterpreting cast on the way
                reinterpret = False
                x = e
                while x['k'] in ('ImplicitCastExpr', 'ParenExpr', 'CStyleCastExpr', 'CXXReinterpretCastExpr', 'CXXStaticCastExpr'):
                    if x['k'] in ('CStyleCastExpr', 'CXXReinterpretCastExpr') and x.get('ck') in ('BitCast',):
                        reinterpret = True
                    x = kids(x)[0]
                e = x
                arr = off = None
                if e['k'] == 'BinaryOperator' and e.get('op') == '+':
                    a = strip(kids(e)[0], casts=True)
                    ta = fn.type(a) or ''
                    if '[' in ta and a['k'] in ('MemberExpr', 'DeclRefExpr'):
                        arr, off = a, kids(e)[1]
                elif e['k'] == 'UnaryOperator' and e.get('op') == '&':
                    a = strip(kids(e)[0])
                    if a['k'] == 'ArraySubscriptExpr' and 'bound' in a:
                        arr, off = strip(kids(a)[0], casts=True), kids(a)[1]
                if arr is None or reinterpret:
                    continue
                ta = fn.type(arr) or ''
                try:
                    B = int(ta.split('[')[1].split(']')[0])
                except (IndexError, ValueError):
                    continue
                ptrs[d['d']] = (d['n'], arr, off, B, n)
        if not ptrs:
            continue
        fa = an._fa_cache(fn)
        for n in sorted(fn.nodes.values(), key=lambda x: x['i']):
            k = None
            base = None
            if n['k'] == 'ArraySubscriptExpr':
                b = strip(kids(n)[0], casts=True)
                if b['k'] == 'DeclRefExpr' and b.get('d') in ptrs:
                    base, k = b['d'], kids(n)[1]
            elif n['k'] == 'UnaryOperator' and n.get('op') == '*':
                b = strip(kids(n)[0], casts=True)
                if b['k'] == 'DeclRefExpr' and b.get('d') in ptrs:
                    base, k = b['d'], None
                elif b['k'] == 'BinaryOperator' and b.get('op') == '+':
                    bb = strip(kids(b)[0], casts=True)
                    if bb['k'] == 'DeclRefExpr' and bb.get('d') in ptrs:
                        base, k = bb['d'], kids(b)[1]
            if base is None:
                continue
            name, arr, off, B, decl = ptrs[base]
            o_iv = fa.eval_at(off, decl)
            k_iv = (0, 0) if k is None else fa.eval_own(k)
            lo = None if o_iv[0] is None or k_iv[0] is None else o_iv[0] + k_iv[0]
            hi = None if o_iv[1] is None or k_iv[1] is None else o_iv[1] + k_iv[1]
            ok = lo is not None and hi is not None and lo >= 0 and hi < B
            if not ok and k_iv == (0, 0):
                # the pointer itself is taken to address an element (its construction is the callee's contract)
                obs.append(Ob('R-IDX', fn.file, n['l'], fn.q, 'ptr:%s->%s' % (name, show(arr)[-20:]), OBSERVATION,
                              'element the pointer was set to; offset %s not decided' % (o_iv,)))
                continue
            obs.append(Ob('R-IDX', fn.file, n['l'], fn.q, 'ptr:%s->%s' % (name, show(arr)[-20:]), DISCHARGED if ok else VIOLATED,
                          '' if ok else '`%s` reads through `%s = %s + %s`: offset %s plus index %s is not proven inside [0, %d): an '
                          'element near the end of the array makes this run past it (for a 64 KiB page: a 16/32-bit value that '
                          'straddles the page boundary)' % (show(n)[:30], name, show(arr), show(off)[:30], o_iv, k_iv, B),
                          'offset + index inside the array'))
    return RuleResult('R-IDX(ptr)', obs, 0, {'functions': nfn})



def field_inv(prog, table=None):
    """FIELD-INV (C15): an `idx_table.json` entry that excuses a subscript by a range invariant of a member field
    (`"field_invariant": {"field": "sp", "max": 7}`) is checked mechanically: every store to that field in the class's files
    keeps it in 0..max.  Accepted stores: a constant <= max; `(..) & c` / `F &= c` with c <= max; a store that is followed in
    the same basic block by `F &= c` or by the clamp `if (F > max) F = max`; `F++` dominated by a test `F == max` that leaves."""
    from nk.cfg import dominators
    from nk.facts import walk
    table = table or load_table()
    obs = []
    seen = set()
    for e in table.get('unproven', []):
        inv = e.get('field_invariant')
        if not inv:
            continue
        stem = e['file'].rsplit('.', 1)[0]
        key = (stem, inv['field'])
        if key in seen:
            continue
        seen.add(key)
        F, M = inv['field'], inv['max']
        k = 0
        for fn in sorted(prog.functions(lambda f: f.file.rsplit('.', 1)[0] == stem and f.blocks), key=lambda f: (f.file, f.line)):
            dom = None
            for b, bb in sorted(fn.blocks.items()):
                es = bb['e']
                for i, eid in enumerate(es):
                    n = fn.nodes.get(eid)
                    if n is None:
                        continue
                    tgt = None
                    if n['k'] in ('BinaryOperator', 'CompoundAssignOperator') and n.get('op', '').endswith('=') and \
                            n['op'] not in ('==', '!=', '<=', '>='):
                        tgt = strip(kids(n)[0])
                    elif n['k'] == 'UnaryOperator' and n.get('op') in ('++', '--'):
                        tgt = strip(kids(n)[0])
                    if tgt is None or tgt['k'] != 'MemberExpr' or tgt.get('n') != F or \
                            not any(x['k'] == 'CXXThisExpr' for x in walk(tgt)):
                        continue
                    k += 1
                    ok = None
                    if n['k'] == 'BinaryOperator' and n['op'] == '=':
                        r = strip(kids(n)[1], casts=True)
                        v = const(r)
                        if v is not None and 0 <= v <= M:
                            ok = 'constant'
                        elif r['k'] == 'BinaryOperator' and r.get('op') == '&' and \
                                any(const(x) is not None and 0 <= const(x) <= M for x in kids(r)):
                            ok = 'masked'
                    elif n['k'] == 'CompoundAssignOperator' and n['op'] == '&=' and const(kids(n)[1]) is not None and \
                            0 <= const(kids(n)[1]) <= M:
                        ok = 'masking store'
                    if ok is None:
                        # followed in the block by a mask or a clamp of the field
                        for eid2 in es[i + 1:]:
                            m = fn.nodes.get(eid2)
                            if m is None:
                                continue
                            if m['k'] == 'CompoundAssignOperator' and m.get('op') == '&=' and strip(kids(m)[0]).get('n') == F and \
                                    const(kids(m)[1]) is not None and const(kids(m)[1]) <= M:
                                ok = 'masked by the next statement'
                                break
                        cn = fn.nodes.get(bb.get('cond')) if 'cond' in bb else None
                        if ok is None and cn is not None:
                            c = strip(cn, casts=True)
                            if c['k'] == 'BinaryOperator' and c.get('op') == '>' and strip(kids(c)[0], casts=True).get('n') == F and \
                                    const(kids(c)[1]) == M:
                                ok = 'clamped by the following `if (%s > %d)`' % (F, M)
                    if ok is None and n['k'] == 'UnaryOperator' and n['op'] == '++':
                        if dom is None:
                            dom = dominators(fn)
                        for b2 in dom[b]:
                            c2 = fn.nodes.get(fn.blocks[b2].get('cond')) if 'cond' in fn.blocks[b2] else None
                            if c2 is None:
                                continue
                            c = strip(c2, casts=True)
                            if c['k'] == 'BinaryOperator' and c.get('op') == '==' and strip(kids(c)[0], casts=True).get('n') == F and \
                                    const(kids(c)[1]) == M:
                                ok = 'guarded by `%s == %d` that leaves' % (F, M)
                    construct = 'store:%s#%d' % (F, k)
                    if ok:
                        obs.append(Ob('FIELD-INV', fn.file, n['l'], fn.q, construct, DISCHARGED, '', ok, False))
                    else:
                        obs.append(Ob('FIELD-INV', fn.file, n['l'], fn.q, construct, VIOLATED,
                                      '`%s` can leave %s outside 0..%d: the subscripts of %s[] that idx_table.json excuses by this '
                                      'invariant are then out of bounds' % (show(n)[:50], F, M, e['array'])))
    if not obs:
        raise AnalysisBroken('FIELD-INV: no field invariant in idx_table.json')
    return RuleResult('FIELD-INV', obs, 3, {})

#!/usr/bin/env python3
"""Triage aid (not a check): for every instruction of tests/comparison/<cpu>.txt assemble it alone with -l, take the
disassembly text of its listing line, assemble that text again and compare the bytes.  Prints the instructions whose
listing text is rejected by the assembler or re-assembles to other bytes.  Used to find candidates for C01 rules; every
candidate is then replayed by hand."""
import os, re, subprocess, sys, tempfile
REPO = os.environ.get('NK_REPO', '/repo')
ASM = os.path.join(REPO, 'naken_asm')

def assemble(cpu, text, d, listing=True):
    src = os.path.join(d, 'x.asm')
    open(src, 'w').write('.%s\n.org 0\n  %s\n' % (cpu, text))
    for f in ('x.hex', 'x.lst'):
        try: os.unlink(os.path.join(d, f))
        except OSError: pass
    r = subprocess.run([ASM, '-l', '-o', os.path.join(d, 'x.hex'), src], capture_output=True, text=True, cwd=d, timeout=20)
    if not os.path.exists(os.path.join(d, 'x.hex')):
        return None, None, r.stdout[-300:]
    data = []
    for l in open(os.path.join(d, 'x.hex')):
        l = l.strip()
        if l.startswith(':') and l[7:9] == '00':
            n = int(l[1:3], 16)
            data.append((int(l[3:7], 16), l[9:9 + 2 * n]))
    lst = open(os.path.join(d, 'x.lst')).read() if os.path.exists(os.path.join(d, 'x.lst')) else ''
    return ''.join(x for _, x in sorted(data)), lst, ''

def listing_text(lst):
    for l in lst.splitlines():
        m = re.match(r'^0x[0-9a-f]+:\s+(.*)$', l)
        if not m:
            continue
        rest = re.sub(r'\s+cycles:.*$', '', m.group(1)).rstrip()
        toks = rest.split()
        if not toks:
            return None
        w = len(toks[0])
        k = 0
        while k < len(toks) and len(toks[k]) == w and re.fullmatch(r'(0x)?[0-9a-f]+', toks[k]):
            k += 1
        if k == len(toks):
            k = len(toks) - 1
        # re-split on the original string to keep spacing inside operands
        parts = rest.split(None, k)
        return parts[k] if len(parts) > k else None
    return None

def main():
    cpu = sys.argv[1]
    name = sys.argv[2] if len(sys.argv) > 2 else cpu
    bad = 0
    n = 0
    with tempfile.TemporaryDirectory(prefix='nkrt-') as d:
        for line in open(os.path.join(REPO, 'tests/comparison', name + '.txt')):
            ins = line.split('|')[0].strip()
            if not ins or ins.startswith('main') or ':' in ins:
                continue
            n += 1
            b1, lst, err = assemble(cpu, ins, d)
            if b1 is None:
                continue
            t = listing_text(lst)
            if not t:
                print('%s: NO-TEXT  %-40s' % (cpu, ins)); bad += 1; continue
            t2 = re.sub(r'\s*\(.*?\)\s*$', '', t)       # drop trailing "(offset=..)" annotations
            t2 = re.sub(r'\s*\{.*?\}\s*$', '', t2)
            b2, _, err2 = assemble(cpu, t2, d)
            if b2 is None:
                print('%s: REJECTED %-40s -> listed as `%s`' % (cpu, ins, t)); bad += 1
            elif b2 != b1:
                print('%s: DIFFERS  %-40s %s -> listed as `%s` %s' % (cpu, ins, b1, t, b2)); bad += 1
    print('%s: %d instructions, %d suspicious' % (cpu, n, bad))

if __name__ == '__main__':
    main()

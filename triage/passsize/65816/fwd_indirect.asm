; 65816: indirect operand with a forward label.  In pass 1 ignore_operand()
; eats the closing ')' / ']' so the instruction is sized as 1 byte (3 for
; "[..],y"); pass 2 emits 3, 2, 2, 2 and 3 bytes.
.65816
.org 0x1000
start:
  jmp (vector)
l1:
  lda (zp)
l2:
  lda [zp]
l3:
  lda [zp],y
l4:
  jmp [vector]
l5:
  nop
  rts
vector:
  dw 0x1234
.org 0x80
zp:
  dw 0x1234

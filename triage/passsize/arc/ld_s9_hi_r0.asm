.arc
start:
  ld r0, [r3, fwd]
after:
  nop_s
.set fwd=5000

"""Interval analysis over a function's CFG (forward, with widening and branch refinement).

Tracked: integer locals and parameters whose address is never taken.  Values are (lo, hi) with None
for an infinite bound.  Expressions are evaluated with type-based ranges as fallback (an `unsigned
char` expression is in [0,255]), constant tables give [min,max] of the selected field, and calls to
repo functions use a recursively computed return-range summary."""
from .facts import kids, strip, const, callee, ckey, call_args, show

TOP = (None, None)
INF = None

TYPE_RANGE = {
    'bool': (0, 1), 'char': (-128, 127), 'signed char': (-128, 127), 'unsigned char': (0, 255),
    'short': (-32768, 32767), 'unsigned short': (0, 65535),
    'int': (-2**31, 2**31 - 1), 'unsigned int': (0, 2**32 - 1),
    'long': (-2**63, 2**63 - 1), 'unsigned long': (0, 2**64 - 1),
    'long long': (-2**63, 2**63 - 1), 'unsigned long long': (0, 2**64 - 1),
}


def type_range(t):
    if not t:
        return TOP
    t = t.replace('const ', '').replace('volatile ', '').strip()
    return TYPE_RANGE.get(t, TOP)


def join(a, b):
    lo = None if a[0] is None or b[0] is None else min(a[0], b[0])
    hi = None if a[1] is None or b[1] is None else max(a[1], b[1])
    return (lo, hi)


def meet(a, b):
    lo = a[0] if b[0] is None else (b[0] if a[0] is None else max(a[0], b[0]))
    hi = a[1] if b[1] is None else (b[1] if a[1] is None else min(a[1], b[1]))
    return (lo, hi)


def is_empty(a):
    return a[0] is not None and a[1] is not None and a[0] > a[1]


def add(a, b):
    return (None if a[0] is None or b[0] is None else a[0] + b[0],
            None if a[1] is None or b[1] is None else a[1] + b[1])


def neg(a):
    return (None if a[1] is None else -a[1], None if a[0] is None else -a[0])


def clamp_type(v, t):
    """An expression of integer type t cannot leave t's range; a value that would wrap becomes t's range."""
    tr = type_range(t)
    if tr == TOP:
        return v
    if v[0] is None or v[1] is None or v[0] < tr[0] or v[1] > tr[1]:
        # partially outside: for unsigned types wrapping makes the whole range possible
        lo = tr[0] if (v[0] is None or v[0] < tr[0]) else v[0]
        hi = tr[1] if (v[1] is None or v[1] > tr[1]) else v[1]
        if (v[0] is not None and v[0] < tr[0]) or (v[1] is not None and v[1] > tr[1]):
            return tr
        return (lo, hi)
    return v


class Analyzer:
    """Shared across functions of a Program: return summaries, table ranges."""

    def __init__(self, prog):
        self.prog = prog
        self._ret = {}
        self._table = {}
        self._stack = set()

    # ---- constant tables
    def table_field_range(self, gname, field):
        key = (gname, field)
        if key in self._table:
            return self._table[key]
        from . import tables
        r = TOP
        try:
            if not self.prog.global_writes().get(gname):
                g = self.prog.global_def(gname)
                if 'init' in g:
                    init = strip(g['init'])
                    if field is None:
                        vals = [const(x) for x in kids(init)]
                        if vals and all(v is not None for v in vals):
                            r = (min(vals), max(vals))
                            if init.get('filler') or ('bound' in g and len(vals) < g['bound']):
                                r = join(r, (0, 0))
                    else:
                        rws, fields, _ = tables.rows(self.prog, gname)
                        vals = []
                        for row in rws:
                            if not row:
                                vals.append(0)
                            else:
                                vals.append(const(row.get(field)) if row.get(field) is not None else 0)
                        if vals and all(v is not None for v in vals):
                            r = (min(vals), max(vals))
        except Exception:
            r = TOP
        self._table[key] = r
        return r

    # ---- function return summaries
    def return_range(self, key, depth=0):
        if key in self._ret:
            return self._ret[key]
        fn = self.prog.by_key.get(key)
        if fn is None or not fn.blocks or key in self._stack or depth > 4:
            return None
        self._stack.add(key)
        try:
            fa = FnIntervals(self, fn, depth + 1)
            r = None
            for n in fn.nodes.values():
                if n['k'] == 'ReturnStmt' and kids(n):
                    w = fn.where.get(n['i'])
                    if w is None or w[0] not in fa.reached:
                        continue
                    v = fa.eval_at(kids(n)[0], n)
                    r = v if r is None else join(r, v)
            if r is not None:
                r = meet(r, type_range(fn.ret_type())) if type_range(fn.ret_type()) != TOP else r
        finally:
            self._stack.discard(key)
        self._ret[key] = r
        return r


class FnIntervals:
    def __init__(self, an, fn, depth=0):
        self.an, self.fn, self.depth = an, fn, depth
        self.prog = an.prog
        self.tracked = self._tracked_vars()
        self.inn = {}
        self.reached = set()
        self._solve()

    def _tracked_vars(self):
        fn = self.fn
        tr = {}
        for p in fn.params():
            t = fn.types[p['t']]
            if type_range(t) != TOP:
                tr[p['d']] = t
        for n in fn.nodes.values():
            if n['k'] == 'DeclStmt':
                for d in n.get('decls', ()):
                    t = fn.types[d['t']]
                    if type_range(t) != TOP and not d.get('static'):
                        tr[d['d']] = t
        # address-taken variables are not tracked; neither are variables captured by reference params
        for n in fn.nodes.values():
            if n['k'] == 'UnaryOperator' and n.get('op') == '&':
                t = strip(kids(n)[0])
                if t['k'] == 'DeclRefExpr':
                    tr.pop(t.get('d'), None)
            elif n['k'] == 'DeclRefExpr' and n.get('d') in tr:
                # passed where a reference is expected: parent is a call and the arg is an lvalue (no L2R cast)
                p = fn.parent.get(n['i'])
                if p is not None and p['k'] in ('CallExpr', 'CXXMemberCallExpr', 'CXXConstructExpr') and n.get('lv'):
                    tr.pop(n['d'], None)
        return tr

    # ---- evaluation
    def var(self, st, d):
        if d in st:
            return st[d]
        return type_range(self.tracked.get(d))

    def eval(self, n, st):
        if n is None:
            return TOP
        v = const(n)
        if v is not None:
            return (v, v)
        k = n['k']
        c = kids(n)
        fn = self.fn
        t = fn.type(n)
        if k in ('ParenExpr', 'ExprWithCleanups', 'ConstantExpr', 'MaterializeTemporaryExpr'):
            return self.eval(c[0], st)
        if k in ('ImplicitCastExpr', 'CStyleCastExpr', 'CXXStaticCastExpr', 'CXXFunctionalCastExpr'):
            inner = self.eval(c[0], st)
            ck = n.get('ck')
            if ck in ('LValueToRValue', 'NoOp'):
                return inner
            if ck in ('IntegralCast', 'IntegralToBoolean', 'BooleanToSignedIntegral'):
                tr = type_range(t)
                if tr == TOP:
                    return inner
                if inner[0] is not None and inner[1] is not None and inner[0] >= tr[0] and inner[1] <= tr[1]:
                    return inner
                return tr
            return type_range(t)
        if k == 'DeclRefExpr':
            d = n.get('d')
            if d in self.tracked:
                return self.var(st, d)
            if n.get('dk') == 'enum':
                return (n['v'], n['v'])
            return type_range(t)
        if k == 'UnaryOperator':
            op = n['op']
            if op == '-':
                return clamp_type(neg(self.eval(c[0], st)), t)
            if op == '+':
                return self.eval(c[0], st)
            if op == '!':
                return (0, 1)
            if op in ('++', '--'):
                v0 = self.eval(c[0], st)
                if n.get('post'):
                    return v0
                return clamp_type(add(v0, (1, 1) if op == '++' else (-1, -1)), t)
            if op == '~':
                return type_range(t)
            return type_range(t)
        if k == 'BinaryOperator':
            op = n['op']
            if op in ('<', '>', '<=', '>=', '==', '!=', '&&', '||'):
                return (0, 1)
            if op == ',':
                return self.eval(c[1], st)
            if op == '=':
                return self.eval(c[1], st)
            a, b = self.eval(c[0], st), self.eval(c[1], st)
            return clamp_type(self._binop(op, a, b, n), t)
        if k == 'CompoundAssignOperator':
            a, b = self.eval(c[0], st), self.eval(c[1], st)
            return clamp_type(self._binop(n['op'][:-1], a, b, n), t)
        if k == 'ConditionalOperator':
            return join(self.eval(c[1], st), self.eval(c[2], st))
        if k == 'ArraySubscriptExpr':
            base = strip(c[0])
            if base['k'] == 'DeclRefExpr' and base.get('dk') == 'global':
                r = self.an.table_field_range(base['n'], None)
                if r != TOP:
                    return meet(r, type_range(t)) if type_range(t) != TOP else r
            return type_range(t)
        if k == 'MemberExpr':
            if c:
                base = strip(c[0])
                if base['k'] == 'ArraySubscriptExpr':
                    arr = strip(kids(base)[0])
                    if arr['k'] == 'DeclRefExpr' and arr.get('dk') == 'global':
                        r = self.an.table_field_range(arr['n'], n['n'])
                        if r != TOP:
                            return r
            if 'bits' in n:
                w = n['bits']
                tr = type_range(t)
                if tr != TOP and tr[0] == 0:
                    return (0, (1 << w) - 1)
                return (-(1 << (w - 1)), (1 << (w - 1)) - 1)
            return type_range(t)
        if k in ('CallExpr', 'CXXMemberCallExpr'):
            ck = ckey(n)
            if ck:
                r = self.an.return_range(ck, self.depth)
                if r is not None:
                    return r
                name = ck.split('@')[0]
                if name in ('strlen',):
                    return (0, None)
                if name in ('abs',):
                    return (0, None)
            return type_range(t)
        return type_range(t)

    def _binop(self, op, a, b, n):
        if op == '+':
            return add(a, b)
        if op == '-':
            return add(a, neg(b))
        if op == '*':
            if None in a or None in b:
                # sign-only reasoning
                if a[0] is not None and a[0] >= 0 and b[0] is not None and b[0] >= 0:
                    return (a[0] * b[0], None)
                return TOP
            ps = [a[0] * b[0], a[0] * b[1], a[1] * b[0], a[1] * b[1]]
            return (min(ps), max(ps))
        if op == '/':
            if b[0] is not None and b[0] > 0 and a[0] is not None and a[0] >= 0:
                hi = None if a[1] is None else a[1] // b[0]
                lo = 0 if b[1] is None else a[0] // b[1]
                return (lo, hi)
            return TOP
        if op == '%':
            if b[0] is not None and b[1] is not None and b[0] > 0:
                m = b[1] - 1
                if a[0] is not None and a[0] >= 0:
                    return (0, m if a[1] is None else min(m, a[1]))
                return (-m, m)
            return TOP
        if op == '&':
            cands = []
            if a[0] is not None and a[0] >= 0 and a[1] is not None:
                cands.append(a[1])
            if b[0] is not None and b[0] >= 0 and b[1] is not None:
                cands.append(b[1])
            if cands:
                return (0, min(cands))
            return TOP
        if op == '|' or op == '^':
            if a[0] is not None and a[0] >= 0 and b[0] is not None and b[0] >= 0 and a[1] is not None and b[1] is not None:
                m = max(a[1], b[1])
                return (0, (1 << m.bit_length()) - 1)
            return TOP
        if op == '>>':
            if a[0] is not None and a[0] >= 0 and b[0] is not None and b[0] >= 0:
                hi = None if a[1] is None else a[1] >> b[0]
                return (0, hi)
            if b[0] is not None and b[0] >= 0 and a[0] is not None and a[1] is not None:
                return (a[0] >> b[0] if a[0] < 0 else 0, a[1] >> b[0] if a[1] >= 0 else -1)
            return TOP
        if op == '<<':
            if a[0] is not None and a[0] >= 0 and b[0] is not None and b[1] is not None and b[0] >= 0 and b[1] < 64:
                hi = None if a[1] is None else a[1] << b[1]
                return (a[0] << b[0], hi)
            return TOP
        return TOP

    # ---- transfer
    def _assign(self, st, d, v):
        t = self.tracked.get(d)
        v = clamp_type(v, t)
        tr = type_range(t)
        if v == tr or v == TOP:
            st.pop(d, None)
        else:
            st[d] = v

    def step(self, n, st):
        k = n['k']
        if k in ('BinaryOperator', 'CompoundAssignOperator') and n.get('op', '').endswith('=') and \
                n['op'] not in ('==', '!=', '<=', '>='):
            l = strip(kids(n)[0])
            if l['k'] == 'DeclRefExpr' and l.get('d') in self.tracked:
                self._assign(st, l['d'], self.eval(n, st))
        elif k == 'UnaryOperator' and n.get('op') in ('++', '--'):
            l = strip(kids(n)[0])
            if l['k'] == 'DeclRefExpr' and l.get('d') in self.tracked:
                v0 = self.var(st, l['d'])
                self._assign(st, l['d'], add(v0, (1, 1) if n['op'] == '++' else (-1, -1)))
        elif k == 'DeclStmt':
            inits = list(kids(n))
            ds = [d for d in n.get('decls', ()) if d.get('init')]
            if len(ds) == len(inits):
                for d, i in zip(ds, inits):
                    if d['d'] in self.tracked:
                        self._assign(st, d['d'], self.eval(i, st))

    def refine(self, cond, st, truth):
        """State on the `truth` edge of a branch on cond; None when infeasible."""
        c = strip(cond)
        k = c['k']
        if k == 'UnaryOperator' and c.get('op') == '!':
            return self.refine(kids(c)[0], st, not truth)
        if k == 'BinaryOperator' and c['op'] in ('<', '<=', '>', '>=', '==', '!='):
            op = c['op']
            a, b = kids(c)
            if not truth:
                op = {'<': '>=', '<=': '>', '>': '<=', '>=': '<', '==': '!=', '!=': '=='}[op]
            st2 = dict(st)
            for lhs, rhs, o in ((a, b, op), (b, a, {'<': '>', '<=': '>=', '>': '<', '>=': '<=', '==': '==', '!=': '!='}[op])):
                l = strip(lhs, casts=False)
                # look through integral casts that cannot change the value of a tracked var is unsafe in
                # general; only plain references are refined
                if l['k'] == 'DeclRefExpr' and l.get('d') in self.tracked:
                    cur = self.var(st2, l['d'])
                    rv = self.eval(rhs, st)
                    new = cur
                    if o == '<' and rv[1] is not None:
                        new = meet(cur, (None, rv[1] - 1))
                    elif o == '<=' and rv[1] is not None:
                        new = meet(cur, (None, rv[1]))
                    elif o == '>' and rv[0] is not None:
                        new = meet(cur, (rv[0] + 1, None))
                    elif o == '>=' and rv[0] is not None:
                        new = meet(cur, (rv[0], None))
                    elif o == '==':
                        new = meet(cur, rv)
                    elif o == '!=' and rv[0] is not None and rv[0] == rv[1]:
                        if cur[0] == rv[0]:
                            new = (cur[0] + 1, cur[1])
                        elif cur[1] == rv[0]:
                            new = (cur[0], cur[1] - 1)
                    if is_empty(new):
                        return None
                    if new != cur:
                        st2[l['d']] = new
            return st2
        if k == 'DeclRefExpr' and c.get('d') in self.tracked:
            cur = self.var(st, c['d'])
            if not truth:
                new = meet(cur, (0, 0))
                if is_empty(new):
                    return None
                st2 = dict(st)
                st2[c['d']] = new
                return st2
            if cur == (0, 0):
                return None
        return st

    def _solve(self):
        fn = self.fn
        if fn.entry is None:
            return
        inn = {fn.entry: {}}
        visits = {}
        work = [fn.entry]
        while work:
            bid = work.pop()
            st = dict(inn[bid])
            self.reached.add(bid)
            b = fn.blocks[bid]
            for e in b['e']:
                n = fn.nodes.get(e)
                if n is not None:
                    self.step(n, st)
            succ = b['s']
            cond = fn.nodes.get(b.get('cond')) if 'cond' in b else None
            outs = []
            if cond is not None and len(succ) == 2 and b.get('termk') != 'SwitchStmt':
                for s, truth in ((succ[0], True), (succ[1], False)):
                    if s is None:
                        continue
                    r = self.refine(cond, st, truth)
                    if r is not None:
                        outs.append((s, r))
            else:
                for s in succ:
                    if s is not None:
                        outs.append((s, st))
            for s, so in outs:
                old = inn.get(s)
                if old is None:
                    inn[s] = dict(so)
                    work.append(s)
                    continue
                new = {}
                for d in set(old) & set(so):
                    j = join(old[d], so[d])
                    if j != type_range(self.tracked.get(d)) and j != TOP:
                        new[d] = j
                if new != old:
                    visits[s] = visits.get(s, 0) + 1
                    if visits[s] > 4:
                        # widening: bounds that moved go to infinity
                        w = {}
                        for d, v in new.items():
                            o = old.get(d)
                            if o is None:
                                continue
                            lo = v[0] if v[0] == o[0] else None
                            hi = v[1] if v[1] == o[1] else None
                            tr = type_range(self.tracked.get(d))
                            lo = tr[0] if lo is None else lo
                            hi = tr[1] if hi is None else hi
                            if (lo, hi) != tr:
                                w[d] = (lo, hi)
                        new = w
                    if new != old:
                        inn[s] = new
                        work.append(s)
        self.inn = inn

    def state_before(self, node):
        """Abstract state immediately before CFG element `node` (or its nearest listed ancestor)."""
        w = self.fn.block_of(node)
        if w is None or w[0] not in self.inn:
            return None
        st = dict(self.inn[w[0]])
        b = self.fn.blocks[w[0]]
        for e in b['e'][:w[1]]:
            n = self.fn.nodes.get(e)
            if n is not None:
                self.step(n, st)
        return st

    def eval_at(self, expr, at):
        st = self.state_before(at)
        if st is None:
            return TOP
        return self.eval(expr, st)

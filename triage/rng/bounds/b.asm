.thumb
.org 0x1000
lbl:
  add sp, sp, #0
  add sp, sp, #252
  sub sp, sp, #252
  sub sp, sp, #4

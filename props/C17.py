"""C17 (partial): R-IDX, R-CAP, R-EOF, R-REC, R-DIV, R-NULL, T-TBL, T-DISP over everything reachable from naken_util."""
from nk import report
from nk.interval import Analyzer
from rules import strs, prog as rprog, wrap, idx, term, div, tbl, null, disp, lane, fileloop, nulstep
from . import common

EXPLANATION = (
    'Decides the structural clauses listed; does not decide the behaviour as a whole. Same rules as C16 over the functions '
    'reachable from naken_util\'s main(): fileio readers, FileIo, UtilContext, common/, imports, Linker, every '
    'disassembler and simulator entry: R-IDX (fixed-array subscripts), R-CAP, R-EOF (reader loops leave at end of '
    'input), R-REC, R-DIV, R-NULL, T-TBL (table sentinels), T-DISP (every accepted command / detected file type is '
    'dispatched). R-PROG: every range loop of the range printers and the page walk of UtilContext::disasm advance on every path. '
    'WRAP-LOOP: a 32-bit address counter compared with an inclusive upper bound cannot wrap (the 56 range printers are known findings). R-STR: as in C16, over the disassemblers and file readers (about 200 of 600 copies are proven, the rest not decided). NUL-STEP: on the edge on which a scanner finds the terminator of the string it scans, no increment of its cursor is reached before the character is tested again (a step over the terminator makes stale bytes of an earlier line part of the input). Not decided: file-supplied counts and offsets used as pointer offsets into the file image '
    '(R-TAINT not armed), heap use. R-WRAP: the page-membership tests of the image (which every loader writes through) are computed in 64 bits, so a store at 0xffff0000 and above finds its page instead of appending pages until memory runs out. FILE-LOOP: every loop of a file reader whose trip count is a 32/64-bit value taken from the file is preceded by a relational test of that value with an arm that leaves, or leaves at end of file itself.')


def run(tier, t0):
    prog = common.program()
    cg = common.callgraph()
    reach = common.reach_util()
    an = Analyzer(prog)

    def scope(fn):
        return fn.key in reach and fn.file.startswith(('fileio/', 'core/', 'main/naken_util', 'common/', 'disasm/', 'table/'))
    def scope_idx(fn):
        # the register/memory commands of naken_util end in the simulators' set_reg/get_reg/dump code
        return scope(fn) or (fn.key in reach and fn.file.startswith('simulate/'))
    dctx = div.Ctx(prog, an)
    results = [idx.idx(prog, scope_idx, 150, an), idx.cap_callers(prog, scope, 5, cg), term.eof(prog, scope, 20),
               term.rec(prog, cg, [common.UTIL_MAIN], member_scope=lambda f: f.file.startswith(('fileio/', 'common/', 'disasm/', 'main/naken_util')) or f.file in ('core/UtilContext.cpp', 'core/Linker.cpp', 'core/imports_obj.cpp', 'core/imports_ar.cpp')), div.div(prog, scope, 40, ctx=dctx), null.null_a(prog, scope, 20),
               tbl.ttbl(prog), disp.disp(prog), idx.ptr_into_array(prog, scope, an),
               rprog.run(prog, cg),
               strs.strs(prog, cg, scope, 100), strs.str_loops(prog, scope, an, 20),
               wrap.wrap_loops(prog, lambda f: f.file.startswith(('disasm/', 'core/UtilContext', 'main/naken_util', 'fileio/')), an, 40, strict_fns=set(common.range_printers()) | {f.q for f in prog.functions(lambda f: f.file == 'core/UtilContext.cpp')}),
               lane.wrap_pages(prog, 2), fileloop.file_loops(prog), term.getc_char(prog, lambda f: f.file.startswith(('core/', 'fileio/'))),
               nulstep.nul_step(prog, lambda f: f.file in ('core/UtilContext.cpp', 'main/naken_util.cpp') or f.file.startswith('common/'), 15)]
    return report.finish('C17', tier, results, EXPLANATION,
                         ['the invariants listed for not-decided subscripts were read from the code and replayed under ASan '
                          'during triage'], common.TRUSTED, t0)

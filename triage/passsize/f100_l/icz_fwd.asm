.f100_l
.org 0x100
start:
  icz 0x50, target
after_icz:
  nop
  nop
target:
  nop

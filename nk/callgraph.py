"""Whole-program call graph from E1 facts.

Direct calls are resolved by clang (qualified callee names).  Indirect calls through the
function-pointer members that AsmContext/UtilContext copy from cpu_list[] (parse_instruction,
parse_directive, link_function, list_output, disasm_range, simulate_init) are resolved to every
function stored in that column of cpu_list[]; virtual calls to every overrider."""
from .facts import kids, strip, callee, ckey
from . import tables

CPU_COLUMNS = ('parse_instruction', 'parse_directive', 'link_function', 'list_output', 'disasm_range',
               'simulate_init')


class CallGraph:
    def __init__(self, prog):
        self.prog = prog
        self.columns = {}
        try:
            rws, fields, g = tables.rows(prog, 'cpu_list')
            for c in CPU_COLUMNS:
                s = set()
                for r in rws:
                    f = tables.funcref(r.get(c)) if r else None
                    if f:
                        s.add(f)
                self.columns[c] = s
        except Exception:
            pass
        # virtual overriders: base method qname -> set of overriding method qnames
        self.overriders = {}
        for fn in prog.fns.values():
            for o in fn.j.get('overrides', ()):
                self.overriders.setdefault(o, set()).add(fn.key)
        changed = True
        while changed:
            changed = False
            for b, ds in list(self.overriders.items()):
                for d in list(ds):
                    for dd in self.overriders.get(d, ()):
                        if dd not in ds:
                            ds.add(dd)
                            changed = True
        self.edges = {}
        self.unresolved = []
        for fn in prog.fns.values():
            out = self.edges.setdefault(fn.key, set())
            for c in fn.calls():
                q = ckey(c)
                if q is not None:
                    out.add(q)
                    if c.get('virt'):
                        out.update(self.overriders.get(q, ()))
                elif c.get('indirect'):
                    tgt = strip(kids(c)[0], casts=True)
                    name = tgt.get('n') if tgt['k'] in ('MemberExpr', 'DeclRefExpr') else None
                    if name in self.columns:
                        out.update(self.columns[name])
                    else:
                        self.unresolved.append((fn.key, name, c['l']))
            # functions whose address is taken are potential indirect targets only via cpu_list (handled)

    def reachable(self, roots):
        seen = set()
        st = list(roots)
        while st:
            q = st.pop()
            if q in seen:
                continue
            seen.add(q)
            st.extend(self.edges.get(q, ()))
        return seen

    def callers(self):
        inv = {}
        for a, bs in self.edges.items():
            for b in bs:
                inv.setdefault(b, set()).add(a)
        return inv

    def sccs(self, nodes=None):
        """Tarjan (iterative); returns list of SCCs with a cycle (size>1 or self loop)."""
        nodes = list(self.edges) if nodes is None else list(nodes)
        nodeset = set(nodes)
        index = {}
        low = {}
        onst = set()
        st = []
        out = []
        counter = [0]
        for root in nodes:
            if root in index:
                continue
            work = [(root, iter(sorted(e for e in self.edges.get(root, ()) if e in nodeset)))]
            index[root] = low[root] = counter[0]
            counter[0] += 1
            st.append(root)
            onst.add(root)
            while work:
                v, it = work[-1]
                adv = False
                for w in it:
                    if w not in index:
                        index[w] = low[w] = counter[0]
                        counter[0] += 1
                        st.append(w)
                        onst.add(w)
                        work.append((w, iter(sorted(e for e in self.edges.get(w, ()) if e in nodeset))))
                        adv = True
                        break
                    elif w in onst:
                        low[v] = min(low[v], index[w])
                if adv:
                    continue
                work.pop()
                if work:
                    u = work[-1][0]
                    low[u] = min(low[u], low[v])
                if low[v] == index[v]:
                    comp = []
                    while True:
                        w = st.pop()
                        onst.discard(w)
                        comp.append(w)
                        if w == v:
                            break
                    if len(comp) > 1 or v in self.edges.get(v, ()):
                        out.append(sorted(comp))
        return out

.agc
.org 0x100
start:
  index near
l1:
  index start
l2:
  index 0x500
l3:
  ca near
  tc far
near:
  noop
.org 0x3ff
  index far
  noop
far:
  noop

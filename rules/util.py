"""C19 rules: UTIL-UNIT (address scaling in naken_util commands), ADVANCE (writeN/printN step), UTIL-HEX (digit steps)."""
from nk.facts import kids, strip, const, callee, call_args, show, walk
from nk.report import Ob, RuleResult, DISCHARGED, VIOLATED, OBSERVATION
from nk.build import AnalysisBroken
from rules.expr import _eval_c


def util_unit(prog):
    obs = []
    ga = prog.fn('UtilContext::get_address')
    muls = [n for n in ga.nodes.values() if (n['k'] == 'CompoundAssignOperator' and n.get('op') == '*=' and 'bytes_per_address' in show(kids(n)[1]))
            or (n['k'] == 'BinaryOperator' and n.get('op') == '*' and 'bytes_per_address' in show(n))]
    ok = len(muls) == 1
    obs.append(Ob('UTIL-UNIT', ga.file, ga.line, ga.q, 'address-to-bytes', DISCHARGED if ok else VIOLATED,
                  '' if ok else 'get_address multiplies a numeric address by bytes_per_address %d times (must be exactly once)' % len(muls),
                  'numeric address * bytes_per_address once', False))
    for q in ('print8', 'print16', 'print32', 'write8', 'write16', 'write32'):
        fn = prog.fn('UtilContext::' + q)
        labels = []
        for c in fn.calls():
            if callee(c) == 'printf':
                for a in call_args(c)[1:]:
                    t = show(a)
                    if 'bytes_per_address' in t:
                        labels.append(a)
        bad = [a for a in labels if not (strip(a, casts=True)['k'] == 'BinaryOperator' and strip(a, casts=True).get('op') == '/')]
        ok = bool(labels) and not bad
        obs.append(Ob('UTIL-UNIT', fn.file, fn.line, fn.q, 'label-in-units', DISCHARGED if ok else VIOLATED,
                      '' if ok else 'the address printed by %s is not the byte address divided by bytes_per_address' % q,
                      'printed address = byte address / bytes_per_address', False))
    return RuleResult('UTIL-UNIT', obs, 7, {})


def advance(prog):
    """ADVANCE: writeN stores with Memory::writeN and steps N/8 bytes; printN reads with Memory::readN and steps N/8."""
    obs = []
    for q, acc, step in (('write8', 'Memory::write8', 1), ('write16', 'Memory::write16', 2), ('write32', 'Memory::write32', 4),
                         ('print8', 'Memory::read8', 1), ('print16', 'Memory::read16', 2), ('print32', 'Memory::read32', 4)):
        fn = prog.fn('UtilContext::' + q)
        calls = [c for c in fn.calls() if callee(c) == acc]
        if not calls:
            obs.append(Ob('ADVANCE', fn.file, fn.line, fn.q, 'accessor', VIOLATED, '%s does not use %s' % (q, acc)))
            continue
        av = strip(call_args(calls[0])[0], casts=True)
        st = None
        if av['k'] == 'UnaryOperator' and av.get('op') == '++' and av.get('post'):
            av = strip(kids(av)[0], casts=True)
            st = 1
        for n in fn.nodes.values():
            if n['k'] == 'CompoundAssignOperator' and n.get('op') == '+=' and strip(kids(n)[0]).get('d') == av.get('d'):
                st = const(kids(n)[1])
            if n['k'] == 'UnaryOperator' and n.get('op') == '++' and strip(kids(n)[0]).get('d') == av.get('d'):
                st = 1
            if n['k'] == 'BinaryOperator' and n.get('op') == '=' and strip(kids(n)[0]).get('d') == av.get('d'):
                r = strip(kids(n)[1], casts=True)
                if r['k'] == 'BinaryOperator' and r.get('op') == '+' and strip(kids(r)[0], casts=True).get('d') == av.get('d'):
                    st = const(kids(r)[1])
        ok = st == step
        obs.append(Ob('ADVANCE', fn.file, calls[0]['l'], fn.q, 'step', DISCHARGED if ok else VIOLATED,
                      '' if ok else '%s accesses %d byte(s) per item with %s but advances the address by %s' % (q, step, acc, st),
                      'accessor %s, step %d' % (acc, step)))
    return RuleResult('ADVANCE', obs, 6, {})


def util_hex(prog):
    """UTIL-HEX: UtilContext::get_hex computes n*16 + digit for exactly the characters each branch admits."""
    fn = prog.fn('UtilContext::get_hex')
    obs = []

    def digit(ch):
        if '0' <= ch <= '9':
            return ord(ch) - 48
        if 'a' <= ch <= 'f':
            return ord(ch) - 87
        if 'A' <= ch <= 'F':
            return ord(ch) - 55
        return None
    nb = 0
    for n in fn.nodes.values():
        if n['k'] != 'IfStmt':
            continue
        ks = [k for k in kids(n) if k is not None]
        cs = strip(ks[0])
        if cs['k'] != 'BinaryOperator' or cs.get('op') != '&&':
            continue
        a, b = strip(kids(cs)[0]), strip(kids(cs)[1])
        if a.get('op') != '>=' or b.get('op') != '<=':
            continue
        leaf = show(kids(a)[0])
        lo, hi = const(kids(a)[1]), const(kids(b)[1])
        asg = [x for x in walk(ks[1]) if x['k'] == 'BinaryOperator' and x.get('op') == '=' and strip(kids(x)[0]).get('n') == 'n']
        if len(asg) != 1 or lo is None or hi is None:
            continue
        nb += 1
        bad = None
        for c in range(lo, hi + 1):
            for n0 in (0, 1, 0x1234567):
                v = _eval_c(kids(asg[0])[1], {leaf: c, 'n': n0})
                d = digit(chr(c))
                if v is None:
                    raise AnalysisBroken('UTIL-HEX: step not evaluable')
                if d is None or v != n0 * 16 + d:
                    bad = (chr(c), n0, v)
        obs.append(Ob('UTIL-HEX', fn.file, n['l'], fn.q, 'digits:%s-%s' % (chr(lo), chr(hi)), VIOLATED if bad else DISCHARGED,
                      'character %r with accumulator %#x gives %#x' % bad if bad else '', 'n*16 + digit for %r..%r' % (chr(lo), chr(hi))))
    if nb < 3:
        raise AnalysisBroken('UTIL-HEX: only %d digit branches recognised' % nb)
    return RuleResult('UTIL-HEX', obs, 3, {})


LIBC_NUM = ('strtol', 'strtoul', 'strtoll', 'strtoull', 'atoi', 'atol', 'sscanf', 'strtod')


def util_dec(prog):
    """UTIL-DEC: the interactive commands' number parser reads decimals itself: UtilContext::get_num accumulates
    n*10 + (c - '0') for exactly '0'..'9' and neither it nor get_hex/get_address/get_range hand the text to a libc
    converter (strtoul(..., 0) reads a leading 0 as octal, accepts whitespace and signs the commands do not)."""
    obs = []
    for q in ('UtilContext::get_num', 'UtilContext::get_hex', 'UtilContext::get_address', 'UtilContext::get_range'):
        fns = [f for f in prog.fns.values() if f.q.split('(')[0] == q]
        if not fns:
            raise AnalysisBroken('UTIL-DEC: %s not found' % q)
        for fn in fns:
            bad = [c for c in fn.calls() if (callee(c) or '').split('(')[0] in LIBC_NUM]
            obs.append(Ob('UTIL-DEC', fn.file, bad[0]['l'] if bad else fn.line, fn.q, 'no-libc-conversion', VIOLATED if bad else DISCHARGED,
                          '%s converts the text with %s(): its prefix rules (leading 0 = octal with base 0, leading whitespace, '
                          'signs) differ from the number spellings the commands document' % (fn.q, callee(bad[0])) if bad else '',
                          'parses its digits itself', False))
    fn = [f for f in prog.fns.values() if f.q.split('(')[0] == 'UtilContext::get_num'][0]
    steps = 0
    for n in fn.nodes.values():
        if n['k'] != 'IfStmt':
            continue
        ks = [k for k in kids(n) if k is not None]
        cs = strip(ks[0])
        if cs['k'] != 'BinaryOperator' or cs.get('op') != '&&':
            continue
        a, b = strip(kids(cs)[0]), strip(kids(cs)[1])
        if a.get('op') != '>=' or b.get('op') != '<=':
            continue
        leaf = show(kids(a)[0])
        lo, hi = const(kids(a)[1]), const(kids(b)[1])
        asg = [x for x in walk(ks[1]) if x['k'] == 'BinaryOperator' and x.get('op') == '=' and strip(kids(x)[0]).get('n') == 'n']
        if len(asg) != 1 or lo is None or hi is None:
            continue
        steps += 1
        bad = None
        if (lo, hi) != (ord('0'), ord('9')):
            bad = ('range', lo, hi)
        else:
            for c in range(lo, hi + 1):
                for n0 in (0, 1, 429496729):
                    v = _eval_c(kids(asg[0])[1], {leaf: c, 'n': n0})
                    if v is None:
                        raise AnalysisBroken('UTIL-DEC: step not evaluable')
                    if (v & 0xffffffff) != ((n0 * 10 + c - 48) & 0xffffffff):
                        bad = (chr(c), n0, v)
        obs.append(Ob('UTIL-DEC', fn.file, n['l'], fn.q, 'decimal-step', VIOLATED if bad else DISCHARGED,
                      'decimal digit step is wrong: %r' % (bad,) if bad else '', 'n*10 + digit for 0..9'))
    # a vanished decimal loop leaves the rule below its floor (analysis broken), it is not by itself a violation
    return RuleResult('UTIL-DEC', obs, 5, {})


def util_order(prog):
    """UTIL-ORDER: in UtilContext::get_num a number that ends in `h` is hexadecimal whatever it starts with.  Every
    spelling that is recognised by its first characters *before* the `h`-suffix test must contain a character that is not
    a hexadecimal digit (`0x`: the x); a prefix made of hex digits only (`0b`, `0d`) is also the beginning of a legal
    `...h` literal, which would then be read in the other base (0b10h = 0xb10 read as binary 10)."""
    fns = [f for f in prog.fns.values() if f.q.split('(')[0] == 'UtilContext::get_num']
    if not fns:
        raise AnalysisBroken('UTIL-ORDER: UtilContext::get_num not found')
    fn = fns[0]
    anchor = None
    prefixes = []
    for n in sorted(fn.nodes.values(), key=lambda x: x['i']):
        if n['k'] != 'IfStmt':
            continue
        cond = [k for k in kids(n) if k is not None][0]
        eqs = []
        other = False
        st = [strip(cond)]
        while st:
            x = strip(st.pop())
            if x['k'] == 'BinaryOperator' and x.get('op') == '&&':
                st.extend(kids(x))
            elif x['k'] == 'BinaryOperator' and x.get('op') == '==' and const(kids(x)[1]) is not None:
                l = strip(kids(x)[0], casts=True)
                if l['k'] == 'ArraySubscriptExpr' and show(kids(l)[0]).endswith('token'):
                    eqs.append((kids(l)[1], const(kids(x)[1])))
                else:
                    other = True
            else:
                other = True
        if not eqs or other:
            continue
        if len(eqs) == 1 and const(eqs[0][0]) is None and eqs[0][1] == ord('h'):
            anchor = n
            break
        if all(const(i) is not None for i, _ in eqs):
            prefixes.append((n, sorted((const(i), c) for i, c in eqs)))
    if anchor is None:
        raise AnalysisBroken("UTIL-ORDER: the `token[s-1] == 'h'` test of get_num was not found")
    obs = []
    hexd = set(b'0123456789abcdefABCDEF')
    for n, eqs in prefixes:
        chars = ''.join(chr(c) for _, c in eqs)
        ok = any(c not in hexd for _, c in eqs)
        obs.append(Ob('UTIL-ORDER', fn.file, n['l'], fn.q, 'prefix:%s' % chars, DISCHARGED if ok else VIOLATED,
                      '' if ok else 'the spelling `%s...` is recognised before the `h`-suffix test (line %d) and consists of hexadecimal '
                      'digits only: `%s1h` is a legal hex number that is now read in the other base, so write/print address other '
                      'bytes than the ones named' % (chars, anchor['l'], chars),
                      'prefix `%s` contains a non-hex character, no `...h` literal starts with it' % chars, False))
    obs.append(Ob('UTIL-ORDER', fn.file, anchor['l'], fn.q, 'h-suffix-test', DISCHARGED, '',
                  '%d prefix spellings are tested before the h-suffix test' % len(prefixes), False))
    return RuleResult('UTIL-ORDER', obs, 2, {})

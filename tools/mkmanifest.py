#!/usr/bin/env python3
"""Regenerate /verif/MANIFEST.json from props/registry.py."""
import json
import os
import sys
HERE = os.path.dirname(os.path.dirname(os.path.abspath(__file__)))
sys.path.insert(0, HERE)
from props import registry

ALL = ['C%02d' % i for i in range(1, 21)]
checks = []
for pid in ALL:
    c = registry.CLAIMED.get(pid)
    if not c:
        continue
    checks.append({
        'property_id': pid,
        'quick_cmd': './check %s --tier quick' % pid,
        'thorough_cmd': './check %s --tier thorough' % pid,
        'evidence_file': 'evidence/%s.json' % pid,
        'replay_cmd_template': './check %s --replay {path}' % pid,
        'engine': 'nkfacts+nkrules',
        'level_claimed': {'category': 'other', 'text': c['level'], 'design_ref': c.get('design', 'DESIGN.md §3, §4')},
        'level_note': c['note'],
        'technique': c['technique'],
    })
na = []
for pid in ALL:
    if pid in registry.CLAIMED:
        continue
    na.append({'property_id': pid, 'reason': registry.NOT_APPLICABLE.get(pid, registry.PENDING)})
m = {
    'version': 1,
    'setup_cmd': './setup.sh',
    'hooks': {'guard': 'NAKEN_ASM_VERIF',
              'enable': 'the analysers compile every unit with -DNAKEN_ASM_VERIF (no hook in /repo depends on it today)',
              'baseline_off_cmd': 'make -C /repo && make -C /repo tests',
              'source_commits': [], 'add_only': True},
    'engines': [
        {'name': 'nkfacts', 'path': 'tools/nkfacts.cc',
         'kind_free_text': 'libTooling fact extractor: typed syntax trees, clang CFGs, evaluated table initialisers, record layouts for every unit of the build',
         'serves_properties': sorted(registry.CLAIMED)},
        {'name': 'nkrules', 'path': 'rules/',
         'kind_free_text': 'Python rule engine over the extracted facts: CFG path queries, abstract interpretation of drivers, table comparisons, call graph',
         'serves_properties': sorted(registry.CLAIMED)},
    ],
    'checks': checks,
    'not_applicable': na,
    'notes': 'Static analysis only: every verdict is computed from /repo\'s current source; naken_asm is never executed by a check. '
             'Exit 2 = analysis broken (anchor vanished / rule below its floor). Known findings: known_findings.jsonl.',
}
with open(os.path.join(HERE, 'MANIFEST.json'), 'w') as f:
    json.dump(m, f, indent=1)
print('MANIFEST.json: %d checks, %d not applicable' % (len(checks), len(na)))

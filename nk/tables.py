"""Reading constant tables (table/*.cpp, cpu_list[] …) from their evaluated initialisers."""
from .facts import kids, strip, const
from .build import AnalysisBroken


def elem_record(prog, g):
    """Record name of the element type of a global array."""
    t = g['types'][g['t']]
    # e.g. 'table_msp430[59]' printed as 'struct _table_msp430[59]' → canonical 'table_msp430[59]'
    base = t.split('[')[0].strip()
    if base.startswith('const '):
        base = base[6:]
    return base


def rows(prog, gname, file=None):
    """Rows of a global array of structs: list of {field: node}; also returns field order."""
    g = prog.global_def(gname, file)
    if 'init' not in g:
        raise AnalysisBroken('table %s has no initialiser' % gname)
    rec = prog.records.get(elem_record(prog, g))
    if rec is None:
        raise AnalysisBroken('element record of %s (%s) not found' % (gname, elem_record(prog, g)))
    fields = [f['n'] for f in rec['fields']]
    init = strip(g['init'])
    if init['k'] != 'InitListExpr':
        raise AnalysisBroken('table %s initialiser is not a list' % gname)
    out = []
    for r in kids(init):
        r = strip(r)
        if r['k'] == 'ImplicitValueInitExpr':
            out.append({})
            continue
        if r['k'] != 'InitListExpr':
            raise AnalysisBroken('row of %s is %s' % (gname, r['k']))
        out.append({f: v for f, v in zip(fields, kids(r))})
    return out, fields, g


def strval(n):
    """String literal value of a node (None for null pointers)."""
    if n is None:
        return None
    s = strip(n, casts=True)
    if s['k'] == 'StringLiteral':
        return s.get('s')
    return None


def is_null(n):
    if n is None:
        return True
    s = strip(n, casts=True)
    if s['k'] in ('CXXNullPtrLiteralExpr', 'GNUNullExpr', 'ImplicitValueInitExpr'):
        return True
    v = const(n)
    return v == 0 and s['k'] != 'StringLiteral'


def funcref(n):
    """Name of the function a node refers to (address-of or decayed), else None."""
    if n is None:
        return None
    s = strip(n, casts=True)
    if s['k'] == 'UnaryOperator' and s.get('op') == '&':
        s = strip(kids(s)[0], casts=True)
    if s['k'] == 'DeclRefExpr' and s.get('dk') == 'func':
        return s['n']
    return None

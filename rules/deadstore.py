"""DEAD-STORE (C01/C06): a computed value is not thrown away.

Instance: an assignment `v = E` / `v op= E` to a local scalar, E not a constant and free of calls, that is followed in the
same basic block by another reference to v.  The instance is violated when that next reference is a plain assignment
`v = E2` whose right-hand side does not read v: the first value can never be used (a scaling, masking or range adjustment
written before the operand is re-loaded is lost and the unadjusted value is encoded)."""
from nk.facts import kids, strip, const, callee, show, walk
from nk.report import Ob, RuleResult, DISCHARGED, VIOLATED, OBSERVATION
from nk.build import AnalysisBroken


def dead_store(prog, scope, floor=50):
    obs = []
    for fn in sorted(prog.functions(scope), key=lambda f: (f.file, f.line)):
        if not fn.blocks:
            continue
        k = 0
        addr_taken = {strip(kids(n)[0]).get('d') for n in fn.nodes.values()
                      if n['k'] == 'UnaryOperator' and n.get('op') == '&' and strip(kids(n)[0])['k'] == 'DeclRefExpr'}
        for b, bb in sorted(fn.blocks.items()):
            es = bb['e']
            for i, eid in enumerate(es):
                n = fn.nodes.get(eid)
                if n is None or n['k'] not in ('BinaryOperator', 'CompoundAssignOperator') or not n.get('op', '').endswith('=') or \
                        n['op'] in ('==', '!=', '<=', '>='):
                    continue
                t = strip(kids(n)[0])
                if t['k'] != 'DeclRefExpr' or t.get('dk') != 'local' or t.get('d') in addr_taken:
                    continue
                rhs = kids(n)[1]
                if const(rhs) is not None or any(x['k'] in ('CallExpr', 'CXXMemberCallExpr') for x in walk(rhs)):
                    continue
                # the assignment is not itself an operand of a larger expression that reads its value
                p = fn.parent.get(n['i'])
                if p is not None and p['k'] not in ('CompoundStmt', 'IfStmt', 'ForStmt', 'WhileStmt', 'CaseStmt', 'DefaultStmt',
                                                     'LabelStmt', 'SwitchStmt', 'DoStmt'):
                    continue
                d = t['d']
                nxt = None
                for eid2 in es[i + 1:]:
                    m = fn.nodes.get(eid2)
                    if m is None:
                        continue
                    if m['k'] == 'DeclRefExpr' and m.get('d') == d:
                        nxt = m
                        break
                if nxt is None:
                    continue
                k += 1
                # is that reference the target of a plain assignment whose RHS does not read v?
                pp = fn.parent.get(nxt['i'])
                dead = False
                if pp is not None and pp['k'] == 'BinaryOperator' and pp.get('op') == '=' and strip(kids(pp)[0])['i'] == nxt['i'] and \
                        not any(x['k'] == 'DeclRefExpr' and x.get('d') == d for x in walk(kids(pp)[1])):
                    dead = True
                construct = 'store#%d:%s' % (k, show(n)[:30])
                if dead:
                    obs.append(Ob('DEAD-STORE', fn.file, n['l'], fn.q, construct, VIOLATED,
                                  '`%s` (line %d) is overwritten by `%s` (line %d) before anything reads it: the computed value is '
                                  'lost' % (show(n)[:50], n['l'], show(pp)[:50], pp['l'])))
                else:
                    obs.append(Ob('DEAD-STORE', fn.file, n['l'], fn.q, construct, DISCHARGED, '', 'the next reference reads the value', False))
    if len(obs) < floor:
        raise AnalysisBroken('DEAD-STORE: only %d stores followed by a reference in their block' % len(obs))
    return RuleResult('DEAD-STORE', obs, floor, {})

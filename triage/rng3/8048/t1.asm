.8048
  movd a, p4
  movd a, p7
  outl p1, a
  outl p2, a
  anld p5, a
  mov a, r7
  inc r3

.arc
start:
  abs 0, fwd
after:
  nop_s
.set fwd=100

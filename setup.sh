#!/bin/sh
# Build the analysers (offline; only files on disk).
set -e
cd "$(dirname "$0")"
if [ ! -x tools/nkfacts ] || [ tools/nkfacts.cc -nt tools/nkfacts ]; then
  clang++ $(llvm-config-14 --cxxflags) -fno-rtti -O1 tools/nkfacts.cc -o tools/nkfacts \
    /usr/lib/llvm-14/lib/libclang-cpp.so.14 /usr/lib/llvm-14/lib/libLLVM-14.so
fi
python3 -m compileall -q nk rules props >/dev/null
mkdir -p evidence .cache
echo "setup ok"

.arc
start:
  ld fwd, [r3, 4]
after:
  nop_s
.set fwd=1

"""PAGE-BASE and TAUT-CHECK: checks on "paged" jump targets.

PAGE-BASE: an absolute-in-page jump (8051 ajmp/acall, MIPS j/jal) stores only the low bits of its target; the processor
takes the upper bits from the program counter *after* the instruction (8051: PC+2, Intel MCS-51 programmer's guide;
MIPS: address of the delay slot, PC+4).  The assembler's "same block" test and the disassembler's target reconstruction
must both use that base: every expression `(pc + K) & MASK` in the two files is extracted (locals unfolded to their
single initialiser) and K must equal the architectural constant on both sides.  The assembler must also have a
comparison of the pc block against the operand's block that leads to an error return.

TAUT-CHECK: a comparison in asm/*.cpp whose two sides are the same expression once a local initialised in the same basic
block (with no call or store in between) is replaced by its initialiser can never reject anything: a range/page check
that tests the operand against itself.
"""
from nk.facts import kids, strip, const, walk, show, callee
from nk.report import Ob, RuleResult, DISCHARGED, VIOLATED
from nk.build import AnalysisBroken

PAGED = [
    # cpu, asm function, disasm function, mask, K, source
    ('8051', 'parse_instruction_8051', 'disasm_8051', 0xf800, 2,
     'MCS-51: AJMP/ACALL take bits 15..11 from the address of the following instruction (PC+2)'),
    ('mips', 'parse_instruction_mips', 'disasm_mips', 0xf0000000, 4,
     'MIPS: J/JAL take bits 31..28 from the address of the delay slot (PC+4)'),
]


def _stores(fn):
    """decl id -> number of stores (assignment, ++/--, address taken) to a local."""
    st = {}
    for n in fn.nodes.values():
        tgt = None
        if n['k'] in ('BinaryOperator', 'CompoundAssignOperator') and (
                n.get('op') == '=' or (n.get('op', '').endswith('=') and n['op'] not in ('==', '!=', '<=', '>='))):
            tgt = strip(kids(n)[0])
        elif n['k'] == 'UnaryOperator' and n.get('op') in ('++', '--', '&'):
            tgt = strip(kids(n)[0])
        if tgt is not None and tgt['k'] == 'DeclRefExpr':
            st[tgt.get('d')] = st.get(tgt.get('d'), 0) + 1
    return st


def _inits(fn):
    """decl id -> (initialiser node, DeclStmt node) for locals declared with an initialiser."""
    out = {}
    for n in fn.nodes.values():
        if n['k'] == 'DeclStmt':
            for d, i in zip([x for x in n.get('decls', ()) if x.get('init')], kids(n)):
                out[d['d']] = (i, n)
    return out


def _defs(fn, d):
    """All values stored in local d: initialiser and plain assignments."""
    out = []
    ini = _inits(fn).get(d)
    if ini:
        out.append(ini[0])
    for n in fn.nodes.values():
        if n['k'] == 'BinaryOperator' and n.get('op') == '=':
            t = strip(kids(n)[0])
            if t['k'] == 'DeclRefExpr' and t.get('d') == d:
                out.append(kids(n)[1])
    return out


class Norm:
    """Canonical form of an integer expression with single-definition locals unfolded."""

    def __init__(self, fn, allow=None):
        self.fn = fn
        self.inits = _inits(fn)
        self.stores = _stores(fn)
        self.allow = allow          # optional predicate(decl id) restricting which locals are unfolded

    def norm(self, n, depth=0):
        n = strip(n, casts=True)
        if n is None:
            return ('?',)
        v = const(n)
        if v is not None:
            return ('c', v)
        k = n['k']
        if k == 'DeclRefExpr':
            d = n.get('d')
            if depth < 6 and d in self.inits and not self.stores.get(d) and (self.allow is None or self.allow(d)):
                return self.norm(self.inits[d][0], depth + 1)
            return ('v', n.get('n'), d)
        if k == 'MemberExpr':
            c = kids(n)
            return ('m', n.get('n'), self.norm(c[0], depth + 1) if c else ('this',))
        if k == 'ArraySubscriptExpr':
            c = kids(n)
            return ('[]', self.norm(c[0], depth + 1), self.norm(c[1], depth + 1))
        if k == 'BinaryOperator':
            a, b = (self.norm(x, depth + 1) for x in kids(n))
            op = n.get('op')
            if op in ('+', '&', '|', '*', '^') and a[0] == 'c' and b[0] != 'c':
                a, b = b, a
            if op == '&' and b[0] == 'c' and a[0] == '&' and a[2][0] == 'c':
                return ('&', a[1], ('c', a[2][1] & b[1]))
            if op == '+' and b[0] == 'c' and a[0] == '+' and a[2][0] == 'c':
                return ('+', a[1], ('c', a[2][1] + b[1]))
            return (op, a, b)
        if k == 'UnaryOperator':
            return ('u' + n.get('op', ''), self.norm(kids(n)[0], depth + 1))
        if k in ('CallExpr', 'CXXMemberCallExpr', 'CXXOperatorCallExpr'):
            return ('call', n['i'])
        return (k, n['i'])


def _has(t, tag):
    if not isinstance(t, tuple):
        return False
    if t and t[0] == tag:
        return True
    return any(_has(x, tag) for x in t[1:])


def _pc_offset(t, side):
    """K when t is `pc + K` (or `pc`), for the assembler (asm_context->address) or disassembler (parameter address)."""
    def is_pc(x):
        if side == 'asm':
            return x[0] == 'm' and x[1] == 'address' and x[2][0] == 'v' and x[2][1] == 'asm_context'
        return x[0] == 'v' and x[1] == 'address'
    if is_pc(t):
        return 0
    if t[0] == '+' and t[2][0] == 'c' and is_pc(t[1]):
        return t[2][1]
    if t[0] == '-' and t[2][0] == 'c' and is_pc(t[1]):
        return -t[2][1]
    return None


def page_base(prog):
    obs = []
    for cpu, afn, dfn, mask, K, src in PAGED:
        for side, q in (('asm', afn), ('disasm', dfn)):
            fn = prog.fn(q)
            nm = Norm(fn)
            sites = []
            for n in fn.nodes.values():
                if n['k'] != 'BinaryOperator' or n.get('op') != '&':
                    continue
                l, r = kids(n)
                for a, b in ((l, r), (r, l)):
                    if const(b) == mask:
                        k_ = _pc_offset(nm.norm(a), side)
                        if k_ is not None:
                            sites.append((n, k_))
            if not sites:
                anchors = [n for n in fn.nodes.values() if n['k'] == 'BinaryOperator' and n.get('op') == '&'
                           and mask in (const(kids(n)[0]), const(kids(n)[1]))]
                if not anchors:
                    raise AnalysisBroken('PAGE-BASE: no `& 0x%x` in %s' % (mask, q))
                n = min(anchors, key=lambda x: x['l'])
                obs.append(Ob('PAGE-BASE', fn.file, n['l'], fn.q, '%s:%s:no-pc-block' % (cpu, side), VIOLATED,
                              '%s masks with 0x%x (`%s`) but never the program counter: the upper target bits are not related '
                              'to pc+%d (%s)' % (fn.q, mask, show(n), K, src)))
            for n, k_ in sites:
                ok = k_ == K
                obs.append(Ob('PAGE-BASE', fn.file, n['l'], fn.q, '%s:%s:%s' % (cpu, side, show(n)),
                              DISCHARGED if ok else VIOLATED,
                              '' if ok else '`%s` takes the upper target bits from pc%+d, the processor takes them from pc+%d '
                              '(%s): an instruction in the last bytes of a block is %s' % (
                                  show(n), k_, K, src,
                                  'checked against the wrong block, so an unreachable target is accepted and its upper bits '
                                  'are dropped' if side == 'asm' else 'listed with a target in the wrong block'),
                              'upper bits from pc+%d = architectural base (%s)' % (K, src)))
            if side == 'asm':
                # the pc block is compared with the operand's block and the failing arm returns an error
                found = False
                for b, bb in fn.blocks.items():
                    cn = fn.nodes.get(bb.get('cond')) if 'cond' in bb else None
                    if cn is None:
                        continue
                    for x in walk(cn):
                        if x['k'] == 'BinaryOperator' and x.get('op') in ('!=', '=='):
                            ta, tb = (nm.norm(y) for y in kids(x))
                            for p, o in ((ta, tb), (tb, ta)):
                                if not (p[0] == '&' and p[2] == ('c', mask) and _pc_offset(p[1], 'asm') is not None):
                                    continue
                                # the operand side: written out, or a local one of whose definitions is it
                                cands = [o]
                                if o[0] == 'v':
                                    cands = [nm.norm(r_) for r_ in _defs(fn, o[2])]
                                for o_ in cands:
                                    if o_[0] == '&' and o_[2] == ('c', mask) and _pc_offset(o_[1], 'asm') is None \
                                            and _has(o_, 'm'):
                                        found = x
                ok = found is not False
                obs.append(Ob('PAGE-BASE', fn.file, found['l'] if ok else fn.line, fn.q, '%s:asm:block-test' % cpu,
                              DISCHARGED if ok else VIOLATED,
                              '' if ok else 'no comparison of `(pc+K) & 0x%x` with the operand\'s `& 0x%x` in %s: a target outside the '
                              'reachable block is not rejected and its upper bits are dropped' % (mask, mask, fn.q),
                              'the operand\'s block is compared with the block of pc+%d' % K))
    return RuleResult('PAGE-BASE', obs, 6, {'cpus': len(PAGED)})


def taut_check(prog):
    """TAUT-CHECK over asm/*.cpp."""
    obs = []
    ncmp = 0
    for fn in sorted(prog.fns.values(), key=lambda f: (f.file, f.line)):
        if not fn.file.startswith('asm/') or not fn.blocks:
            continue
        inits = _inits(fn)
        for b, bb in fn.blocks.items():
            cn = fn.nodes.get(bb.get('cond')) if 'cond' in bb else None
            if cn is None:
                continue
            # locals declared earlier in this very block with nothing but declarations in between
            pos = {e: i for i, e in enumerate(bb['e'])}
            local_ok = set()
            for d, (init, ds) in inits.items():
                w = fn.where.get(ds['i'])
                if w is None or w[0] != b:
                    continue
                clean = True
                for e in bb['e'][w[1] + 1:]:
                    x = fn.nodes.get(e)
                    if x is None:
                        continue
                    if x['k'] in ('CallExpr', 'CXXMemberCallExpr', 'CXXOperatorCallExpr', 'CompoundAssignOperator') or \
                            (x['k'] == 'BinaryOperator' and x.get('op') == '=') or \
                            (x['k'] == 'UnaryOperator' and x.get('op') in ('++', '--')):
                        clean = False
                        break
                if clean:
                    local_ok.add(d)
            nm = Norm(fn, allow=lambda d, s=local_ok: d in s)
            for x in walk(cn):
                if x['k'] != 'BinaryOperator' or x.get('op') not in ('==', '!=', '<', '>', '<=', '>='):
                    continue
                ncmp += 1
                ta, tb = (nm.norm(y) for y in kids(x))
                if ta != tb or ta[0] == 'c' or _has(ta, 'call') or _has(ta, '?'):
                    continue
                # only report when an unfolding took part (x == x written out is not a check someone relies on)
                raw = Norm(fn, allow=lambda d: False)
                if raw.norm(kids(x)[0]) == raw.norm(kids(x)[1]):
                    continue
                obs.append(Ob('TAUT-CHECK', fn.file, x['l'], fn.q, show(x), VIOLATED,
                              '`%s` compares a value with itself (both sides are `%s` once the local is replaced by its '
                              'initialiser a few lines above): the test can never fail, so the operand is never rejected and the '
                              'bits outside the field are dropped' % (show(x), show(kids(x)[1]))))
    if ncmp < 5000:
        raise AnalysisBroken('TAUT-CHECK: only %d comparisons seen in asm/' % ncmp)
    obs.append(Ob('TAUT-CHECK', 'asm/', 0, '*', 'comparisons:%d' % (ncmp // 1000 * 1000), DISCHARGED, '',
                  '%d comparisons in branch conditions of asm/*.cpp, none compares an operand with a copy of itself' % ncmp, True))
    return RuleResult('TAUT-CHECK', obs, 1, {'comparisons': ncmp})


# ---------------------------------------------------------------------------------------------------------------------
NEG_INF, POS_INF = float('-inf'), float('inf')


def _param_ranges(prog, fn, callsites):
    """Integer parameters whose argument is a constant at every call site: decl id -> (min, max)."""
    from nk.facts import call_args
    out = {}
    cs = callsites.get(fn.key, [])
    if not cs:
        return out
    for i, p in enumerate(fn.params()):
        lo = hi = None
        ok = True
        for c in cs:
            a = call_args(c)
            if i >= len(a) or const(a[i]) is None:
                ok = False
                break
            v = const(a[i])
            lo = v if lo is None else min(lo, v)
            hi = v if hi is None else max(hi, v)
        if ok and lo is not None:
            out[p['d']] = (lo, hi)
    return out


def _sat_set(n, pr, subject):
    """Over-approximation of the values of the one tested expression for which condition n can be true, as a list of
    closed intervals; subject[0] is fixed by the first comparison met.  None = no information (everything)."""
    n = strip(n)
    k = n['k']
    if k == 'BinaryOperator' and n.get('op') in ('&&', '||'):
        a = _sat_set(kids(n)[0], pr, subject)
        b = _sat_set(kids(n)[1], pr, subject)
        if n['op'] == '||':
            if a is None or b is None:
                return None
            return a + b
        if a is None:
            return b
        if b is None:
            return a
        out = []
        for (l1, h1) in a:
            for (l2, h2) in b:
                lo, hi = max(l1, l2), min(h1, h2)
                if lo <= hi:
                    out.append((lo, hi))
        return out
    if k == 'BinaryOperator' and n.get('op') in ('<', '>', '<=', '>=', '=='):
        l, r = kids(n)
        op = n['op']

        def rng(x):
            v = const(x)
            if v is not None:
                return (v, v)
            s = strip(x, casts=True)
            if s['k'] == 'DeclRefExpr' and s.get('d') in pr:
                return pr[s['d']]
            return None
        rl, rr = rng(l), rng(r)
        if rr is None and rl is not None:
            l, r, rl, rr = r, l, rr, rl
            op = {'<': '>', '>': '<', '<=': '>=', '>=': '<=', '==': '=='}[op]
        if rr is None or rl is not None:
            return None
        s = strip(l, casts=True)
        if any(x['k'] in ('CallExpr', 'CXXMemberCallExpr') for x in walk(s)):
            return None
        txt = show(s)
        if subject[0] is None:
            subject[0] = txt
        if subject[0] != txt:
            return None
        lo, hi = rr
        if op == '<':
            return [(NEG_INF, hi - 1)]
        if op == '<=':
            return [(NEG_INF, hi)]
        if op == '>':
            return [(lo + 1, POS_INF)]
        if op == '>=':
            return [(lo, POS_INF)]
        return [(lo, hi)]
    return None


def range_contra(prog):
    """RANGE-CONTRA: the condition that guards a range diagnostic (print_error_range in its true arm) is satisfiable.
    The condition is read as a set of values of the one expression it compares with constants (or with parameters that are
    constants at every call site): `v < low && v > high` with low <= high is the empty set -- the check can never fire
    and every value reaches the encoder."""
    from nk.facts import callee as _callee
    callsites = {}
    for fn in prog.fns.values():
        if not fn.blocks:
            continue
        for c in fn.calls():
            if c.get('ck'):
                callsites.setdefault(c['ck'], []).append(c)
    obs = []
    n_checks = 0
    for fn in sorted(prog.fns.values(), key=lambda f: (f.file, f.line)):
        if not fn.blocks or not fn.file.startswith('asm/'):
            continue
        pr = None
        for n in fn.nodes.values():
            if n['k'] != 'IfStmt' or len(kids(n)) < 2:
                continue
            cond, then = kids(n)[0], kids(n)[1]
            if cond is None or then is None:
                continue
            if not any((_callee(x) or '').split('(')[0] == 'print_error_range' for x in walk(then)):
                continue
            if pr is None:
                pr = _param_ranges(prog, fn, callsites)
            n_checks += 1
            subj = [None]
            s = _sat_set(cond, pr, subj)
            if s is not None and len(s) == 0:
                obs.append(Ob('RANGE-CONTRA', fn.file, cond['l'], fn.q, show(cond)[:60], VIOLATED,
                              '`%s` can never be true (%s): the range diagnostic it guards is dead, no value of `%s` is rejected here '
                              'and whatever does not fit the field is truncated' % (
                                  show(cond), 'with %s' % ', '.join('%s in [%d, %d]' % (p['n'], pr[p['d']][0], pr[p['d']][1])
                                                                    for p in fn.params() if p['d'] in pr) if pr else 'constants',
                                  subj[0])))
            else:
                obs.append(Ob('RANGE-CONTRA', fn.file, cond['l'], fn.q, show(cond)[:60], DISCHARGED, '',
                              'the guard of the range diagnostic is satisfiable', False))
    if n_checks < 300:
        raise AnalysisBroken('RANGE-CONTRA: only %d guarded range diagnostics in asm/' % n_checks)
    return RuleResult('RANGE-CONTRA', obs, 300, {'checks': n_checks})

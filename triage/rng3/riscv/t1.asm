.riscv
.org 0x1000
start:
  call start+2047+4
  call start+4+2048+4
  tail start-2048+12+4
  tail start-2049+20+4
  call 0x12345678

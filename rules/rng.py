"""R-RNG: a symbol-derived operand value that is masked (or narrowed by an 8/16-bit emit) into an instruction field
was range-checked against that field first.

Sites      every `X & M` (M constant) in asm/*.cpp where X may hold a value produced by eval_expression (flow-sensitive
           taint, rules/passsize.py), and every add_bin8/add_bin16 argument that may hold such a value unmasked.
Field      sites that mask the same root value inside the same compound statement are one field: `(v & 0xff)`,
           `(v >> 8) & 0xff` together cover bits 0..15.  The field width w is the length of the covered bit run,
           `low` the number of dropped low bits (`(offset >> 1) & 0xff`).
Verdicts   proven      the interval analysis (branch refinement by the range checks whose failing arm returns an error)
                       bounds the root inside [-2^(w+low-1), 2^(w+low) - 1]: masking loses nothing but the sign spelling
           R-RNG1      the value is bounded, but by a range the field cannot hold: accepted values are wrapped
           checked     a test on the value with an error arm dominates the site, of a form the interval domain does not
                       express (same-page tests, table-driven limits): observation, not decided
           R-RNG2      no test on the value with an error arm dominates the site: any value is masked silently"""
from nk.facts import kids, strip, const, show, walk, call_args
from nk.interval import Analyzer, TOP
from nk.cfg import dominators
from nk.report import Ob, RuleResult, DISCHARGED, VIOLATED, OBSERVATION
from nk.build import AnalysisBroken
from rules import passsize as ps

NARROW = {'add_bin8': 8, 'add_bin16': 16}


def _root(n):
    """(root expression, right shift) of X in `X & M`: strips casts, parentheses and `>> constant`."""
    s = 0
    n = strip(n, casts=True)
    while n['k'] == 'BinaryOperator' and n.get('op') == '>>' and const(kids(n)[1]) is not None:
        s += const(kids(n)[1])
        n = strip(kids(n)[0], casts=True)
    return n, s


def _compound(fn, n):
    p = fn.parent.get(n['i'])
    while p is not None and p['k'] not in ('CompoundStmt', 'CaseStmt', 'DefaultStmt'):
        p = fn.parent.get(p['i'])
    return p['i'] if p is not None else -1


def rng(prog, an=None, files=None, table=None):
    if an is None:
        an = Analyzer(prog)
        # encodings are what pass 2 emits: range tests guarded by `asm_context->pass == 2` are in force
        an.field_override = {('AsmContext', 'pass'): (2, 2)}
    files = files or {f.file for f in prog.fns.values() if f.file.startswith('asm/')}
    summ = ps.summaries(prog, files)
    fft = ps.file_field_taint(prog, files, summ)
    # out-parameters that receive a value derived from a symbol-derived record field (`*offset = operands[0].value - pc`
    # in a range helper): the plain summaries only know eval_expression as a source
    for _ in range(3):
        changed = False
        for f_ in prog.fns.values():
            if f_.file not in files or not f_.blocks:
                continue
            fi_ = ps.FnInfo(prog, f_, summ)
            fi_.taint |= fft.get(f_.file, set())
            fi_.solve()
            out_ = {i for i, p in enumerate(f_.params()) if 'V:%s' % p['d'] in fi_.taint and
                    '*' in (f_.types[p['t']] if isinstance(p.get('t'), int) else '')}
            cur = summ.setdefault(f_.key, {'out': set(), 'ret': False, 'memo_out': set(), 'ret_memo': False})
            if not out_ <= set(cur.get('out', ())):
                cur['out'] = set(cur.get('out', ())) | out_
                changed = True
        if not changed:
            break
    obs = []
    stats = {'functions': 0, 'mask_sites': 0, 'untainted_masks': 0, 'fields': 0}
    uncut = []
    stats['uncut_sites'] = uncut
    reported = set()
    table = table or {}
    for fn in sorted(prog.fns.values(), key=lambda f: (f.file, f.line)):
        if fn.file not in files or not fn.blocks:
            continue
        sites = []
        for n in fn.nodes.values():
            if n['k'] == 'BinaryOperator' and n.get('op') == '&':
                a, b = kids(n)
                for X, M in ((a, b), (b, a)):
                    m = const(M)
                    if m is None or m <= 0 or const(X) is not None:
                        continue
                    sites.append((n, X, m))
                    break
            elif n['k'] == 'CallExpr' and ps.callee(n) in NARROW:
                args = call_args(n)
                if len(args) > 1 and const(args[1]) is None:
                    sites.append((n, args[1], (1 << NARROW[ps.callee(n)]) - 1))
        if not sites:
            continue
        stats['functions'] += 1
        fi = ps.FnInfo(prog, fn, summ)
        fi.solve()
        fi.file_fields = fft.get(fn.file, set())
        ft0 = ps.FlowTaint(fn, fi)
        tags = ps.tag_taint(fn, ft0)
        ft = ps.FlowTaint(fn, fi, tags)
        # locals that are a plain copy of one operand's value (`b = operands[1].value;`): per store site
        copies = {}
        for kk, rhs, stn, b in fi.assigns:
            if kk.startswith('V:') and rhs is not None:
                r_ = strip(rhs, casts=True)
                base_ = show(kids(r_)[0]) if (r_['k'] == 'MemberExpr' and r_.get('n') == 'value') else None
                try:
                    copies.setdefault(int(kk[2:]), []).append((b, base_))
                except ValueError:
                    pass
        # keys that hold an assembled word (operand OR-ed with other fields), not an operand value
        mixed = set()
        for kk, rhs, stn, b in fi.assigns:
            if stn['k'] == 'CompoundAssignOperator' and stn.get('op') in ('|=', '^='):
                mixed.add(kk)
            elif rhs is not None and any(x['k'] == 'BinaryOperator' and x.get('op') in ('|', '^') and const(x) is None for x in walk(rhs)):
                mixed.add(kk)
        fa = None
        dom = None
        dead = None
        p2 = None
        groups = {}
        for n, X, m in sites:
            w = fn.block_of(n)
            if w is None:
                continue
            root, sh = _root(X)
            # taint at the site: state at block entry advanced to the element
            st = set(ft.inn[w[0]])
            for e in fn.blocks[w[0]]['e'][:w[1]]:
                x = fn.nodes.get(e)
                if x is not None:
                    ft.transfer(x, st)
            if n['k'] == 'CallExpr':
                # unmasked argument of a narrow emit: only when the argument itself is the value (possibly shifted)
                if root['k'] not in ('DeclRefExpr', 'MemberExpr', 'ArraySubscriptExpr'):
                    continue
            if not (ps.value_keys(fn, root) & st) or (ps.value_keys(fn, root) & mixed):
                stats['untainted_masks'] += 1
                continue
            base = None
            if root['k'] == 'DeclRefExpr' and copies.get(root.get('d')):
                # the store that reaches this use: the closest dominating one
                if dom is None:
                    dom = dominators(fn)
                    dead = ps._error_dead(fn)
                cands_ = [(len(dom[b_]), base_) for b_, base_ in copies[root['d']] if b_ in dom[w[0]]]
                if cands_:
                    base = max(cands_)[1]
            tt = ps._tag_tests(fn, n, root, base)
            if tt and all(t in tags and not tags[t] for t in tt):
                stats['untainted_masks'] += 1
                continue
            # a mask inside a comparison (`(v & 3) != 0` alignment tests) encodes nothing
            p_ = fn.parent.get(n['i'])
            while p_ is not None and p_['k'] in ('ParenExpr', 'ImplicitCastExpr'):
                p_ = fn.parent.get(p_['i'])
            if n['k'] == 'BinaryOperator' and p_ is not None and p_['k'] == 'BinaryOperator' and p_.get('op') in ('==', '!=', '<', '>', '<=', '>='):
                stats['untainted_masks'] += 1
                continue
            stats['mask_sites'] += 1
            key = (show(root), _compound(fn, n))
            groups.setdefault(key, []).append((n, root, sh, m, w))
        for (rtxt, comp), lst in sorted(groups.items(), key=lambda kv: kv[1][0][0]['i']):
            stats['fields'] += 1
            U = 0
            for n, root, sh, m, w in lst:
                U |= (m << sh)
            # unmasked `root >> s` terms in the same compound statement carry all the higher bits
            for x in fn.nodes.values():
                if x['k'] == 'BinaryOperator' and x.get('op') == '>>' and const(kids(x)[1]) is not None and \
                        show(strip(kids(x)[0], casts=True)) == rtxt and _compound(fn, x) == comp:
                    p_ = fn.parent.get(x['i'])
                    while p_ is not None and p_['k'] in ('ParenExpr', 'ImplicitCastExpr', 'CStyleCastExpr'):
                        p_ = fn.parent.get(p_['i'])
                    if p_ is not None and p_['k'] == 'BinaryOperator' and p_.get('op') in ('&', '>>'):
                        continue
                    # `v = v >> 1;` scales the value, it does not encode its high bits
                    if p_ is not None and p_['k'] == 'BinaryOperator' and p_.get('op') == '=' and \
                            show(strip(kids(p_)[0], casts=True)) == rtxt:
                        continue
                    U |= (0xffffffff << const(kids(x)[1])) & 0xffffffff
            low = (U & -U).bit_length() - 1
            run = U >> low
            n, root, sh, m, w = min(lst, key=lambda t: t[0]['i'])
            construct = '%s&%#x' % (rtxt[:40], U)
            k_ = sum(1 for o in obs if o.file == fn.file and o.function == fn.q and o.construct.split('#')[0] == construct)
            construct = '%s#%d' % (construct, k_ + 1)
            if (run + 1) & run:
                obs.append(Ob('R-RNG', fn.file, n['l'], fn.q, construct, OBSERVATION,
                              'the masks applied to `%s` here cover the non-contiguous bit set %#x; not decided' % (rtxt, U)))
                continue
            wbits = run.bit_length() + low
            lo_ok, hi_ok = -(1 << (wbits - 1)), (1 << wbits) - 1
            if fa is None:
                fa = an._fa_cache(fn)
            if w[0] not in fa.reached:
                continue
            iv = fa.eval_at(root, n)
            lo, hi = iv
            if lo is not None and hi is not None and lo >= lo_ok and hi <= hi_ok:
                obs.append(Ob('R-RNG', fn.file, n['l'], fn.q, construct, DISCHARGED, '',
                              '`%s` is in %s, the %d-bit field holds [%d, %d]' % (rtxt, iv, wbits, lo_ok, hi_ok), True))
                continue
            bounded = lo is not None and hi is not None and (hi - lo) < (1 << 31)
            if bounded:
                ent = table.get((fn.file, fn.q, construct.split('#')[0]))
                det = ('`%s` is accepted in %s but only bits %#x are encoded (a %d-bit field, [%d, %d]): values outside the '
                       'field are wrapped instead of rejected' % (rtxt, iv, U, wbits, lo_ok, hi_ok))
                if ent:
                    obs.append(Ob('R-RNG', fn.file, n['l'], fn.q, construct, OBSERVATION, 'range %s wider than the field, accepted: %s' % (iv, ent)))
                else:
                    obs.append(Ob('R-RNG1', fn.file, n['l'], fn.q, construct, VIOLATED, det))
                continue
            # is there a test of the value with an error arm?  dominating: on every path; elsewhere: path-dependent
            if dom is None:
                dom = dominators(fn)
                dead = ps._error_dead(fn)
            rk = ps.value_keys(fn, root)
            checked = None
            anywhere = None
            via_call = None
            for c, bb in fn.blocks.items():
                cn = fn.nodes.get(bb.get('cond')) if 'cond' in bb else None
                if cn is None or not (ps.value_keys(fn, cn) & rk):
                    continue
                if any(s_ in dead for s_ in bb['s'] if s_ is not None):
                    if c in dom[w[0]]:
                        checked = cn
                        for x in walk(cn):
                            if x['k'] == 'CallExpr' and ps.callee(x) not in ps.EVAL and any(ps.value_keys(fn, a) & rk for a in call_args(x)):
                                via_call = x
                        break
                    anywhere = anywhere or cn
            if checked is None:
                # a call that receives the value and can fail (check_range-like helper whose result is tested)
                for c in dom[w[0]]:
                    bb = fn.blocks[c]
                    cn = fn.nodes.get(bb.get('cond')) if 'cond' in bb else None
                    if cn is None or not any(s_ in dead for s_ in bb['s'] if s_ is not None):
                        continue
                    for x in walk(cn):
                        if x['k'] == 'CallExpr' and ps.callee(x) not in ps.EVAL and any(ps.value_keys(fn, a) & rk for a in call_args(x)):
                            checked = cn
                            via_call = x
            if checked is None and anywhere is not None:
                # path-dependent: do the tests form a cut between the function entry and the mask?
                tests = set()
                for c, bb in fn.blocks.items():
                    cn_ = fn.nodes.get(bb.get('cond')) if 'cond' in bb else None
                    if cn_ is not None and (ps.value_keys(fn, cn_) & rk) and any(s_ in dead for s_ in bb['s'] if s_ is not None):
                        tests.add(c)
                    elif cn_ is not None and any(s_ in dead for s_ in bb['s'] if s_ is not None):
                        for x in walk(cn_):
                            if x['k'] == 'CallExpr' and ps.callee(x) not in ps.EVAL and any(ps.value_keys(fn, a) & rk for a in call_args(x)):
                                tests.add(c)
                if p2 is None:
                    p2 = ps.pass2_blocks(fn)
                seen_ = set()
                st_ = [fn.entry]
                while st_:
                    b_ = st_.pop()
                    if b_ in seen_ or b_ in tests or b_ not in p2:
                        continue
                    seen_.add(b_)
                    st_.extend(fn.succs(b_))
                if w[0] in seen_:
                    stats['uncut'] = stats.get('uncut', 0) + 1
                    uncut.append('%s:%d %s %s' % (fn.file, n['l'], fn.q, construct))
                    ent = table.get((fn.file, fn.q, construct.split('#')[0]))
                    if ent:
                        obs.append(Ob('R-RNG', fn.file, n['l'], fn.q, construct, OBSERVATION,
                                      'checked on some paths only; triaged as not truncating: %s' % ent))
                    else:
                        obs.append(Ob('R-RNG2', fn.file, n['l'], fn.q, construct, VIOLATED,
                                      '`%s` is masked to bits %#x, and a path from the start of %s reaches this mask without passing '
                                      'any test of the value that ends in an error (the existing range checks sit on other '
                                      'paths): on that path an operand that does not fit the %d-bit field is silently '
                                      'truncated' % (rtxt, U, fn.q, wbits)))
                    continue
            if checked is not None and via_call is not None:
                # the dominating test is a helper call that receives the record: the helper must check the value on every
                # path to its store into the field
                hv = _helper_store_checked(prog, via_call, ps.value_keys(fn, root))
                if hv is not None and hv[0] is False:
                    hf, st_, tst = hv[1], hv[2], hv[3]
                    if (hf.key, st_['i']) in reported:
                        continue
                    reported.add((hf.key, st_['i']))
                    obs.append(Ob('R-RNG2', hf.file, st_['l'], hf.q, 'store:%s' % show(kids(st_)[0])[:40], VIOLATED,
                                  '%s stores `%s` (line %d), which %s masks to bits %#x at line %d, but a path through %s reaches '
                                  'the store without passing %s: on that path a value that does not fit the %d-bit field is '
                                  'silently truncated' % (hf.q, show(st_)[:50], st_['l'], fn.q, U, n['l'], hf.q,
                                                          'its range test `%s`' % show(tst)[:40] if tst is not None else 'any range test', wbits)))
                    continue
            if checked is not None or anywhere is not None:
                cn = checked or anywhere
                obs.append(Ob('R-RNG', fn.file, n['l'], fn.q, construct, OBSERVATION,
                              'a test with an error arm (`%s`, line %d) %s the mask; its bound is not an interval the '
                              'analysis can compare with the field here; not decided' % (
                                  show(cn)[:50], cn['l'], 'dominates' if checked is not None else 'exists on some paths to')))
                continue
            ent = table.get((fn.file, fn.q, construct.split('#')[0]))
            if ent:
                obs.append(Ob('R-RNG', fn.file, n['l'], fn.q, construct, OBSERVATION, 'unchecked mask accepted: %s' % ent))
                continue
            obs.append(Ob('R-RNG2', fn.file, n['l'], fn.q, construct, VIOLATED,
                          '`%s` (range %s) is masked to bits %#x without any dominating test that rejects values outside the '
                          '%d-bit field: an operand that does not fit is silently truncated' % (rtxt, iv, U, wbits)))
    return obs, stats


def digit_acc(prog, files=None):
    """REG-BOUND: a decimal accumulation `v = v * 10 + digit` in a loop of an assembler (register numbers, element
    indexes) is bounded inside the loop: some test of v against a constant in the same loop leaves it.  A bound that
    is only tested after the loop sees the wrapped value: `$4294967297` parses as register 1."""
    from nk.cfg import natural_loops
    obs = []
    for fn in sorted(prog.fns.values(), key=lambda f: (f.file, f.line)):
        if not fn.blocks or not (fn.file.startswith('asm/') if files is None else fn.file in files):
            continue
        loops = None
        k = 0
        for n in sorted(fn.nodes.values(), key=lambda x: x['i']):
            if n['k'] != 'BinaryOperator' or n.get('op') != '=':
                continue
            l = strip(kids(n)[0], casts=True)
            if l['k'] != 'DeclRefExpr':
                continue
            r = strip(kids(n)[1], casts=True)
            if r['k'] != 'BinaryOperator' or r.get('op') != '+':
                continue
            m = strip(kids(r)[0], casts=True)
            if not (m['k'] == 'BinaryOperator' and m.get('op') == '*' and strip(kids(m)[0], casts=True).get('d') == l.get('d')
                    and const(kids(m)[1]) in (8, 10, 16)):
                continue
            tw = fn.type(l) or ''
            if tw in ('uint64_t', 'int64_t', 'unsigned long', 'long', 'unsigned long long', 'long long'):
                continue
            w = fn.where.get(n['i'])
            if w is None:
                continue
            if loops is None:
                loops = natural_loops(fn)
            inl = [body for h, body in loops.items() if w[0] in body]
            if not inl:
                continue
            body = min(inl, key=len)
            k += 1
            ok = False
            for b in body:
                bb = fn.blocks[b]
                cn = fn.nodes.get(bb.get('cond')) if 'cond' in bb else None
                if cn is None:
                    continue
                own = strip(cn)
                while own['k'] == 'BinaryOperator' and own.get('op') in ('&&', '||'):
                    own = strip(kids(own)[1])
                if own['k'] == 'BinaryOperator' and own.get('op') in ('>', '>=', '<', '<=') and \
                        strip(kids(own)[0], casts=True).get('d') == l.get('d') and \
                        (const(kids(own)[1]) is not None or strip(kids(own)[1], casts=True).get('dk') == 'param'):
                    ok = True
            # a counted loop of at most 9 decimal digits cannot wrap either
            obs.append(Ob('REG-BOUND', fn.file, n['l'], fn.q, 'acc:%s#%d' % (l.get('n'), k), DISCHARGED if ok else VIOLATED,
                          '' if ok else '`%s` accumulates decimal digits in a %s without a bound inside the loop: a number with more '
                          'than 9 digits wraps around and a later range test accepts it (e.g. register 4294967297 is taken for '
                          'register 1)' % (show(n)[:50], tw), 'bounded inside the loop'))
    return RuleResult('REG-BOUND', obs, 10, {})


def _helper_store_checked(prog, call, field_keys):
    """For a helper call that receives the record whose field is masked later: does every path from the helper's entry to
    each of its stores into that field pass a test (with an error arm) of the stored value?
    Returns None when the helper is not resolved or stores nothing into the field; else (ok, helper, store, a test)."""
    from nk.facts import ckey
    hf = prog.by_key.get(ckey(call))
    if hf is None or not hf.blocks:
        return None
    fkeys = {k for k in field_keys if k.startswith('F:')}
    if not fkeys:
        return None
    dead = ps._error_dead(hf)
    res = None
    for n in hf.nodes.values():
        if n['k'] != 'BinaryOperator' or n.get('op') != '=':
            continue
        if ps.key_of(hf, kids(n)[0]) not in fkeys or const(kids(n)[1]) is not None:
            continue
        w = hf.where.get(n['i'])
        if w is None or w[0] in dead:
            continue
        vk = ps.value_keys(hf, kids(n)[1])
        # follow plain local copies backwards one step: `value = operand->value`
        tests = set()
        a_test = None
        for c, bb in hf.blocks.items():
            cn = hf.nodes.get(bb.get('cond')) if 'cond' in bb else None
            if cn is None or not any(s_ in dead for s_ in bb['s'] if s_ is not None):
                continue
            own = strip(cn)
            while own['k'] == 'BinaryOperator' and own.get('op') in ('&&', '||'):
                own = strip(kids(own)[1])
            if ps.value_keys(hf, own) & vk:
                tests.add(c)
                a_test = a_test or own
        if not tests:
            continue        # the helper does not check this store at all: not the idiom this rule follows
        seen = set()
        st = [hf.entry]
        while st:
            b = st.pop()
            if b in seen or b in tests:
                continue
            seen.add(b)
            st.extend(hf.succs(b))
        ok = w[0] not in seen
        if not ok:
            return (False, hf, n, a_test)
        res = (True, hf, n, a_test)
    return res


def value_rewrite(prog):
    """VALUE-REWRITE: an assembler replaces an operand's evaluated value by a constant (`operand->value = -1` for the
    constant generators, canonical spellings) only under an exact equality test of that value.  A replacement guarded by a
    mask or range test of the same value (`(v & m) == m`) maps many values to one before the range check sees them:
    operands that do not fit are accepted and encode like the canonical one."""
    from nk.cfg import dominators
    obs = []
    n_sites = 0
    summ_all = ps.summaries(prog, {f.file for f in prog.fns.values() if f.file.startswith('asm/')})
    for fn in sorted(prog.fns.values(), key=lambda f: (f.file, f.line)):
        if not fn.file.startswith('asm/') or not fn.blocks:
            continue
        cd = None
        tags = None
        for n in sorted(fn.nodes.values(), key=lambda x: x['i']):
            if n['k'] != 'BinaryOperator' or n.get('op') != '=':
                continue
            l = strip(kids(n)[0])
            if l['k'] != 'MemberExpr' or l.get('n') != 'value' or const(kids(n)[1]) is None:
                continue
            w = fn.where.get(n['i'])
            if w is None:
                continue
            if cd is None:
                cd, succ = ps.control_deps(fn, set())
            base = show(kids(l)[0])
            guards = []
            for (pc, ps_) in cd.get(w[0], ()):
                cn = fn.nodes.get(fn.blocks[pc].get('cond')) if 'cond' in fn.blocks[pc] else None
                if cn is None or len(succ[pc]) != 2 or ps_ != succ[pc][0]:
                    continue
                own = strip(cn)
                while own['k'] == 'BinaryOperator' and own.get('op') in ('&&', '||'):
                    own = strip(kids(own)[1])
                if any(x['k'] == 'MemberExpr' and x.get('n') == 'value' and show(kids(x)[0]) == base for x in walk(own)):
                    guards.append(own)
            if not guards:
                continue
            # register / keyword operands (type tag never stored with an evaluated number) are not operand values
            if tags is None:
                files_ = {fn.file}
                fi_ = ps.FnInfo(prog, fn, summ_all)
                fi_.solve()
                tags = ps.tag_taint(fn, ps.FlowTaint(fn, fi_))
            tt = ps._tag_tests(fn, n, l)
            if tt and all(t in tags and not tags[t] for t in tt):
                continue
            n_sites += 1
            bad = None
            for g in guards:
                exact = g['k'] == 'BinaryOperator' and g.get('op') == '==' and \
                    strip(kids(g)[0], casts=True)['k'] == 'MemberExpr' and strip(kids(g)[0], casts=True).get('n') == 'value' and \
                    (const(kids(g)[1]) is not None or strip(kids(g)[1], casts=True)['k'] == 'MemberExpr')
                if not exact:
                    bad = g
            obs.append(Ob('VALUE-REWRITE', fn.file, n['l'], fn.q, 'rewrite:%s=%s' % (show(kids(n)[0])[:30], const(kids(n)[1])),
                          VIOLATED if bad is not None else DISCHARGED,
                          '`%s` replaces the operand value under `%s`, which is true for many values: all of them are accepted and '
                          'encoded as %s, whatever the range check that follows would have said' % (show(n)[:50], show(bad)[:50], const(kids(n)[1])) if bad is not None else '',
                          'replacement guarded by an exact comparison'))
    return RuleResult('VALUE-REWRITE', obs, 2, {'sites': n_sites})

"""REL-BASE (C01): for every operand type with an arm in both parse_instruction_X and disasm_X (same table), the base a
pc-relative displacement is measured from is the same on both sides.

Assembler arm: a top-most additive expression  S - address - K  (the coefficient of `asm_context->address` is -1 and some
other term has +1): the displacement counts from address + K.  Decoder arm: a top-most additive expression
address + K' + T  (coefficient of the `address` parameter +1 and some other non-constant term), outside the argument of a
Memory::read call: the printed target counts from address + K'.  Locals with one definition are unfolded.  The rule compares
the two sets of bases of one operand type; they must intersect."""
from nk.facts import kids, strip, const, callee, show, walk, call_args
from nk.report import Ob, RuleResult, DISCHARGED, VIOLATED, OBSERVATION
from nk.build import AnalysisBroken
from rules.caselen import _switches, _cases, _table
from rules.pagebase import _defs
from rules.extent import _stored
from nk.cfg import dominators


_ST = {}


def _stored_cached(fn):
    if fn.key not in _ST:
        _ST[fn.key] = _stored(fn)
    return _ST[fn.key]


def _norm(t):
    return t.replace(' ', '').replace('asm_context->address', '@A')


def _lin(fn, n, depth=0):
    """{symbol text: coef}, const — symbols are the normalised texts of the non-additive leaves."""
    n = strip(n, casts=True)
    if n is None or depth > 10:
        return None
    v = const(n)
    if v is not None:
        return ({}, v)
    k = n['k']
    if k == 'BinaryOperator' and n.get('op') in ('+', '-'):
        a = _lin(fn, kids(n)[0], depth + 1)
        b = _lin(fn, kids(n)[1], depth + 1)
        if a is None or b is None:
            return None
        s = 1 if n['op'] == '+' else -1
        m = dict(a[0])
        for kk, c in b[0].items():
            m[kk] = m.get(kk, 0) + s * c
        return ({kk: c for kk, c in m.items() if c}, a[1] + s * b[1])
    if k == 'UnaryOperator' and n.get('op') == '-':
        a = _lin(fn, kids(n)[0], depth + 1)
        if a is None:
            return None
        return ({kk: -c for kk, c in a[0].items()}, -a[1])
    if k == 'DeclRefExpr' and n.get('dk') in ('local', 'var') and n.get('d') is not None:
        ds = _defs(fn, n['d'])
        nst = [x for x in _stored_cached(fn).get(n['d'], []) if x['k'] != 'BinaryOperator' or x.get('op') != '=']
        if len(ds) == 1 and not nst and not any(x['k'] == 'DeclRefExpr' and x.get('d') == n['d'] for x in walk(ds[0])):
            u = _lin(fn, ds[0], depth + 1)
            if u is not None and any('@A' in s_ for s_ in u[0]):
                return u
    if k == 'DeclRefExpr' and n.get('dk') == 'param' and n.get('n') == 'address' and fn.file.startswith('disasm/'):
        return ({'@A': 1}, 0)
    return ({_norm(show(n)): 1}, 0)


def _top_additive(fn, ids):
    for i in ids:
        n = fn.nodes.get(i)
        if n is None or n['k'] != 'BinaryOperator' or n.get('op') not in ('+', '-'):
            continue
        p = fn.parent.get(i)
        while p is not None and p['k'] in ('ParenExpr', 'ImplicitCastExpr', 'CStyleCastExpr'):
            p = fn.parent.get(p['i'])
        if p is not None and p['k'] == 'BinaryOperator' and p.get('op') in ('+', '-'):
            continue
        yield n


def _in_read(fn, n):
    for a in fn.ancestors(n):
        if a['k'] in ('CallExpr', 'CXXMemberCallExpr') and (callee(a) or '').startswith('Memory::read'):
            return True
    return False


_EMITB = {}


def _after_emit(fn, n):
    """Can an emission (add_bin*, memory_write_inc: they advance asm_context->address) precede node n in its function?"""
    if fn.key not in _EMITB:
        eb = []
        for c in fn.calls():
            q = (callee(c) or '').split('(')[0].split('::')[-1]
            if q.startswith('add_bin') or q in ('memory_write_inc',):
                w = fn.where.get(c['i'])
                if w:
                    eb.append(w)
        _EMITB[fn.key] = eb
    w = fn.block_of(n)
    if w is None:
        return False
    for eb, ei in _EMITB[fn.key]:
        if eb == w[0]:
            if ei < w[1]:
                return True
            continue
        if w[0] in fn.reachable_blocks(start=eb):
            return True
    return False


def bases(fn, ids, side, shift=0):
    """{base constant: node}, undecided (True when some candidate has more than one other term: a running count)"""
    out = {}
    und = False
    for n in _top_additive(fn, ids):
        lf = _lin(fn, n)
        if lf is None:
            continue
        ca = lf[0].get('@A')
        others = [s_ for s_, c in lf[0].items() if s_ != '@A']
        if side == 'asm':
            if ca == -1 and any(lf[0][s_] == 1 for s_ in others):
                if len(others) == 1 and not _after_emit(fn, n):
                    out.setdefault(-lf[1], n)
                else:
                    und = True
        else:
            if ca == 1 and others and not _in_read(fn, n):
                if len(others) == 1:
                    out.setdefault(lf[1] + shift, n)
                else:
                    und = True
    return out, und


def _addr_shift(fn, entry_block, ids, dom):
    """Constant the `address` parameter has been advanced by when the arm is entered, or None when that is not one constant."""
    ap = [p for p in fn.params() if p.get('n') == 'address']
    if not ap:
        return 0
    st = _stored(fn).get(ap[0]['d'], [])
    total = 0
    for n in st:
        w = fn.where.get(n['i'])
        if w is None:
            return None
        if n['i'] in ids:
            return None
        if w[0] in dom.get(entry_block, ()) and w[0] != entry_block:
            c = const(kids(n)[1]) if n['k'] == 'CompoundAssignOperator' and n.get('op') == '+=' else None
            if c is None:
                return None
            total += c
        elif entry_block in fn.reachable_blocks(start=w[0]):
            return None
    return total


def rel_base(prog, floor=20):
    obs = []
    for afn in sorted(prog.fns.values(), key=lambda f: f.file):
        if not afn.file.startswith('asm/') or not afn.name.startswith('parse_instruction_'):
            continue
        cpu = afn.name[len('parse_instruction_'):]
        dfn = None
        for f in prog.fns.values():
            if f.file == 'disasm/%s' % afn.file.split('/')[1] and f.name == 'disasm_' + cpu:
                dfn = f
        if dfn is None:
            continue
        A, D = {}, {}
        U = set()
        ddom = dominators(dfn)
        for fn, S, side in ((afn, A, 'asm'), (dfn, D, 'dis')):
            for sw, txt in _switches(fn):
                for name, (ids, cns) in _cases(fn, sw).items():
                    shift = 0
                    if side == 'dis':
                        eb = [b for b, bb in fn.blocks.items() if bb.get('label') == cns[0]['i']]
                        shift = _addr_shift(fn, eb[0], ids, ddom) if eb else None
                    b, und = bases(fn, ids, side, shift or 0)
                    if (b or und) and (shift is None or und):
                        U.add((_table(txt), name))
                    if b:
                        S.setdefault((_table(txt), name), {}).update(b)
        for key in sorted(set(A) & set(D)):
            ka, kd = A[key], D[key]
            n0 = list(ka.values())[0]
            if key in U:
                obs.append(Ob('REL-BASE', afn.file, n0['l'], afn.q, '%s:%s' % key, OBSERVATION,
                              'a base on one side depends on a running position (count / advanced address): not decided'))
                continue
            ok = bool(set(ka) & set(kd))
            obs.append(Ob('REL-BASE', afn.file, n0['l'], afn.q, '%s:%s' % key, DISCHARGED if ok else VIOLATED,
                          '' if ok else 'operand type %s of %s: the assembler measures the displacement from address%+d (`%s`) but the '
                          'decoder (%s:%d) prints the target from address%+d (`%s`)' % (
                              key[1], key[0], sorted(ka)[0], show(n0)[:70], dfn.file, list(kd.values())[0]['l'], sorted(kd)[0],
                              show(list(kd.values())[0])[:70]),
                          'bases asm %s, decoder %s' % (sorted(ka), sorted(kd)), True))
    # file-level clause for the CPUs whose operand types are not dispatched by a switch on both sides (if-chains, helper
    # functions per operand kind): every base the assembler file measures a displacement from is a base the decoder file adds
    # a displacement to.  Weaker than the per-type clause (two kinds with different bases can be confused), still a necessary
    # condition.
    done_files = {o.file for o in obs}
    afiles = sorted({f.file for f in prog.fns.values() if f.file.startswith('asm/')})
    for af in afiles:
        if af in done_files:
            continue
        df = 'disasm/' + af.split('/')[1]
        ka, kd = {}, {}
        und = False
        for f in prog.fns.values():
            if f.file == af:
                b, u = bases(f, list(f.nodes), 'asm')
                if not f.name.startswith('parse_instruction_'):
                    # a helper: its caller may already have emitted the opcode (java parse_offset), the base is relative
                    # to an unknown position
                    und = und or bool(b) or u
                    continue
                ka.update(b)
            elif f.file == df and f.blocks:
                ap = [p for p in f.params() if p.get('n') == 'address']
                if ap and _stored_cached(f).get(ap[0]['d']):
                    und = True          # advanced address parameter: bases are relative to an unknown position
                    continue
                b, u = bases(f, list(f.nodes), 'dis')
                und = und or u
                kd.update(b)
        if not ka or not kd:
            continue
        n0 = list(ka.values())[0]
        missing = sorted(set(ka) - set(kd))
        if und:
            obs.append(Ob('REL-BASE', af, n0['l'], '*', 'file:%s' % af, OBSERVATION,
                          'assembler bases %s, decoder bases %s plus forms with a running position: not decided' % (sorted(ka), sorted(kd))))
        elif missing:
            nm = ka[missing[0]]
            obs.append(Ob('REL-BASE', af, nm['l'], '*', 'file:%s' % af, VIOLATED,
                          'the assembler measures a displacement from address%+d (`%s`, line %d) but no expression of %s adds a '
                          'displacement to address%+d (decoder bases: %s)' % (missing[0], show(nm)[:60], nm['l'], df, missing[0], sorted(kd))))
        else:
            obs.append(Ob('REL-BASE', af, n0['l'], '*', 'file:%s' % af, DISCHARGED, '',
                          'file-level: assembler bases %s are all decoder bases %s' % (sorted(ka), sorted(kd)), True))
    if len([o for o in obs if o.status != OBSERVATION]) < floor:
        raise AnalysisBroken('REL-BASE: only %d operand types with a pc-relative base on both sides' % len(obs))
    return RuleResult('REL-BASE', obs, floor, {})

"""C19 rules: UTIL-UNIT (address scaling in naken_util commands), ADVANCE (writeN/printN step), UTIL-HEX (digit steps)."""
from nk.facts import kids, strip, const, callee, call_args, show, walk
from nk.report import Ob, RuleResult, DISCHARGED, VIOLATED, OBSERVATION
from nk.build import AnalysisBroken
from rules.expr import _eval_c


def util_unit(prog):
    obs = []
    ga = prog.fn('UtilContext::get_address')
    muls = [n for n in ga.nodes.values() if (n['k'] == 'CompoundAssignOperator' and n.get('op') == '*=' and 'bytes_per_address' in show(kids(n)[1]))
            or (n['k'] == 'BinaryOperator' and n.get('op') == '*' and 'bytes_per_address' in show(n))]
    ok = len(muls) == 1
    obs.append(Ob('UTIL-UNIT', ga.file, ga.line, ga.q, 'address-to-bytes', DISCHARGED if ok else VIOLATED,
                  '' if ok else 'get_address multiplies a numeric address by bytes_per_address %d times (must be exactly once)' % len(muls),
                  'numeric address * bytes_per_address once', False))
    for q in ('print8', 'print16', 'print32', 'write8', 'write16', 'write32'):
        fn = prog.fn('UtilContext::' + q)
        labels = []
        for c in fn.calls():
            if callee(c) == 'printf':
                for a in call_args(c)[1:]:
                    t = show(a)
                    if 'bytes_per_address' in t:
                        labels.append(a)
        bad = [a for a in labels if not (strip(a, casts=True)['k'] == 'BinaryOperator' and strip(a, casts=True).get('op') == '/')]
        ok = bool(labels) and not bad
        obs.append(Ob('UTIL-UNIT', fn.file, fn.line, fn.q, 'label-in-units', DISCHARGED if ok else VIOLATED,
                      '' if ok else 'the address printed by %s is not the byte address divided by bytes_per_address' % q,
                      'printed address = byte address / bytes_per_address', False))
    return RuleResult('UTIL-UNIT', obs, 7, {})


def advance(prog):
    """ADVANCE: writeN stores with Memory::writeN and steps N/8 bytes; printN reads with Memory::readN and steps N/8."""
    obs = []
    for q, acc, step in (('write8', 'Memory::write8', 1), ('write16', 'Memory::write16', 2), ('write32', 'Memory::write32', 4),
                         ('print8', 'Memory::read8', 1), ('print16', 'Memory::read16', 2), ('print32', 'Memory::read32', 4)):
        fn = prog.fn('UtilContext::' + q)
        calls = [c for c in fn.calls() if callee(c) == acc]
        if not calls:
            obs.append(Ob('ADVANCE', fn.file, fn.line, fn.q, 'accessor', VIOLATED, '%s does not use %s' % (q, acc)))
            continue
        av = strip(call_args(calls[0])[0], casts=True)
        st = None
        if av['k'] == 'UnaryOperator' and av.get('op') == '++' and av.get('post'):
            av = strip(kids(av)[0], casts=True)
            st = 1
        for n in fn.nodes.values():
            if n['k'] == 'CompoundAssignOperator' and n.get('op') == '+=' and strip(kids(n)[0]).get('d') == av.get('d'):
                st = const(kids(n)[1])
            if n['k'] == 'UnaryOperator' and n.get('op') == '++' and strip(kids(n)[0]).get('d') == av.get('d'):
                st = 1
            if n['k'] == 'BinaryOperator' and n.get('op') == '=' and strip(kids(n)[0]).get('d') == av.get('d'):
                r = strip(kids(n)[1], casts=True)
                if r['k'] == 'BinaryOperator' and r.get('op') == '+' and strip(kids(r)[0], casts=True).get('d') == av.get('d'):
                    st = const(kids(r)[1])
        ok = st == step
        obs.append(Ob('ADVANCE', fn.file, calls[0]['l'], fn.q, 'step', DISCHARGED if ok else VIOLATED,
                      '' if ok else '%s accesses %d byte(s) per item with %s but advances the address by %s' % (q, step, acc, st),
                      'accessor %s, step %d' % (acc, step)))
    return RuleResult('ADVANCE', obs, 6, {})


def util_hex(prog):
    """UTIL-HEX: UtilContext::get_hex computes n*16 + digit for exactly the characters each branch admits."""
    fn = prog.fn('UtilContext::get_hex')
    obs = []

    def digit(ch):
        if '0' <= ch <= '9':
            return ord(ch) - 48
        if 'a' <= ch <= 'f':
            return ord(ch) - 87
        if 'A' <= ch <= 'F':
            return ord(ch) - 55
        return None
    nb = 0
    for n in fn.nodes.values():
        if n['k'] != 'IfStmt':
            continue
        ks = [k for k in kids(n) if k is not None]
        cs = strip(ks[0])
        if cs['k'] != 'BinaryOperator' or cs.get('op') != '&&':
            continue
        a, b = strip(kids(cs)[0]), strip(kids(cs)[1])
        if a.get('op') != '>=' or b.get('op') != '<=':
            continue
        leaf = show(kids(a)[0])
        lo, hi = const(kids(a)[1]), const(kids(b)[1])
        asg = [x for x in walk(ks[1]) if x['k'] == 'BinaryOperator' and x.get('op') == '=' and strip(kids(x)[0]).get('n') == 'n']
        if len(asg) != 1 or lo is None or hi is None:
            continue
        nb += 1
        bad = None
        for c in range(lo, hi + 1):
            for n0 in (0, 1, 0x1234567):
                v = _eval_c(kids(asg[0])[1], {leaf: c, 'n': n0})
                d = digit(chr(c))
                if v is None:
                    raise AnalysisBroken('UTIL-HEX: step not evaluable')
                if d is None or v != n0 * 16 + d:
                    bad = (chr(c), n0, v)
        obs.append(Ob('UTIL-HEX', fn.file, n['l'], fn.q, 'digits:%s-%s' % (chr(lo), chr(hi)), VIOLATED if bad else DISCHARGED,
                      'character %r with accumulator %#x gives %#x' % bad if bad else '', 'n*16 + digit for %r..%r' % (chr(lo), chr(hi))))
    if nb < 3:
        raise AnalysisBroken('UTIL-HEX: only %d digit branches recognised' % nb)
    return RuleResult('UTIL-HEX', obs, 3, {})

.propeller2
.org 0x1000
  ; each pair assembles to the same two longs (augs + rdbyte)
  rdbyte 0x90, ptrb++[##0x112345]   ; get_p      n&0xfffff#1
  rdbyte 0x90, ptrb++[##0x12345]
  rdbyte 0x90, ptrb--[##0x112345]   ; get_p      n&0xfffff#2
  rdbyte 0x90, ptrb--[##0x12345]
  rdbyte 0x90, ptrb[##0x1012345]    ; get_p      n&0xffffff#1
  rdbyte 0x90, ptrb[##0x12345]
  rdbyte 0x90, ++ptrb[##0x112345]   ; get_inc_dec_p n&0xfffff#1
  rdbyte 0x90, ++ptrb[##0x12345]
  rdbyte 0x90, --ptrb[##0x112345]   ; get_inc_dec_p n&0xfffff#2
  rdbyte 0x90, --ptrb[##0x12345]
  ; index bits 20..23 land on the S/U/P mode bits: ptrb[..] becomes ptrb++[..]
  rdbyte 0x90, ptrb[##0x12345+0x300000]
  rdbyte 0x90, ptrb++[##0x12345]
  ; and a legal negative index sets all of them: ptra[##-1] == ptrb++[##0xfffff]
  rdbyte 0x90, ptra[##-1]
  rdbyte 0x90, ptrb++[##0xfffff]

"""T-ORACLE(1802): the RCA CDP1802 instruction set (MPM-201 user manual, instruction summary) against table_1802[]:
a table row whose mnemonic is one of the documented ones must carry that mnemonic's opcode and fixed-bit mask.
Rows with other mnemonics (assembler aliases, 1804/1805 extensions) are observations."""
from nk import tables
from nk.facts import const
from nk.report import Ob, RuleResult, DISCHARGED, VIOLATED, OBSERVATION
from nk.build import AnalysisBroken

ISA = {'idl': (0x00, 0xff), 'ldn': (0x00, 0xf0), 'inc': (0x10, 0xf0), 'dec': (0x20, 0xf0), 'lda': (0x40, 0xf0), 'str': (0x50, 0xf0),
       'irx': (0x60, 0xff), 'out': (0x60, 0xf8), 'inp': (0x68, 0xf8),
       'ret': (0x70, 0xff), 'dis': (0x71, 0xff), 'ldxa': (0x72, 0xff), 'stxd': (0x73, 0xff), 'adc': (0x74, 0xff), 'sdb': (0x75, 0xff),
       'shrc': (0x76, 0xff), 'smb': (0x77, 0xff), 'sav': (0x78, 0xff), 'mark': (0x79, 0xff), 'req': (0x7a, 0xff), 'seq': (0x7b, 0xff),
       'adci': (0x7c, 0xff), 'sdbi': (0x7d, 0xff), 'shlc': (0x7e, 0xff), 'smbi': (0x7f, 0xff),
       'glo': (0x80, 0xf0), 'ghi': (0x90, 0xf0), 'plo': (0xa0, 0xf0), 'phi': (0xb0, 0xf0), 'sep': (0xd0, 0xf0), 'sex': (0xe0, 0xf0),
       'ldx': (0xf0, 0xff), 'or': (0xf1, 0xff), 'and': (0xf2, 0xff), 'xor': (0xf3, 0xff), 'add': (0xf4, 0xff), 'sd': (0xf5, 0xff),
       'shr': (0xf6, 0xff), 'sm': (0xf7, 0xff), 'ldi': (0xf8, 0xff), 'ori': (0xf9, 0xff), 'ani': (0xfa, 0xff), 'xri': (0xfb, 0xff),
       'adi': (0xfc, 0xff), 'sdi': (0xfd, 0xff), 'shl': (0xfe, 0xff), 'smi': (0xff, 0xff),
       'br': (0x30, 0xff), 'bq': (0x31, 0xff), 'bz': (0x32, 0xff), 'bdf': (0x33, 0xff), 'b1': (0x34, 0xff), 'b2': (0x35, 0xff),
       'b3': (0x36, 0xff), 'b4': (0x37, 0xff), 'skp': (0x38, 0xff), 'nbr': (0x38, 0xff), 'bnq': (0x39, 0xff), 'bnz': (0x3a, 0xff),
       'bnf': (0x3b, 0xff), 'bn1': (0x3c, 0xff), 'bn2': (0x3d, 0xff), 'bn3': (0x3e, 0xff), 'bn4': (0x3f, 0xff),
       'bpz': (0x33, 0xff), 'bge': (0x33, 0xff), 'bm': (0x3b, 0xff), 'bl': (0x3b, 0xff),
       'lbr': (0xc0, 0xff), 'lbq': (0xc1, 0xff), 'lbz': (0xc2, 0xff), 'lbdf': (0xc3, 0xff), 'nop': (0xc4, 0xff), 'lsnq': (0xc5, 0xff),
       'lsnz': (0xc6, 0xff), 'lsnf': (0xc7, 0xff), 'lskp': (0xc8, 0xff), 'nlbr': (0xc8, 0xff), 'lbnq': (0xc9, 0xff), 'lbnz': (0xca, 0xff),
       'lbnf': (0xcb, 0xff), 'lsie': (0xcc, 0xff), 'lsq': (0xcd, 0xff), 'lsz': (0xce, 0xff), 'lsdf': (0xcf, 0xff)}


def oracle(prog):
    rows, fields, g = tables.rows(prog, 'table_1802')
    obs = []
    for r in rows:
        nm = tables.strval(r.get('instr')) if r else None
        if not nm:
            continue
        opc, mask = const(r['opcode']), const(r['mask'])
        if nm not in ISA:
            obs.append(Ob('T-ORACLE', g['file'], r['instr']['l'], 'table_1802', 'instr:%s' % nm, OBSERVATION,
                          'mnemonic not in the transcribed instruction summary (alias / extension); not decided'))
            continue
        w_opc, w_mask = ISA[nm]
        # `out`/`inp` are coded with a 3-bit port: accept the documented mask or an equivalent per-port listing
        ok = (opc & w_mask) == w_opc and (mask & w_mask) == w_mask
        obs.append(Ob('T-ORACLE', g['file'], r['instr']['l'], 'table_1802', 'instr:%s@%02x' % (nm, opc), DISCHARGED if ok else VIOLATED,
                      '' if ok else '%s is opcode $%02X (fixed bits $%02X) in the CDP1802 instruction set, the table row has $%02X / $%02X' % (
                          nm, w_opc, w_mask, opc, mask), 'opcode $%02X mask $%02X' % (w_opc, w_mask)))
    return RuleResult('T-ORACLE(1802)', obs, 60, {})

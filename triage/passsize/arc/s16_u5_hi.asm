.arc
start:
  asl_s r0, r0, fwd
after:
  nop_s
.set fwd=40

.6502
.org 0x1000
l1:
  bbr0 0x10, l1
l2:
  bbr0 0x110, l2
l3:
  bbr0 0xff10, l3

.tms340
.org 0x1000
start:
  movi fwd, a0      ; pass 1: fwd unknown -> long form (6 bytes); pass 2: 0x1008 fits 16 bits -> short form (4 bytes)
after:
  nop
fwd:
  nop

.tms340
.org 0x1000
start:
  jruc fwd          ; pass 1: fwd unknown -> long form (4 bytes); pass 2: memo was overwritten -> short form (2 bytes)
after:
  nop
  nop
fwd:
  nop

#!/usr/bin/env python3
"""Helper to author self-test mutations: mk(name, props, expect, [(file, old, new)], silent=False)."""
import difflib
import os
HERE = os.path.dirname(os.path.abspath(__file__))


def mk(name, props, expect, edits, silent=False, note=''):
    out = ['#property: %s' % ' '.join(props)]
    for e in ([expect] if isinstance(expect, str) else expect):
        if e:
            out.append('#expect: %s' % e)
    if silent:
        out.append('#silent')
    if note:
        out.append('#note: %s' % note)
    byfile = {}
    for f, old, new in edits:
        src = byfile.get(f)
        if src is None:
            src = open(os.path.join('/repo', f), encoding='latin-1').read()
        if src.count(old) != 1:
            raise SystemExit('%s: pattern occurs %d times in %s: %r' % (name, src.count(old), f, old[:60]))
        byfile[f] = src.replace(old, new)
    for f, new in byfile.items():
        old = open(os.path.join('/repo', f), encoding='latin-1').read()
        d = difflib.unified_diff(old.splitlines(True), new.splitlines(True), 'a/' + f, 'b/' + f)
        out.append(''.join(d).rstrip('\n'))
    with open(os.path.join(HERE, name + '.patch'), 'w', encoding='latin-1') as fh:
        fh.write('\n'.join(out) + '\n')
    print('wrote', name)

"""FIELD-OVERLAP (C01/C06): the operand fields OR-ed into one emitted word do not overlap.

For every emission `add_bin8/16/32(asm_context, T1 | T2 | ... , ...)` in asm/*.cpp (locals that hold the word are followed
through `opcode = ...; opcode |= ...`), each OR-ed term gets a *may-be-one* bit mask: constants exactly, `x & M` at most M,
`x << s` shifted, `x >> s` shifted, `a | b` united, and a leaf value the mask of all bits up to the highest bit its interval
(interval analysis at the emission, pass 2) can reach; a leaf that may be negative or is unbounded has all bits.  Two
operand-derived terms whose masks intersect mean that some accepted operand value of one field changes the bits of the
other: two different operand tuples assemble to the same word, or a register number leaks into the immediate
(avr8 `adiw`: `pair << 4` with pair in 0..6 reaches bit 6 of the K field).  Terms that are not bounded are not decided
(that is R-RNG's business)."""
from nk.facts import kids, strip, const, callee, call_args, show, walk
from nk.report import Ob, RuleResult, DISCHARGED, VIOLATED, OBSERVATION
from nk.build import AnalysisBroken
from nk.interval import Analyzer

EMITW = {'add_bin8': 8, 'add_bin16': 16, 'add_bin32': 32}
ALL = None


def _bits_of_interval(iv, width):
    if iv is None or iv[0] is None or iv[1] is None or iv[0] < 0:
        return ALL
    hi = iv[1]
    if hi >= (1 << width):
        return ALL
    return (1 << hi.bit_length()) - 1


INEXACT = set()


def _maybits(fa, n, at, width, depth=0):
    """may-be-one mask of expression n (None = unknown/all).  Node ids of terms whose mask comes from the interval of a
    *variable built elsewhere* (its bit shape is unknown: [0, 0x60] may be 0x20|0x40 only) are added to INEXACT."""
    n = strip(n, casts=True)
    v = const(n)
    if v is not None:
        return v & ((1 << width) - 1) if v >= 0 else ALL
    k = n['k']
    if k == 'BinaryOperator':
        op = n.get('op')
        a, b = kids(n)
        if op == '|' or op == '^' or op == '+':
            ma, mb = _maybits(fa, a, at, width, depth + 1), _maybits(fa, b, at, width, depth + 1)
            if ma is ALL or mb is ALL:
                return ALL
            if op == '+' and (ma & mb):
                return ALL
            return ma | mb
        if op == '&':
            ma, mb = _maybits(fa, a, at, width, depth + 1), _maybits(fa, b, at, width, depth + 1)
            if ma is ALL and mb is ALL:
                return ALL
            if ma is ALL:
                return mb
            if mb is ALL:
                return ma
            return ma & mb
        if op == '<<':
            s = const(b)
            ma = _maybits(fa, a, at, width, depth + 1)
            if s is None or ma is ALL:
                return ALL
            return (ma << s) & ((1 << width) - 1)
        if op == '>>':
            s = const(b)
            ma = _maybits(fa, a, at, width, depth + 1)
            if s is None or ma is ALL:
                iv = fa.eval_at(n, at)
                return _bits_of_interval(iv, width)
            return ma >> s
    if k == 'ConditionalOperator':
        ma, mb = _maybits(fa, kids(n)[1], at, width, depth + 1), _maybits(fa, kids(n)[2], at, width, depth + 1)
        if ma is ALL or mb is ALL:
            return ALL
        return ma | mb
    if k == 'DeclRefExpr' and depth < 6:
        # a local: follow the assignment that reaches this point inside the same basic block (exact bit shape of the
        # value just built: `rd = ((reg - 24) >> 1) << 4;`)
        fn = fa.fn
        w = fn.where.get(at['i'])
        if w is not None:
            bb = fn.blocks[w[0]]
            for e in reversed(bb['e'][:w[1]]):
                x = fn.nodes.get(e)
                if x is None:
                    continue
                if x['k'] == 'BinaryOperator' and x.get('op') == '=':
                    t_ = strip(kids(x)[0])
                    if t_['k'] == 'DeclRefExpr' and t_.get('d') == n.get('d'):
                        return _maybits(fa, kids(x)[1], x, width, depth + 1)
                if x['k'] == 'DeclStmt':
                    for d_, i_ in zip([y for y in x.get('decls', ()) if y.get('init')], kids(x)):
                        if d_['d'] == n.get('d'):
                            return _maybits(fa, i_, x, width, depth + 1)
                if x['k'] in ('CompoundAssignOperator', 'UnaryOperator') and strip(kids(x)[0]).get('d') == n.get('d') and \
                        (x['k'] == 'CompoundAssignOperator' or x.get('op') in ('++', '--')):
                    break
    iv = fa.eval_at(n, at)
    if k == 'DeclRefExpr' and n.get('dk') == 'local' and not _plain_local(fa.fn, n.get('d')):
        INEXACT.add(id(fa))
        fa.__dict__.setdefault('_inexact_marks', set()).add(at['i'])
    m = _bits_of_interval(iv, width)
    # a value that can fill (nearly) the whole word is not a field
    if m is not ALL and m >= (1 << (width - 1)) - 1:
        return ALL
    return m


_PLAIN = {}


def _plain_local(fn, d):
    """A local whose every definition is a constant or +/- arithmetic over operand atoms: every integer of its interval is
    a possible value, so the interval's bit mask is exact (unlike a word assembled elsewhere with shifts and ors)."""
    key = (fn.key, d)
    if key in _PLAIN:
        return _PLAIN[key]
    ok = True
    ndef = 0
    for n in fn.nodes.values():
        rhs = None
        if n['k'] == 'BinaryOperator' and n.get('op') == '=':
            t_ = strip(kids(n)[0])
            if t_['k'] == 'DeclRefExpr' and t_.get('d') == d:
                rhs = kids(n)[1]
        elif n['k'] == 'CompoundAssignOperator' and strip(kids(n)[0]).get('d') == d:
            ok = ok and n.get('op') in ('+=', '-=')
            ndef += 1
        elif n['k'] == 'UnaryOperator' and n.get('op') in ('++', '--', '&') and strip(kids(n)[0]).get('d') == d:
            ok = ok and n.get('op') != '&'
            ndef += 1
        elif n['k'] == 'DeclStmt':
            for d_, i_ in zip([y for y in n.get('decls', ()) if y.get('init')], kids(n)):
                if d_['d'] == d:
                    rhs = i_
        if rhs is not None:
            ndef += 1
            for x in walk(rhs):
                if x['k'] in ('CallExpr', 'CXXMemberCallExpr') or \
                        (x['k'] == 'BinaryOperator' and x.get('op') in ('<<', '|', '&', '^', '*', '>>')):
                    ok = False
    _PLAIN[key] = ok and ndef > 0
    return _PLAIN[key]


def _terms(n):
    n = strip(n, casts=True)
    if n['k'] == 'BinaryOperator' and n.get('op') == '|':
        return _terms(kids(n)[0]) + _terms(kids(n)[1])
    return [n]


def field_overlap(prog, floor=400):
    an = Analyzer(prog)
    an.field_override = {('AsmContext', 'pass'): (2, 2)}
    obs = []
    nemit = 0
    for fn in sorted(prog.fns.values(), key=lambda f: (f.file, f.line)):
        if not fn.blocks or not fn.file.startswith('asm/'):
            continue
        fa = None
        k = 0
        for c in sorted(fn.calls(), key=lambda x: x['i']):
            w = EMITW.get((callee(c) or '').split('(')[0])
            if not w or len(call_args(c)) < 2:
                continue
            if fn.where.get(c['i']) is None:
                continue
            word = call_args(c)[1]
            terms = _terms(word)
            if len(terms) < 2:
                continue
            if fa is None:
                fa = an._fa_cache(fn)
            if fn.where[c['i']][0] not in fa.reached:
                continue
            nemit += 1
            k += 1
            ms = []
            for t in terms:
                if const(t) is not None:
                    continue
                # table opcode / constant-like terms are not operand fields
                txt = show(strip(t, casts=True))
                # the opcode base (table column, or a local holding it) is not an operand field
                if any((x['k'] == 'MemberExpr' and x.get('n') == 'opcode') or
                       (x['k'] == 'DeclRefExpr' and 'opcode' in (x.get('n') or '').lower()) for x in walk(t)):
                    continue
                marks = fa.__dict__.setdefault('_inexact_marks', set())
                marks.discard(c['i'])
                before = set(marks)
                m_ = _maybits(fa, t, c, w)
                inexact = bool(marks - before) or c['i'] in marks
                marks.discard(c['i'])
                ms.append((t, m_, txt, inexact))
            bad = None
            for i in range(len(ms)):
                for j in range(i + 1, len(ms)):
                    (t1, m1, x1, e1), (t2, m2, x2, e2) = ms[i], ms[j]
                    if m1 is ALL or m2 is ALL or e1 or e2:
                        continue
                    if m1 & m2:
                        bad = (x1, m1, x2, m2)
            construct = 'emit#%d' % k
            if bad:
                x1, m1, x2, m2 = bad
                obs.append(Ob('FIELD-OVERLAP', fn.file, c['l'], fn.q, construct, VIOLATED,
                              'in `%s` the field `%s` can set bits %#x and the field `%s` bits %#x: they share bits %#x, so an '
                              'accepted value of one operand changes the other operand\'s field (two different instructions assemble '
                              'to the same word)' % (show(c)[:70], x1[:40], m1, x2[:40], m2, m1 & m2)))
            elif any(m is not ALL for _, m, _, _ in ms):
                obs.append(Ob('FIELD-OVERLAP', fn.file, c['l'], fn.q, construct, DISCHARGED, '',
                              'bounded fields %s are pairwise disjoint' % ', '.join('%#x' % m for _, m, _, _ in ms if m is not ALL), True))
    if nemit < floor:
        raise AnalysisBroken('FIELD-OVERLAP: only %d multi-term emissions in asm/' % nemit)
    return RuleResult('FIELD-OVERLAP', obs, floor // 2, {'emissions': nemit})

"""FIELD-SHIFT (C01): for one-word instruction sets, every operand field the assembler inserts at bit position s in an
operand-type arm is a field the decoder arm of the same type reads at bit position s.

Scope: CPUs whose encoder emits through one unit only (add_bin16 or add_bin32 everywhere), so the word the assembler
builds (`opcode | x << s ...`) is the word the decoder reads.  Per (table, operand type) with an arm on both sides:
  A = { s > 0 : the arm contains `e << s`, e not a constant, on a path that is possible for this type (tests
        `table[n].type ==/!= ENUM` inside a shared arm are resolved for the label) }
  D = bit positions the decoder arm looks at: `x >> s` (nested shifts add up), the low bit of every run of a constant
      mask applied with `&`, `1 << k`; locals used in the arm contribute through their definitions (fields extracted
      before the switch).
A position in A that is not in D is a field the assembler encodes and the decoder never reads for this type: the
operand is printed from another field or not at all.
"""
from nk.facts import kids, strip, const, callee, show, walk
from nk.report import Ob, RuleResult, DISCHARGED, VIOLATED, OBSERVATION
from nk.build import AnalysisBroken
from nk import tables
from rules import caselen
from rules.pagebase import _defs

EMITW = {'add_bin8': 1, 'add_bin16': 2, 'add_bin32': 4, 'add_bin64': 8, 'add_bin': 0}


def _units(prog, cg, P):
    units = set()
    for q in cg.reachable([P]):
        fn = prog.by_key.get(q)
        if fn is None or not fn.file.startswith('asm/'):
            continue
        for c in fn.calls():
            nm = (callee(c) or '').split('(')[0]
            if nm in EMITW:
                units.add(EMITW[nm])
            if nm == 'AsmContext::memory_write_inc':
                units.add(1)
    return units


def _label_blocks(fn, ids, col, labelvals, rows=None, table=None, body_ids=None):
    """Blocks of the arm reachable when tests `table[n].<col> ==/!= K` are resolved for a label value, and tests that
    read only columns of the table row are evaluated over the rows of that type (an edge no row takes is dropped)."""
    blocks = caselen._arm_blocks(fn, ids)
    ents0 = caselen._entries(fn, blocks)
    if body_ids is not None:
        # statements of later arms reached by falling through belong to this label's path as well
        blocks = caselen._arm_blocks(fn, body_ids)
        blocks |= {b_ for b_, bb_ in fn.blocks.items() if not bb_['e'] and 'cond' not in bb_ and bb_.get('label') is not None}
    envs = None
    if rows is not None:
        envs = []
        for r in rows:
            if r and const(r.get(col)) in labelvals:
                e = {'table': table}
                for f, v in r.items():
                    e[('col', f)] = const(v)
                envs.append(e)
    ents = ents0
    seen = set()
    st = list(ents)
    while st:
        b = st.pop()
        if b in seen or b not in blocks:
            continue
        seen.add(b)
        bb = fn.blocks[b]
        succ = bb['s']
        cn = fn.nodes.get(bb.get('cond')) if 'cond' in bb else None
        take = list(range(len(succ)))
        if cn is not None and len(succ) == 2:
            own = strip(cn)
            while own['k'] == 'BinaryOperator' and own.get('op') in ('&&', '||'):
                own = strip(kids(own)[1])
            if own['k'] == 'BinaryOperator' and own.get('op') in ('==', '!='):
                l, r = kids(own)
                for a, b2 in ((l, r), (r, l)):
                    v = const(b2)
                    a_ = strip(a, casts=True)
                    if a_['k'] == 'DeclRefExpr' and a_.get('d') is not None:
                        ds = _defs(fn, a_['d'])
                        if len(ds) == 1:
                            a_ = strip(ds[0], casts=True)
                    if v is not None and show(a_).endswith('.' + col) and 'table_' in show(a_):
                        # true for some / all labels?
                        res = {(lv == v) if own['op'] == '==' else (lv != v) for lv in labelvals}
                        if res == {True}:
                            take = [0]
                        elif res == {False}:
                            take = [1]
            if len(take) == 2 and envs:
                vals = {caselen._ev(own, e) for e in envs}
                if None not in vals:
                    truth = {bool(v) for v in vals}
                    if truth == {True}:
                        take = [0]
                    elif truth == {False}:
                        take = [1]
        for i in take:
            if succ[i] is not None:
                st.append(succ[i])
    return seen


def _nodes_of_blocks(fn, blocks, ids):
    out = set()
    for b in blocks:
        bb = fn.blocks[b]
        for e in list(bb['e']) + ([bb['cond']] if 'cond' in bb else []):
            n = fn.nodes.get(e)
            if n is not None and e in ids:
                for x in walk(n):
                    out.add(x['i'])
    return out


def _asm_shifts(fn, nodeids):
    out = {}
    for i in nodeids:
        n = fn.nodes.get(i)
        if n is None or n['k'] != 'BinaryOperator' or n.get('op') != '<<':
            continue
        s = const(kids(n)[1])
        if s is None or s <= 0:
            continue
        l = strip(kids(n)[0], casts=True)
        if const(l) is not None:
            continue
        out.setdefault(s, show(l)[:40])
    return out


def _runs(m):
    out = set()
    i = 0
    while m >> i:
        if (m >> i) & 1 and (i == 0 or not (m >> (i - 1)) & 1):
            out.add(i)
        i += 1
    return out


def _dis_positions(fn, nodeids, depth=0, seen=None):
    seen = seen if seen is not None else set()
    out = set()

    def shift_total(n):
        """positions of `x >> s` including shifts nested below"""
        n = strip(n, casts=True)
        res = set()
        if n['k'] == 'BinaryOperator' and n.get('op') == '>>' and const(kids(n)[1]) is not None:
            s = const(kids(n)[1])
            inner = inner_shifts(kids(n)[0])
            res |= {s + t for t in inner} if inner else {s}
        return res

    def inner_shifts(n):
        r = set()
        for x in walk(n):
            if x['k'] == 'BinaryOperator' and x.get('op') == '>>' and const(kids(x)[1]) is not None:
                r.add(const(kids(x)[1]))
            if x['k'] == 'DeclRefExpr' and x.get('d') is not None:
                for d in _defs(fn, x['d']):
                    for y in walk(d):
                        if y['k'] == 'BinaryOperator' and y.get('op') == '>>' and const(kids(y)[1]) is not None:
                            r.add(const(kids(y)[1]))
        return r
    for i in nodeids:
        n = fn.nodes.get(i)
        if n is None:
            continue
        if n['k'] == 'BinaryOperator' and n.get('op') == '>>' and const(kids(n)[1]) is not None:
            out |= shift_total(n)
            out.add(const(kids(n)[1]))
        elif n['k'] == 'BinaryOperator' and n.get('op') == '&':
            for a, b in (kids(n), reversed(kids(n))):
                m = const(b)
                if m is not None and m > 0 and const(a) is None:
                    base = inner_shifts(a) or {0}
                    for r_ in _runs(m):
                        out |= {r_ + t for t in base}
        elif n['k'] == 'BinaryOperator' and n.get('op') == '<<' and const(kids(n)[0]) == 1 and const(kids(n)[1]) is not None:
            out.add(const(kids(n)[1]))
        elif n['k'] == 'DeclRefExpr' and n.get('d') is not None and depth < 3 and n['d'] not in seen:
            seen.add(n['d'])
            for d in _defs(fn, n['d']):
                out |= _dis_positions(fn, {x['i'] for x in walk(d)}, depth + 1, seen)
    return out


def field_shift(prog, cg, floor=150):
    import json
    import os
    tp = os.path.join(os.path.dirname(os.path.abspath(__file__)), 'fieldshift_table.json')
    accepted = {}
    if os.path.exists(tp):
        for e in json.load(open(tp)).get('accepted', []):
            accepted[(e['table'], e['type'], e['shift'])] = e['reason']
    obs = []
    ncpu = 0
    for afn in sorted(prog.fns.values(), key=lambda f: f.file):
        if not afn.file.startswith('asm/') or not afn.name.startswith('parse_instruction_'):
            continue
        cpu = afn.name[len('parse_instruction_'):]
        dfn = None
        for f in prog.fns.values():
            if f.file == 'disasm/%s' % afn.file.split('/')[1] and f.name == 'disasm_' + cpu:
                dfn = f
        if dfn is None:
            continue
        units = _units(prog, cg, afn.key)
        if len(units) != 1 or not (units & {2, 4}):
            continue
        A, D, AN = {}, {}, {}
        PLAIN = {}
        DELEG = set()
        rowcache = {}

        def rows_of(t):
            if t not in rowcache:
                try:
                    rowcache[t] = tables.rows(prog, t)[0]
                except (AnalysisBroken, KeyError):
                    rowcache[t] = None
            return rowcache[t]
        for sw, txt in caselen._switches(afn):
            col = txt.split('.')[-1]
            cs_ = caselen._cases(afn, sw)
            body_ids = set().union(*[i_ for i_, _ in cs_.values()]) if cs_ else set()
            for name, (ids, cns) in cs_.items():
                vals = {c.get('v') for c in cns if 'v' in c}
                blocks = _label_blocks(afn, ids, col, vals, rows_of(caselen._table(txt)), caselen._table(txt), body_ids)
                k = (caselen._table(txt), name)
                nodes_ = _nodes_of_blocks(afn, blocks, body_ids)
                A.setdefault(k, {}).update(_asm_shifts(afn, nodes_))
                for i_ in nodes_:
                    x_ = afn.nodes.get(i_)
                    if x_ is not None and x_['k'] == 'CompoundAssignOperator' and x_.get('op') == '|=':
                        r_ = strip(kids(x_)[1], casts=True)
                        if r_['k'] in ('MemberExpr', 'DeclRefExpr', 'ArraySubscriptExpr'):
                            PLAIN.setdefault(k, set()).add(show(r_)[:40])
                AN[k] = cns[0]
        for sw, txt in caselen._switches(dfn):
            col = txt.split('.')[-1]
            cs_ = caselen._cases(dfn, sw)
            body_ids = set().union(*[i_ for i_, _ in cs_.values()]) if cs_ else set()
            for name, (ids, cns) in cs_.items():
                vals = {c.get('v') for c in cns if 'v' in c}
                blocks = _label_blocks(dfn, ids, col, vals, rows_of(caselen._table(txt)), caselen._table(txt), body_ids)
                k = (caselen._table(txt), name)
                D.setdefault(k, set()).update(_dis_positions(dfn, _nodes_of_blocks(dfn, blocks, body_ids)))
                # a decoder arm that hands the word to a helper is not decided here
                for i_ in _nodes_of_blocks(dfn, blocks, body_ids):
                    x_ = dfn.nodes.get(i_)
                    if x_ is not None and x_['k'] == 'CallExpr' and (callee(x_) or '').split('(')[0].startswith('disasm_'):
                        DELEG.add(k)
        common = sorted(set(A) & set(D))
        if common:
            ncpu += 1
        for k in common:
            miss = {s: v for s, v in A[k].items() if s not in D[k]}
            # the same operand inserted at several places (rd and rs of `clr Rd` = `xor Rd, Rd`): one read is enough
            for s_ in list(miss):
                v_ = miss[s_]
                if any(v2 == v_ and s2 in D[k] for s2, v2 in A[k].items() if s2 != s_) or \
                        (0 in D[k] and v_ in PLAIN.get(k, ())):
                    del miss[s_]
            an = AN[k]
            if not A[k]:
                continue
            if k in DELEG or not D[k]:
                obs.append(Ob('FIELD-SHIFT', afn.file, an['l'], afn.q, '%s:%s' % k, OBSERVATION,
                              'the decoder arm hands the opcode word to a helper / reads no field itself; not decided'))
                continue
            if not miss:
                obs.append(Ob('FIELD-SHIFT', afn.file, an['l'], afn.q, '%s:%s' % k, DISCHARGED, '',
                              'fields inserted at bits %s are all read by the decoder arm (reads %s)' % (
                                  sorted(A[k]), sorted(D[k])), True))
                continue
            for s, v in sorted(miss.items()):
                why = accepted.get((k[0], k[1], s))
                if why:
                    obs.append(Ob('FIELD-SHIFT', afn.file, an['l'], afn.q, '%s:%s<<%d' % (k[0], k[1], s), OBSERVATION,
                                  'accepted: %s' % why))
                    continue
                obs.append(Ob('FIELD-SHIFT', afn.file, an['l'], afn.q, '%s:%s<<%d' % (k[0], k[1], s), VIOLATED,
                              'operand type %s: the assembler inserts `%s` at bit %d, but the decoder arm of %s in %s reads bits %s only: '
                              'that operand is printed from another field or not at all, so the listing/disassembly is not what '
                              'was assembled' % (k[1], v, s, k[1], dfn.q, sorted(D[k]))))
    n = len([o for o in obs if o.status != OBSERVATION])
    if n < floor:
        raise AnalysisBroken('FIELD-SHIFT: only %d operand types compared' % n)
    return RuleResult('FIELD-SHIFT', obs, floor, {'cpus': ncpu})

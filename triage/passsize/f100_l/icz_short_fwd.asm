.f100_l
.org 0x100
start:
  icz short counter, start
after_icz:
  nop
  jmp done
  add data
after_add:
  nop
done:
  halt
counter:
  nop
data:
  nop

.arm
.org 0
  b 0x82000008

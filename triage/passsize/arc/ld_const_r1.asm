.arc
 ld r1,[r3,5000]
after:
 nop_s

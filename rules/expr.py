"""C04 rules: PREC (operator table vs the documented precedence), OPS (operator -> Var method -> C operator in
64 bits), CAP (evaluator stack capacities vs number of precedence levels), LIT-PAIR (literal re-serialisation
signedness), LIT-CONV (per-digit conversion steps)."""
from nk.facts import kids, strip, const, callee, ckey, call_args, show, walk
from nk.bitflow import type_width
from nk.report import Ob, RuleResult, DISCHARGED, VIOLATED, OBSERVATION
from nk.build import AnalysisBroken

# documented: unary - ~, then * / %, then + -, then << >>, then &, then ^, then |
DOC = {'*': ('PREC_MUL', 'OPER_MUL'), '/': ('PREC_MUL', 'OPER_DIV'), '%': ('PREC_MUL', 'OPER_MOD'),
       '+': ('PREC_ADD', 'OPER_PLUS'), '-': ('PREC_ADD', 'OPER_MINUS'),
       '<<': ('PREC_SHIFT', 'OPER_SHIFT_L'), '>>': ('PREC_SHIFT', 'OPER_SHIFT_R'),
       '&': ('PREC_AND', 'OPER_AND'), '^': ('PREC_XOR', 'OPER_XOR'), '|': ('PREC_OR', 'OPER_OR')}
PREC_ORDER = ['PREC_NOT', 'PREC_MUL', 'PREC_ADD', 'PREC_SHIFT', 'PREC_AND', 'PREC_XOR', 'PREC_OR']
METHOD_OP = {'OPER_MUL': ('Var::mul', '*'), 'OPER_DIV': ('Var::div', '/'), 'OPER_MOD': ('Var::mod', '%'),
             'OPER_PLUS': ('Var::add', '+'), 'OPER_MINUS': ('Var::sub', '-'),
             'OPER_SHIFT_L': ('Var::shift_left', '<<'), 'OPER_SHIFT_R': ('Var::shift_right', '>>'),
             'OPER_AND': ('Var::logical_and', '&'), 'OPER_XOR': ('Var::logical_xor', '^'), 'OPER_OR': ('Var::logical_or', '|')}


def _enum_assign(n, field):
    """enumerator name assigned to member `field` by statement n, or None."""
    s = strip(n)
    if s['k'] == 'BinaryOperator' and s.get('op') == '=':
        l = strip(kids(s)[0])
        if l['k'] == 'MemberExpr' and l['n'] == field:
            r = strip(kids(s)[1], casts=True)
            if r['k'] == 'DeclRefExpr' and r.get('dk') == 'enum':
                return r['n']
    return None


def prec(prog):
    from rules.oracle import _case_regions
    obs = []
    fn = prog.fn('Operator::set_operator')
    got = {}
    # single-character operators: switch on token[0]
    for n in fn.nodes.values():
        if n['k'] != 'SwitchStmt':
            continue
        for v, stmts in _case_regions(fn, n).items():
            if v == 'default':
                continue
            p = o = None
            for st in stmts:
                for x in walk(st):
                    p = _enum_assign(x, 'precedence') or p
                    o = _enum_assign(x, 'operation') or o
            if p and o:
                got[chr(v)] = (p, o)
    # two-character operators: if (token[0] == c && token[1] == c)
    for n in fn.nodes.values():
        if n['k'] != 'IfStmt':
            continue
        cond = None
        for b in fn.blocks.values():
            if b.get('term') == n['i']:
                cond = b
        # the IfStmt's condition subtree is the first expression child
        ks = [k for k in kids(n) if k is not None]
        if not ks:
            continue
        chars = []
        for x in walk(ks[0]):
            if x['k'] == 'BinaryOperator' and x.get('op') == '==' and const(kids(x)[1]) is not None and \
                    strip(kids(x)[0], casts=True)['k'] == 'ArraySubscriptExpr':
                idx = const(kids(strip(kids(x)[0], casts=True))[1])
                chars.append((idx, chr(const(kids(x)[1]))))
        if len(chars) == 2 and len(ks) >= 2:
            p = o = None
            for x in walk(ks[1]):
                p = _enum_assign(x, 'precedence') or p
                o = _enum_assign(x, 'operation') or o
            if p and o:
                got[''.join(c for _, c in sorted(chars))] = (p, o)
    if len(got) < 8:
        raise AnalysisBroken('PREC: Operator::set_operator not in the recognised shape (%d operators found)' % len(got))
    for tok, want in DOC.items():
        g = got.get(tok)
        ok = g == want
        obs.append(Ob('PREC', fn.file, fn.line, fn.q, 'operator:' + tok, DISCHARGED if ok else VIOLATED,
                      '' if ok else 'token `%s` is given %s but the documented grammar makes it %s' % (tok, g, want),
                      '%s -> %s' % (tok, g), False))
    for tok in sorted(set(got) - set(DOC)):
        obs.append(Ob('PREC', fn.file, fn.line, fn.q, 'extra:' + tok, OBSERVATION, 'undocumented operator token %s -> %s' % (tok, got[tok])))
    # order of precedence levels
    vals = {}
    for e in prog.enums.values():
        if e['file'] != 'core/Operator.h':
            continue
        for nme, v in e['consts']:
            if nme in PREC_ORDER:
                vals[nme] = v
    seq = [vals.get(x) for x in PREC_ORDER]
    ok = None not in seq and all(a < b for a, b in zip(seq, seq[1:]))
    obs.append(Ob('PREC', 'core/Operator.h', 0, 'Operator', 'level-order', DISCHARGED if ok else VIOLATED,
                  '' if ok else 'precedence enumerators are not strictly increasing in the documented order: %s' % list(zip(PREC_ORDER, seq)),
                  'PREC_NOT < PREC_MUL < PREC_ADD < PREC_SHIFT < PREC_AND < PREC_XOR < PREC_OR', False))
    # comparator: the later operator is reduced first only when it binds strictly tighter (smaller level)
    gp = prog.fn('EvalExpression::OperStack::get_precedence_index')
    ok = False
    for b in gp.blocks.values():
        c = gp.nodes.get(b.get('cond'))
        if c is None:
            continue
        cs = strip(c)
        if cs['k'] == 'BinaryOperator' and cs.get('op') in ('>', '<') and 'precedence' in show(cs):
            l, r = show(kids(cs)[0]), show(kids(cs)[1])
            t = b['s'][0]
            rv = None
            if t is not None:
                for e in gp.blocks[t]['e']:
                    x = gp.nodes.get(e)
                    if x is not None and x['k'] == 'ReturnStmt':
                        rv = const(kids(x)[0])
            if cs['op'] == '>' and 'stack[0]' in l and 'stack[1]' in r and rv == 1:
                ok = True
            if cs['op'] == '<' and 'stack[1]' in l and 'stack[0]' in r and rv == 1:
                ok = True
    obs.append(Ob('PREC', gp.file, gp.line, gp.q, 'comparator', DISCHARGED if ok else VIOLATED,
                  '' if ok else 'the reduce-order test is no longer `first.precedence > second.precedence -> reduce second first` '
                  '(equal levels must reduce left to right)', 'strict comparison, left-to-right on ties'))
    return RuleResult('PREC', obs, 12, {})


def ops(prog):
    obs = []
    ex = prog.fn('Operator::execute')
    from rules.oracle import _case_regions
    names = {}
    for e in prog.enums.values():
        if e['file'] != 'core/Operator.h':
            continue
        for nme, v in e['consts']:
            if nme.startswith('OPER_'):
                names[v] = nme
    found = {}
    for n in ex.nodes.values():
        if n['k'] == 'SwitchStmt':
            for v, stmts in _case_regions(ex, n).items():
                for st in stmts:
                    for x in walk(st):
                        if x['k'] == 'CXXMemberCallExpr' and (x.get('callee') or '').startswith('Var::'):
                            found[names.get(v, v)] = x['callee']
    for oper, (meth, cop) in METHOD_OP.items():
        ok = found.get(oper) == meth
        obs.append(Ob('OPS', ex.file, ex.line, ex.q, 'dispatch:' + oper, DISCHARGED if ok else VIOLATED,
                      '' if ok else '%s is executed by %s (expected %s)' % (oper, found.get(oper), meth), '%s -> %s' % (oper, meth), False))
        m = prog.fn_opt(meth)
        if m is None:
            raise AnalysisBroken('OPS: %s not found' % meth)
        # the integer path assigns value_int = var_d.value_int <cop> var_s.value_int in a 64-bit type
        good = False
        detail = ''
        other = []
        for x in m.nodes.values():
            if x['k'] == 'BinaryOperator' and x.get('op') == '=' and strip(kids(x)[0]).get('n') == 'value_int':
                r = strip(kids(x)[1], casts=False)
                rr = strip(r, casts=True)
                if rr['k'] == 'BinaryOperator':
                    a, b = show(kids(rr)[0]), show(kids(rr)[1])
                    w = type_width(m.type(rr))
                    if rr.get('op') == cop and 'var_d' in a and 'var_s' in b and 'value_int' in a and 'value_int' in b and w == 64:
                        good = True
                    else:
                        detail = 'value_int = %s (type width %s)' % (show(rr)[:50], w)
                        if 'var_d' in show(rr) and 'var_s' in show(rr):
                            other.append(x)       # a second integer path that computes something else from both operands
        if good and other:
            good = False
            detail = 'a second integer path `%s` (line %d) computes the result differently for some operands' % (
                show(other[0])[:60], other[0]['l'])
        obs.append(Ob('OPS', m.file, m.line, m.q, 'semantics:' + cop, DISCHARGED if good else VIOLATED,
                      '' if good else 'integer path of %s is not `value_int = var_d.value_int %s var_s.value_int` in 64 bits: %s' % (meth, cop, detail),
                      '%s applies %s on 64-bit value_int' % (meth, cop), False))
    return RuleResult('OPS', obs, 20, {})


def cap(prog):
    """CAP: a shift-reduce evaluator that reduces only when its value stack is full needs one value slot more
    than the number of binary precedence levels (and as many operator slots as levels), otherwise an expression whose
    operators appear loosest-to-tightest is reduced too early."""
    levels = len(PREC_ORDER) - 1
    obs = []
    for cls, field, need in (('EvalExpression::VarStack', 'stack', levels + 1), ('EvalExpression::OperStack', 'stack', levels)):
        rec = prog.records.get(cls)
        if rec is None:
            raise AnalysisBroken('CAP: %s not found (evaluator rewritten? re-derive the rule)' % cls)
        f = [x for x in rec['fields'] if x['n'] == field]
        if not f or 'bound' not in f[0]:
            raise AnalysisBroken('CAP: %s::%s is not a fixed array' % (cls, field))
        capn = f[0]['bound']
        ok = capn >= need
        obs.append(Ob('CAP', rec['file'], rec['line'], cls, 'capacity', DISCHARGED if ok else VIOLATED,
                      '' if ok else '%s holds %d entries but %d binary precedence levels need %d: `1 | 2 + 3 * 4` is reduced as '
                      '(1 | 2) + 3 * 4' % (cls, capn, levels, need), '%d slots >= %d' % (capn, need)))
    return RuleResult('CAP', obs, 2, {})


def lit_pair(prog):
    """LIT-PAIR: tokens_get re-serialises numeric literals as decimal text which Var::set_int(const char *) parses
    back; the printf conversion's signedness must match the parser's (atoll/strtoll <-> d, strtoull <-> u)."""
    si = None
    for fn in prog.by_q.get('Var::set_int(const char *)', []):
        si = fn
    if si is None:
        raise AnalysisBroken('LIT-PAIR: Var::set_int(const char *) not found')
    parser = None
    for c in si.calls():
        if callee(c) in ('atoll', 'strtoll', 'strtoull', 'atol', 'strtol', 'strtoul', 'atoi'):
            parser = callee(c)
    if parser is None:
        raise AnalysisBroken('LIT-PAIR: parser call in Var::set_int not recognised')
    signed = parser in ('atoll', 'strtoll', 'atol', 'strtol', 'atoi')
    wide = parser in ('atoll', 'strtoll', 'strtoull')
    obs = []
    obs.append(Ob('LIT-PAIR', si.file, si.line, si.q, 'parser-width', DISCHARGED if wide else VIOLATED,
                  '' if wide else 'literal text is parsed with %s: values above 32/long bits are lost' % parser, parser, False))
    k = 0
    for fn in prog.functions(lambda f: f.file == 'core/tokens.cpp'):
        for c in sorted(fn.calls(), key=lambda x: x['i']):
            if callee(c) != 'snprintf':
                continue
            a = call_args(c)
            if len(a) != 4:
                continue
            lit = strip(a[2], casts=True)
            if lit['k'] != 'StringLiteral' or not (lit.get('s') or '').startswith('%') or len(lit['s']) > 5:
                continue
            conv = lit['s'][-1]
            if conv not in 'duxX':
                continue
            argw = type_width(fn.type(strip(a[3], casts=False)))
            k += 1
            ok = (conv == 'd') == signed and conv in 'du'
            lw = 'll' in lit['s'] or 'l' in lit['s']
            obs.append(Ob('LIT-PAIR', fn.file, c['l'], fn.q, 'reprint#%d' % k, DISCHARGED if ok else VIOLATED,
                          '' if ok else 'literal value is printed with `%s` but re-read with %s: values with bit 63 set do not '
                          'survive the text round trip' % (lit['s'], parser), '`%s` <-> %s' % (lit['s'], parser), False))
    return RuleResult('LIT-PAIR', obs, 5, {'parser': parser})


def _eval_c(n, env):
    """Concrete evaluation of a pure integer expression; env maps show()-texts of leaves to values."""
    v = const(n)
    if v is not None:
        return v
    n = strip(n)
    txt = show(n)
    if txt in env:
        return env[txt]
    k = n['k']
    c = kids(n)
    if k in ('ImplicitCastExpr', 'CStyleCastExpr', 'ParenExpr', 'CXXStaticCastExpr'):
        return _eval_c(c[0], env)
    if k == 'BinaryOperator':
        a, b = _eval_c(c[0], env), _eval_c(c[1], env)
        if a is None or b is None:
            return None
        op = n['op']
        if op in ('<<', '>>') and not 0 <= b < 64:
            return None
        return {'+': a + b, '-': a - b, '&': a & b, '|': a | b, '^': a ^ b, '<<': a << b, '>>': a >> b, '*': a * b}.get(op)
    if k == 'UnaryOperator' and n.get('op') in ('~', '-', '+'):
        a = _eval_c(c[0], env)
        return None if a is None else {'~': ~a, '-': -a, '+': a}[n['op']]
    return None


def lit_conv(prog):
    """LIT-CONV: in tokens_hex/octal/binary_string_to_int each digit branch computes n*B + digit(c) for exactly the
    characters its range test admits (checked for every admitted character and three accumulator values), and the
    accumulator that is stored to *num is 64 bits wide."""
    obs = []
    spec = {'tokens_hex_string_to_int': 16, 'tokens_octal_string_to_int': 8, 'tokens_binary_string_to_int': 2}

    def digit(ch, base):
        if '0' <= ch <= '9':
            d = ord(ch) - 48
        elif 'a' <= ch <= 'f':
            d = ord(ch) - 97 + 10
        elif 'A' <= ch <= 'F':
            d = ord(ch) - 65 + 10
        else:
            return None
        return d if d < base else None
    for name, base in spec.items():
        fns = [f for f in prog.by_name.get(name, []) if f.file == 'core/tokens.cpp']
        if not fns:
            raise AnalysisBroken('LIT-CONV: %s not found' % name)
        fn = fns[0]
        # accumulator width
        for n in fn.nodes.values():
            if n['k'] == 'BinaryOperator' and n.get('op') == '=' and strip(kids(n)[0])['k'] == 'UnaryOperator' and \
                    strip(kids(n)[0]).get('op') == '*':
                src = strip(kids(n)[1], casts=True)
                w = type_width(fn.type(src))
                ok = w == 64
                obs.append(Ob('LIT-CONV', fn.file, n['l'], fn.q, 'accumulator', DISCHARGED if ok else VIOLATED,
                              '' if ok else 'the value is accumulated in a %s-bit `%s` before being stored to the 64-bit result: '
                              'literals wider than %s bits lose their upper digits' % (w, show(src), w), '64-bit accumulator', False))
        nbranches = 0
        for n in fn.nodes.values():
            if n['k'] != 'IfStmt':
                continue
            ks = [k for k in kids(n) if k is not None]
            if len(ks) < 2:
                continue
            cond, then = ks[0], ks[1]
            cs = strip(cond)
            lo = hi = None
            if cs['k'] == 'BinaryOperator' and cs.get('op') == '&&':
                a, b = strip(kids(cs)[0]), strip(kids(cs)[1])
                if a.get('op') == '>=' and b.get('op') == '<=' and show(kids(a)[0]) == '*s' and show(kids(b)[0]) == '*s':
                    lo, hi = const(kids(a)[1]), const(kids(b)[1])
            elif cs['k'] == 'BinaryOperator' and cs.get('op') == '==' and show(kids(cs)[0]) == '*s':
                lo = hi = const(kids(cs)[1])
            if lo is None or hi is None:
                continue
            asg = [x for x in walk(then) if x['k'] == 'BinaryOperator' and x.get('op') == '=' and strip(kids(x)[0]).get('n') == 'n']
            if len(asg) != 1:
                continue
            nbranches += 1
            bad = None
            for c in range(lo, hi + 1):
                d = digit(chr(c), base)
                for n0 in (0, 1, 0x0123456789abcde):
                    v = _eval_c(kids(asg[0])[1], {'*s': c, 'n': n0})
                    if v is None:
                        raise AnalysisBroken('LIT-CONV: digit step `%s` in %s not evaluable' % (show(asg[0]), name))
                    if d is None or v != n0 * base + d:
                        bad = (chr(c), n0, v, None if d is None else n0 * base + d)
                        break
                if bad:
                    break
            obs.append(Ob('LIT-CONV', fn.file, n['l'], fn.q, 'digits:%s-%s' % (chr(lo), chr(hi)), VIOLATED if bad else DISCHARGED,
                          'for character %r with accumulator %#x the step `%s` gives %#x, base-%d conversion needs %s' % (
                              bad[0], bad[1], show(asg[0])[:40], bad[2], base, hex(bad[3]) if bad[3] is not None else 'a rejection')
                          if bad else '', 'n*%d + digit for every character %r..%r' % (base, chr(lo), chr(hi))))
        if nbranches == 0:
            raise AnalysisBroken('LIT-CONV: no digit branch recognised in %s' % name)
    return RuleResult('LIT-CONV', obs, 8, {})


def cap_protocol(prog):
    """CAP-PROTOCOL: exact exploration of EvalExpression::run over (count, var_stack.ptr, oper_stack.ptr) with the stack
    methods and execute_stack inlined: in every reachable state no assert() of the stack classes can fail and every
    subscript of their arrays is inside the array."""
    from nk.smallstate import Explorer, Frame
    fn = prog.fn('EvalExpression::run')
    refs, ints = {}, {}
    for n in fn.nodes.values():
        if n['k'] == 'DeclStmt':
            for d in n.get('decls', ()):
                t = fn.types[d['t']]
                if t in ('EvalExpression::VarStack', 'EvalExpression::OperStack'):
                    refs[d['d']] = d['n']
                elif t == 'int' and d['n'] == 'count':
                    ints[d['d']] = ('loc', fn.key, d['d'])
    if len(refs) != 2 or not ints:
        raise AnalysisBroken('CAP-PROTOCOL: EvalExpression::run no longer has the two stack objects and the count variable '
                             '(evaluator rewritten? re-derive the rule)')
    ex = Explorer(prog)
    ex.explore(fn, Frame(fn, None, refs, ints), frozenset())
    r = ex.res
    obs = []

    def fmt(st):
        return ', '.join('%s=%s' % ('.'.join(map(str, k)) if isinstance(k, tuple) and k[0] not in ('loc', 'arg') else 'count', v)
                         for k, v in sorted(st, key=str) if not (isinstance(k, tuple) and k[0] == 'arg'))
    seen = set()
    for f2, n, st in r.asserts:
        key = (f2.q, n['l'])
        if key in seen:
            continue
        seen.add(key)
        obs.append(Ob('CAP-PROTOCOL', f2.file, n['l'], f2.q, 'assert@%s' % f2.name, VIOLATED,
                      'assert() in %s can fail in the reachable evaluator state {%s}: the assembler aborts (SIGABRT) on a '
                      'source expression' % (f2.q, fmt(st))))
    for f2, n, idx, bound, st in r.oob:
        key = (f2.q, n['l'], 'oob')
        if key in seen:
            continue
        seen.add(key)
        obs.append(Ob('CAP-PROTOCOL', f2.file, n['l'], f2.q, 'subscript@%s' % f2.name, VIOLATED,
                      '`%s` is evaluated with index %d (array of %d) in the reachable evaluator state {%s}' % (show(n)[:40], idx, bound, fmt(st))))
    unk = {(f2.q, n['l']) for f2, n, st in r.unknown_idx}
    if r.checked_idx < 5:
        raise AnalysisBroken('CAP-PROTOCOL: only %d stack subscripts were reached by the exploration' % r.checked_idx)
    obs.append(Ob('CAP-PROTOCOL', fn.file, fn.line, fn.q, 'exploration', DISCHARGED if not r.imprecise else VIOLATED,
                  '; '.join(r.imprecise),
                  '%d abstract states explored; %d stack subscripts and all asserts checked in every state; %d subscript sites with '
                  'unknown index' % (r.states, r.checked_idx, len(unk))))
    return RuleResult('CAP-PROTOCOL', obs, 1, {'states': r.states, 'subscripts_checked': r.checked_idx,
                                              'unknown_index_sites': sorted(unk)})


def tick_first(prog):
    """TICK-FIRST: in tokens_get() a character constant is turned into its number before any rewrite that looks at the token
    text alone.  The `$` substitution (`token` is exactly "$" -> current address) tests only the text: it must be dominated
    by the conversion of TOKEN_TICKED tokens, otherwise the character constant '$' is replaced by the location counter."""
    from nk.cfg import dominators
    fn = prog.fn('tokens_get')
    dom = dominators(fn)
    tick = []
    dollar = []
    for b, bb in fn.blocks.items():
        cn = fn.nodes.get(bb.get('cond')) if 'cond' in bb else None
        if cn is None:
            continue
        own = strip(cn)
        while own['k'] == 'BinaryOperator' and own.get('op') in ('&&', '||'):
            own = strip(kids(own)[0]) if any(x['k'] == 'DeclRefExpr' and x.get('n') == 'TOKEN_TICKED' for x in walk(kids(own)[0])) else strip(kids(own)[1])
        if any(x['k'] == 'DeclRefExpr' and x.get('n') == 'TOKEN_TICKED' for x in walk(cn)) and \
                any(x['k'] == 'DeclRefExpr' and x.get('n') == 'token_type' for x in walk(cn)):
            tick.append(b)
        for x in walk(cn):
            if x['k'] == 'BinaryOperator' and x.get('op') == '==' and const(kids(x)[1]) == ord('$'):
                l = strip(kids(x)[0], casts=True)
                if l['k'] == 'ArraySubscriptExpr' and show(kids(l)[0]).endswith('token') and const(kids(l)[1]) == 0:
                    dollar.append((b, cn))
    if not tick or not dollar:
        raise AnalysisBroken('TICK-FIRST: ticked-constant conversion or `$` test not found in tokens_get')
    obs = []
    # the conversion block: the successor of a TOKEN_TICKED test that rewrites the token (contains snprintf)
    seen_l = set()
    for b, cn in dollar:
        if cn['l'] in seen_l:
            continue
        seen_l.add(cn['l'])
        ok = any(t in dom[b] for t in tick)
        obs.append(Ob('TICK-FIRST', fn.file, cn['l'], fn.q, 'dollar-after-ticked', DISCHARGED if ok else VIOLATED,
                      '' if ok else 'the `$` -> location counter substitution (line %d) looks only at the token text and is not preceded by the '
                      "conversion of character constants: the constant '$' evaluates to the current address instead of 36" % cn['l'],
                      'the TOKEN_TICKED conversion dominates the `$` test', False))
    return RuleResult('TICK-FIRST', obs, 1, {})


def esc_const(prog):
    """ESC-CONST (C05): process_escape() maps each recognised escape letter to a constant and leaves everything else alone:
    every return of the function returns a constant, and the fall-back return of the backslash is preceded by pushing the
    unrecognised character back.  A `default: return ch;` silently drops the backslash of `"C:\\dir"`."""
    fn = prog.fn_opt('process_escape', 'core/tokens.cpp') or prog.fn_opt('process_escape')
    if fn is None:
        raise AnalysisBroken('ESC-CONST: process_escape not found')
    obs = []
    k = 0
    for n in sorted(fn.nodes.values(), key=lambda x: x['i']):
        if n['k'] == 'ReturnStmt' and kids(n):
            k += 1
            v = const(kids(n)[0])
            obs.append(Ob('ESC-CONST', fn.file, n['l'], fn.q, 'return#%d' % k, DISCHARGED if v is not None else VIOLATED,
                          '' if v is not None else '`return %s` hands back a character taken from the source instead of a constant of the '
                          'escape table: an unrecognised escape loses its backslash' % show(kids(n)[0])[:30],
                          'returns the constant %s' % v, False))
    if k < 5:
        raise AnalysisBroken('ESC-CONST: only %d returns in process_escape' % k)
    return RuleResult('ESC-CONST', obs, 5, {})

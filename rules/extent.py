"""READ-EXTENT (C08): a single-instruction decoder does not build its text from a byte beyond the length it reports.

For every decoder disasm_X(memory, address, ...) (the functions R-PROG takes as decoders):
  * a *read* is a call Memory::read8/16/32(address + O) whose offset O is a linear form over never-reassigned
    integer locals/parameters (locals with a single initialiser over such symbols are unfolded);
  * a *return* is `return L` with L a linear form of the same kind;
  * the read is *used* when its value reaches the text: it (or a local it is stored in, not overwritten on the way) occurs in
    an argument of a formatting call (snprintf/sprintf/strcat helpers) or in a branch condition between the read and the return.
A violation is a pair (read, return) with
  (O + width - 1) - L  a constant >= 0                                  -- the byte lies at or beyond address + L
and a path read -> use -> return that never takes the two edges of one textually identical condition in opposite
directions (unless a variable of the condition is stored in between).  The difference must be a *constant*, so the verdict
does not depend on the values of the symbols; pairs whose difference is symbolic are not decided.
"""
from nk.facts import kids, strip, const, callee, show, walk, call_args
from nk.report import Ob, RuleResult, DISCHARGED, VIOLATED, OBSERVATION
from nk.build import AnalysisBroken
from nk.cfg import dominators

WIDTH = {'Memory::read8': 1, 'Memory::read16': 2, 'Memory::read32': 4}
FORMAT = ('snprintf', 'sprintf', 'strcat', 'strcpy', 'strncat', 'printf', 'fprintf')


def _stored(fn):
    st = {}
    for n in fn.nodes.values():
        tgt = None
        if n['k'] in ('BinaryOperator', 'CompoundAssignOperator') and (
                n.get('op') == '=' or (n.get('op', '').endswith('=') and n['op'] not in ('==', '!=', '<=', '>='))):
            tgt = strip(kids(n)[0])
        elif n['k'] == 'UnaryOperator' and n.get('op') in ('++', '--', '&'):
            tgt = strip(kids(n)[0])
        if tgt is not None and tgt['k'] == 'DeclRefExpr':
            st.setdefault(tgt.get('d'), []).append(n)
    return st


def _inits(fn):
    out = {}
    for n in fn.nodes.values():
        if n['k'] == 'DeclStmt':
            for d, i in zip([x for x in n.get('decls', ()) if x.get('init')], kids(n)):
                out[d['d']] = i
    return out


class Lin:
    """Linear forms {symbol(decl id): coef} + const over symbols that are never stored after their definition."""

    def __init__(self, fn):
        self.fn = fn
        self.stored = _stored(fn)
        self.inits = _inits(fn)
        self.names = {}

    def lin(self, n, depth=0):
        n = strip(n, casts=True)
        if n is None or depth > 8:
            return None
        v = const(n)
        if v is not None:
            return ({}, v)
        k = n['k']
        if k == 'DeclRefExpr':
            d = n.get('d')
            if d is None or n.get('dk') not in (None, 'var', 'parm', 'Var', 'ParmVar'):
                pass
            self.names[d] = n.get('n')
            if self.stored.get(d):
                # a symbol that is stored somewhere: usable only between program points with no store in between
                # (the caller freezes it on the path)
                return ({d: 1}, 0)
            if d in self.inits:
                u = self.lin(self.inits[d], depth + 1)
                # unfold only initialisers over symbols that never change
                if u is not None and not any(self.stored.get(k_) for k_ in u[0]):
                    return u
            return ({d: 1}, 0)
        if k == 'BinaryOperator' and n.get('op') in ('+', '-'):
            a = self.lin(kids(n)[0], depth + 1)
            b = self.lin(kids(n)[1], depth + 1)
            if a is None or b is None:
                return None
            s = 1 if n['op'] == '+' else -1
            m = dict(a[0])
            for kk, c in b[0].items():
                m[kk] = m.get(kk, 0) + s * c
                if m[kk] == 0:
                    del m[kk]
            return (m, a[1] + s * b[1])
        if k == 'BinaryOperator' and n.get('op') == '*':
            a = self.lin(kids(n)[0], depth + 1)
            b = self.lin(kids(n)[1], depth + 1)
            if a is None or b is None:
                return None
            if not a[0]:
                a, b = b, a
            if b[0]:
                return None
            return ({kk: c * b[1] for kk, c in a[0].items() if c * b[1]}, a[1] * b[1])
        return None


def _sub(a, b):
    m = dict(a[0])
    for kk, c in b[0].items():
        m[kk] = m.get(kk, 0) - c
        if m[kk] == 0:
            del m[kk]
    return (m, a[1] - b[1])


def _cond_text(fn, b):
    bb = fn.blocks[b]
    cn = fn.nodes.get(bb.get('cond')) if 'cond' in bb else None
    if cn is None or len(bb['s']) != 2:
        return None, None
    own = strip(cn)
    # the last operand of a && / || chain is what this block tests
    while own['k'] == 'BinaryOperator' and own.get('op') in ('&&', '||'):
        own = strip(kids(own)[1])
    if any(x['k'] in ('CallExpr', 'CXXMemberCallExpr') for x in walk(own)):
        return None, None
    vs = frozenset(x.get('d') for x in walk(own) if x['k'] == 'DeclRefExpr' and x.get('d') is not None)
    return show(own), vs


def _block_stores(fn, stored):
    """block -> set of decl ids stored in it."""
    out = {}
    for d, ns in stored.items():
        for n in ns:
            w = fn.where.get(n['i'])
            if w:
                out.setdefault(w[0], set()).add(d)
    return out


def _block_kills(fn, stored, exempt=None):
    """block -> decl ids overwritten there with a value that does not derive from the old one (`v = e` with v not in e)."""
    out = {}
    for d, ns in stored.items():
        for n in ns:
            if n['k'] == 'BinaryOperator' and n.get('op') == '=' and n['i'] != exempt and \
                    not any(x['k'] == 'DeclRefExpr' and x.get('d') == d for x in walk(kids(n)[1])):
                w = fn.where.get(n['i'])
                if w:
                    out.setdefault(w[0], set()).add(d)
    return out


def _path(fn, src, dst, bstores, must=None, frozen=frozenset(), limit=20000, kills=None, frozen2=frozenset()):
    """Is there a path of blocks src -> dst (through block `must` if given) that is consistent on repeated conditions and
    stores none of `frozen` after leaving src?  Returns True / False / None (search limit hit)."""
    ctext = {}
    kills = kills if kills is not None else bstores
    for b in fn.blocks:
        ctext[b] = _cond_text(fn, b)
    steps = 0
    # state: (block, frozenset of (text, edge index)), seen `must`
    start = (src, frozenset(), must is None or src == must)
    st = [start]
    seen = set()
    while st:
        b, facts, got = st.pop()
        if (b, facts, got) in seen:
            continue
        seen.add((b, facts, got))
        steps += 1
        if steps > limit:
            return None
        if b != src and (kills.get(b, set()) & frozen or bstores.get(b, set()) & frozen2):
            continue
        if b == dst and got:
            return True
        # stores in this block invalidate facts about the stored variables
        sd = bstores.get(b, ())
        txt, vs = ctext[b]
        f2 = facts
        if sd:
            f2 = frozenset((t, e, v) for (t, e, v) in facts if not (v & set(sd)))
        succ = fn.blocks[b]['s']
        for i, s in enumerate(succ):
            if s is None:
                continue
            f3 = f2
            if txt is not None:
                if any(t == txt and e != i for (t, e, v) in f2):
                    continue
                f3 = f2 | {(txt, i, vs)}
            st.append((s, f3, got or s == must))
    return False


def _uses(fn, read, stored):
    """Blocks where the value of the read call reaches text or a branch: the call itself inside a formatting argument
    or condition, or a local it is assigned to occurring there.  Returns (list of (block, why)), local decl or None."""
    # climb to the statement holding the read
    p = fn.parent.get(read['i'])
    holder = None
    defining = None
    node = read
    while p is not None:
        if p['k'] in ('CallExpr',) and callee(p) and callee(p).split('(')[0] in FORMAT:
            w = fn.where.get(p['i'])
            return ([(w[0], 'argument of %s' % callee(p).split('(')[0])] if w else []), None, None
        if p['k'] in ('BinaryOperator', 'CompoundAssignOperator') and p.get('op', '').endswith('=') and \
                p['op'] not in ('==', '!=', '<=', '>=') and kids(p)[1] is not None:
            # is the read on the right-hand side?
            rhs_ids = {x['i'] for x in walk(kids(p)[1])}
            if read['i'] in rhs_ids:
                t = strip(kids(p)[0])
                if t['k'] == 'DeclRefExpr':
                    holder = t.get('d')
                    defining = p['i']
                break
        if p['k'] == 'DeclStmt':
            for d, i in zip([x for x in p.get('decls', ()) if x.get('init')], kids(p)):
                if read['i'] in {x['i'] for x in walk(i)}:
                    holder = d['d']
            break
        node = p
        p = fn.parent.get(p['i'])
    uses = []
    if holder is None:
        # used directly in a condition?
        for b, bb in fn.blocks.items():
            cn = fn.nodes.get(bb.get('cond')) if 'cond' in bb else None
            if cn is not None and read['i'] in {x['i'] for x in walk(cn)}:
                uses.append((b, 'branch condition'))
        return uses, None, None
    for n in fn.nodes.values():
        if n['k'] == 'CallExpr' and callee(n) and callee(n).split('(')[0] in FORMAT:
            for a in call_args(n):
                if any(x['k'] == 'DeclRefExpr' and x.get('d') == holder for x in walk(a)):
                    w = fn.where.get(n['i'])
                    if w:
                        uses.append((w[0], 'argument of %s' % callee(n).split('(')[0]))
    for b, bb in fn.blocks.items():
        cn = fn.nodes.get(bb.get('cond')) if 'cond' in bb else None
        if cn is not None and any(x['k'] == 'DeclRefExpr' and x.get('d') == holder for x in walk(cn)):
            uses.append((b, 'branch condition `%s`' % show(cn)[:50]))
    return uses, holder, defining


def read_extent(prog, cg, floor=100):
    from rules.prog import decoder_functions
    roots, decs = decoder_functions(prog, cg)
    obs = []
    nreads = nret = npairs = 0
    for q, fn in sorted(decs.items()):
        ap = [p for p in fn.params() if p.get('n') == 'address']
        if not ap:
            continue
        ad = ap[0]['d']
        L = Lin(fn)
        if L.stored.get(ad):
            continue
        bst = _block_stores(fn, L.stored)
        bkl = _block_kills(fn, L.stored)
        reads = []
        for c in fn.calls():
            w_ = WIDTH.get((callee(c) or '').split('(')[0])
            if not w_ or not call_args(c):
                continue
            lf = L.lin(call_args(c)[0])
            if lf is None or lf[0].get(ad) != 1:
                continue
            off = ({k: v for k, v in lf[0].items() if k != ad}, lf[1])
            wb = fn.where.get(c['i'])
            if wb is None:
                continue
            reads.append((c, off, w_, wb[0]))
        rets = []
        for n in fn.nodes.values():
            if n['k'] == 'ReturnStmt' and kids(n):
                lf = L.lin(kids(n)[0])
                wb = fn.where.get(n['i'])
                if lf is None or wb is None or ad in lf[0]:
                    continue
                if not lf[0] and lf[1] <= 0:
                    continue            # error return
                rets.append((n, lf, wb[0]))
        nreads += len(reads)
        nret += len(rets)
        usecache = {}
        dom = dominators(fn)
        for c, off, w_, rb in reads:
            last = (off[0], off[1] + w_ - 1)
            bad = None
            soft = None
            for r, lf, retb in rets:
                d = _sub(last, lf)
                if d[0] or d[1] < 0:
                    continue
                vol = frozenset(k_ for k_ in list(last[0]) + list(lf[0]) if L.stored.get(k_))
                if vol:
                    # stores after the read inside its own block
                    late = False
                    for k_ in vol:
                        for sn in L.stored[k_]:
                            ws = fn.where.get(sn['i'])
                            wr = fn.where.get(c['i'])
                            if ws and wr and ws[0] == wr[0] and ws[1] > wr[1]:
                                late = True
                    if late:
                        continue
                npairs += 1
                if c['i'] not in usecache:
                    usecache[c['i']] = _uses(fn, c, L.stored)
                uses, holder, defining = usecache[c['i']]
                bkl = _block_kills(fn, {holder: L.stored.get(holder, [])}, defining) if holder is not None else {}
                frozen = frozenset([holder]) if holder is not None else frozenset()
                for ub, why in uses:
                    fmt = why.startswith('argument of')
                    # armed only when the formatting call lies on every path to the return (text written there is what is
                    # returned); tests on the byte (prefix tables falling back to a shorter decode) are listed, not decided
                    if fmt and ub not in dom[retb]:
                        continue
                    p1 = _path(fn, rb, retb, bst, must=ub, frozen=frozen, kills=bkl, frozen2=vol)
                    if p1:
                        if fmt:
                            bad = (r, lf, why, ub)
                            break
                        elif soft is None:
                            soft = (r, lf, why, ub)
                if bad:
                    break
            if bad:
                r, lf, why, ub = bad
                obs.append(Ob('READ-EXTENT', fn.file, c['l'], fn.q, '%s->return %s' % (show(c)[:60], show(kids(r)[0])[:30]),
                              VIOLATED,
                              '`%s` reads the byte at address+%s, its value is used (%s) and the decoder then returns `%s` '
                              '(line %d): the text depends on a byte beyond the reported length, which the range printer decodes '
                              'again as the next instruction' % (
                                  show(c), _fmt(L, last), why, show(kids(r)[0]), r['l'])))
            elif soft:
                r, lf, why, ub = soft
                obs.append(Ob('READ-EXTENT', fn.file, c['l'], fn.q, '%s->return %s' % (show(c)[:60], show(kids(r)[0])[:30]),
                              OBSERVATION,
                              'the byte at address+%s is tested (%s) on a path to `return %s`: a longer form is tried first and the '
                              'decoder falls back to a shorter one; not decided' % (_fmt(L, last), why, show(kids(r)[0]))))
            else:
                obs.append(Ob('READ-EXTENT', fn.file, c['l'], fn.q, show(c)[:70], DISCHARGED, '',
                              'no return L with (offset + width - 1) - L a constant >= 0 lies on a consistent path after a use', True))
    if nreads < floor:
        raise AnalysisBroken('READ-EXTENT: only %d reads with a linear offset in the decoders' % nreads)
    return RuleResult('READ-EXTENT', obs, floor, {'decoders': len(decs), 'reads': nreads, 'returns': nret, 'pairs_checked': npairs})


def _fmt(L, lf):
    parts = []
    for d, c in lf[0].items():
        nm = L.names.get(d, '?')
        parts.append(nm if c == 1 else '%d*%s' % (c, nm))
    parts.append(str(lf[1]))
    return '+'.join(parts)

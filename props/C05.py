"""C05 (partial): T-LANE on data directives, DOC-RANGE, RES, DIRECTIVE, R-UNIT, R-PASS, LIT-PAIR, DATA-TAG."""
from nk import report
from rules import lane, passes, expr, listing, term, onesided
from . import common

EXPLANATION = (
    'Decides the structural clauses listed; does not decide the behaviour as a whole. T-LANE: the per-width emit sequences of '
    '.dc16/.dc32/.dc64 use contiguous byte lanes in the byte order selected by the endian test they sit under. DOC-RANGE: '
    'the value reaching the narrowing of .db is exactly -128..255 and of .dw exactly -32768..65535 (interval analysis of '
    'the range tests). RES: .resb/.resw/.align move the counter and write nothing. DIRECTIVE: every documented data '
    'directive name is routed to the handler of its width. R-UNIT: `.org`, `$`, labels, .low/.high_address apply '
    'bytes_per_address exactly once. R-PASS: the byte order (and every other assembling state) selected in pass 1 is not '
    'carried into pass 2. LIT-PAIR: the tokenizer prints a numeric literal with the conversion its consumers parse (signed 64-bit on both sides), so .dc64 0xffffffffffffffff denotes the same 64 bits. DATA-TAG: every data directive (incl. .binfile) emits through the tagged write path in pass 2. STR-ALL: the character loops of .db/.ascii leave only at the end of the string. TICK-FIRST: the character constant is converted before the `$` substitution. GETC-CHAR: bytes read with getc are kept in an int while they are compared with EOF (.binfile copies 0xff bytes). ESC-CONST: every return of process_escape() is a constant of the escape table (unrecognised escapes are left alone). ONE-SIDED: a directive argument that is rejected above a limit is also tested from below or against zero. Not decided: string escapes, .binfile, .data_fill contents, overlap semantics.')


def run(tier, t0):
    prog = common.program()
    cg = common.callgraph()
    res = lane.lanes(prog, 40)
    res.obs = [o for o in res.obs if o.file in ('core/directives_data.cpp', 'core/add_bin.cpp', 'core/Memory.cpp')]
    res.floor = 10
    results = [res, passes.docrange(prog), passes.res(prog, cg), passes.directives(prog), passes.unit(prog),
               passes.rpass(prog, cg), lane.wrap_pages(prog, 2), expr.lit_pair(prog), expr.tick_first(prog), passes.string_loop(prog), listing.data_tag(prog), term.getc_char(prog, lambda f: f.file.startswith(('core/', 'fileio/'))), onesided.one_sided(prog), expr.esc_const(prog)]
    return report.finish('C05', tier, results, EXPLANATION,
                         ['documented ranges of .db/.dw as stated in the property'], common.TRUSTED, t0)

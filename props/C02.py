"""C02 (partial): T-SIB(a) inter-pass protocol, ADD-SYM, R-PASS, SYM-LOCK."""
from nk import report
from nk.facts import kids, strip, const, callee
from nk.report import Ob, RuleResult, DISCHARGED, VIOLATED
from rules import passes, passsize
from . import common

EXPLANATION = (
    'Decides the structural clauses listed; does not decide the behaviour as a whole. T-SIB(a): on every path between '
    'the two assemble() calls of main(), symbols.lock(), symbols.scope_reset(), pass = 2 and init() are executed. '
    'ADD-SYM: the pass-1 skip branch of add_bin8/16/32 advances the address by exactly the bytes the write branches emit. '
    'R-PASS: no encoding-relevant state written in pass 1 survives into pass 2. SYM-LOCK: Symbols::append is a no-op '
    'returning success once the table is locked, and nothing unlocks it. DEFAULT-CPU: init() selects the default CPU through set_cpu(), so a source without CPU directive gets the complete cpu_list[] settings of msp430 (pass_1_write_disable for its memo) and cpu_list_index is never negative. VARLEN-EMIT: a variable-length (LEB128) emitter is not fed a symbol-derived value unless its length is fixed or a pass-1 memo is consulted. MEMO-THRESH: where pass 1 and pass 2 repeat a size decision with relational tests next to the memo, the tests are the same. SYM-SET: Symbols::set stores the new value whether or not the table is locked. MEMO-GOV: a value test that governs a pass-1 memo '
    'write governs in pass 2 only statements that consult the memo. MEMO-PAIR: a memo that is written is read. MEMO-SURVIVES: '
    'CPUs whose assembler writes the memo have pass_1_write_disable set (else add_bin overwrites it in pass 1). MEMO-ADDR: '
    'no memo access follows an emission of the same instruction (the address has moved). PASS-FLAG: no emission-controlling '
    'pass-2 test reads a variable that is stored only in pass 1. PASS-SIZE: a pass-2 test of a symbol-derived value against a '
    'constant whose arms emit different byte counts when the memo says "unknown" is a violation; tests whose arms are not '
    'finite byte sets (table search loops) are listed as not decided, with the triage classification (forward-reference '
    'experiments, triage/passsize/) where there is one. FIXED-PAD: in the variable-length emitters every return is dominated by a test of the fixed_size parameter (no value bypasses the padding that keeps forward references the same length in both passes). MEMO-COVER: a pass-1 memo of a flag is not restricted to fewer operand kinds than the size tests that read the flag. Not decided: size decisions taken through strings or table rows '
    '(68000 add->addq alias), parser-level differences between the passes (ignore_operand swallowing a closing token).')


def symlock(prog):
    obs = []
    ap = prog.fn('Symbols::append')
    # first statement: if (locked) return 0
    ok = False
    for b in ap.blocks.values():
        cond = ap.nodes.get(b.get('cond')) if 'cond' in b else None
        if cond is None:
            continue
        c = strip(cond, casts=True)
        names = c.get('n') if c['k'] == 'MemberExpr' else None
        if c['k'] == 'BinaryOperator' and c.get('op') == '==':
            names = strip(kids(c)[0], casts=True).get('n')
        if names == 'locked' and b['s'][0] is not None:
            for e in ap.blocks[b['s'][0]]['e']:
                x = ap.nodes.get(e)
                if x is not None and x['k'] == 'ReturnStmt' and kids(x) and const(kids(x)[0]) == 0:
                    ok = True
    obs.append(Ob('SYM-LOCK', ap.file, ap.line, ap.q, 'locked-noop', DISCHARGED if ok else VIOLATED,
                  '' if ok else 'Symbols::append no longer returns 0 without effect when the table is locked: pass-2 labels are '
                  'appended again (duplicate errors or moved labels)', 'if (locked) return 0'))
    unlocks = []
    for fn in prog.fns.values():
        for n in fn.nodes.values():
            if n['k'] == 'BinaryOperator' and n.get('op') == '=':
                l = strip(kids(n)[0])
                if l['k'] == 'MemberExpr' and l['n'] == 'locked' and l.get('rec') == 'Symbols' and const(kids(n)[1]) == 0:
                    unlocks.append((fn, n))
    for fn, n in unlocks:
        obs.append(Ob('SYM-LOCK', fn.file, n['l'], fn.q, 'unlock', VIOLATED, 'Symbols::locked is cleared: labels could move in pass 2'))
    obs.append(Ob('SYM-LOCK', ap.file, ap.line, 'Symbols', 'irreversible', DISCHARGED if not unlocks else VIOLATED, '',
                  'no store of false/0 to Symbols::locked outside the constructor initialiser', False))
    return RuleResult('SYM-LOCK', obs, 2, {})


def symset(prog):
    """SYM-SET: Symbols::set() re-assigns a `.set` symbol in both passes: the store `entry->address = address` exists and is
    not control dependent on `locked` (the table is locked between the passes; a .set symbol that keeps its last pass-1 value
    through pass 2 gives every use before its last assignment another value than in pass 1)."""
    from nk.cfg import dominators
    fn = prog.fn('Symbols::set')
    obs = []
    stores = [n for n in fn.nodes.values() if n['k'] == 'BinaryOperator' and n.get('op') == '=' and
              strip(kids(n)[0]).get('n') == 'address' and strip(kids(n)[0])['k'] == 'MemberExpr']
    if not stores:
        obs.append(Ob('SYM-SET', fn.file, fn.line, fn.q, 'store-address', VIOLATED,
                      'Symbols::set never stores entry->address: .set cannot change a symbol'))
        return RuleResult('SYM-SET', obs, 1, {})
    from rules.passsize import control_deps, _error_dead
    cd, succ = control_deps(fn, set())
    for st in stores:
        w = fn.where.get(st['i'])
        bad = None
        seen = set()
        work = [w[0]] if w else []
        while work:
            b = work.pop()
            for (pc, ps_) in cd.get(b, ()):
                if pc in seen:
                    continue
                seen.add(pc)
                cn = fn.nodes.get(fn.blocks[pc].get('cond')) if 'cond' in fn.blocks[pc] else None
                if cn is not None and any(x['k'] == 'MemberExpr' and x.get('n') == 'locked' for x in common_walk(cn)):
                    bad = cn
                work.append(pc)
        obs.append(Ob('SYM-SET', fn.file, st['l'], fn.q, 'store-address', VIOLATED if bad is not None else DISCHARGED,
                      '' if bad is None else '`%s` only runs under `%s`: once the table is locked (pass 2) .set no longer changes the symbol, '
                      'so a symbol assigned twice has its last pass-1 value everywhere in pass 2' % (
                          ' '.join(str(x) for x in ['entry->address = address']), 'locked test at line %d' % bad['l']),
                      'the store is not control dependent on `locked`', False))
    # the directive side: every call of Symbols::set in the directive handlers runs in both passes
    from nk.facts import callee
    ncall = 0
    for f2 in prog.functions(lambda f: f.file.startswith('core/directives') and f.blocks):
        for c in f2.calls():
            if (callee(c) or '').split('(')[0] != 'Symbols::set':
                continue
            ncall += 1
            bad = None
            prev = c
            for anc in f2.ancestors(c):
                if anc['k'] == 'IfStmt' and any(x['k'] == 'MemberExpr' and x.get('n') == 'pass' for x in common_walk(kids(anc)[0])) \
                        and prev['i'] != kids(anc)[0]['i']:
                    bad = kids(anc)[0]
                if anc['k'] == 'BinaryOperator' and anc.get('op') in ('&&', '||') and prev['i'] == kids(anc)[1]['i'] and \
                        any(x['k'] == 'MemberExpr' and x.get('n') == 'pass' for x in common_walk(kids(anc)[0])):
                    bad = kids(anc)[0]          # `pass == 1 && symbols.set(...)`
                prev = anc
            obs.append(Ob('SYM-SET', f2.file, c['l'], f2.q, 'call-set#%d' % ncall, VIOLATED if bad is not None else DISCHARGED,
                          '' if bad is None else 'the assignment of the .set symbol only runs under `%s`: the other pass does not '
                          'replay it, so uses before the last assignment see another value than in pass 1' % show_(bad),
                          'Symbols::set is called in both passes', False))
    if ncall == 0:
        from nk.build import AnalysisBroken
        raise AnalysisBroken('SYM-SET: no call of Symbols::set in the directive handlers')
    return RuleResult('SYM-SET', obs, 2, {})


def show_(n):
    from nk.facts import show
    return show(n)[:40]


def common_walk(n):
    from nk.facts import walk
    return walk(n)


def run(tier, t0):
    prog = common.program()
    cg = common.callgraph()
    results = [passes.interpass(prog), passes.addsym(prog), passes.rpass(prog, cg), passes.default_cpu(prog, cg), symlock(prog),
               passsize.memo_gov(prog), passsize.memo_pair(prog), passsize.memo_survives(prog, cg), passsize.memo_addr(prog),
               passsize.pass_flag(prog), passsize.pass_size(prog), passsize.memo_thresh(prog), symset(prog), passsize.varlen_emit(prog), passsize.fixed_pad(prog), passsize.memo_cover(prog, 1)]
    return report.finish('C02', tier, results, EXPLANATION, [], common.TRUSTED, t0)

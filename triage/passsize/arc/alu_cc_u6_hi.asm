.arc
start:
  add.eq r1, r1, fwd
after:
  nop_s
.set fwd=1000

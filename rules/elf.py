"""ELF-LAYOUT: the ELF32/ELF64 structures written by fileio/write_elf.cpp have the field order and widths of the
ELF specification (Ehdr after e_ident, Phdr, Shdr, Sym), on the path selected by e_ident[EI_CLASS]."""
from nk.facts import kids, strip, const, callee, call_args, show, walk
from nk.report import Ob, RuleResult, DISCHARGED, VIOLATED, OBSERVATION
from nk.build import AnalysisBroken

W = {'FileIo::write_int8': 8, 'FileIo::write_int16': 16, 'FileIo::write_int32': 32, 'FileIo::write_int64': 64}

SPEC = {
    'ehdr': {
        32: [(16, 'e_type'), (16, 'e_machine'), (32, 'e_version'), (32, 'e_entry'), (32, 'e_phoff'), (32, 'e_shoff'),
             (32, 'e_flags'), (16, 'e_ehsize=52'), (16, 'e_phentsize'), (16, 'e_phnum'), (16, 'e_shentsize=40'),
             (16, 'e_shnum'), (16, 'e_shstrndx')],
        64: [(16, 'e_type'), (16, 'e_machine'), (32, 'e_version'), (64, 'e_entry'), (64, 'e_phoff'), (64, 'e_shoff'),
             (32, 'e_flags'), (16, 'e_ehsize=64'), (16, 'e_phentsize'), (16, 'e_phnum'), (16, 'e_shentsize=64'),
             (16, 'e_shnum'), (16, 'e_shstrndx')]},
    'phdr': {
        32: [(32, 'p_type'), (32, 'p_offset'), (32, 'p_vaddr'), (32, 'p_paddr'), (32, 'p_filesz'), (32, 'p_memsz'),
             (32, 'p_flags'), (32, 'p_align')],
        64: [(32, 'p_type'), (32, 'p_flags'), (64, 'p_offset'), (64, 'p_vaddr'), (64, 'p_paddr'), (64, 'p_filesz'),
             (64, 'p_memsz'), (64, 'p_align')]},
    'shdr': {
        32: [(32, 'sh_name'), (32, 'sh_type'), (32, 'sh_flags'), (32, 'sh_addr'), (32, 'sh_offset'), (32, 'sh_size'),
             (32, 'sh_link'), (32, 'sh_info'), (32, 'sh_addralign'), (32, 'sh_entsize')],
        64: [(32, 'sh_name'), (32, 'sh_type'), (64, 'sh_flags'), (64, 'sh_addr'), (64, 'sh_offset'), (64, 'sh_size'),
             (32, 'sh_link'), (32, 'sh_info'), (64, 'sh_addralign'), (64, 'sh_entsize')]},
    'sym': {
        32: [(32, 'st_name'), (32, 'st_value'), (32, 'st_size'), (8, 'st_info'), (8, 'st_other'), (16, 'st_shndx')],
        64: [(32, 'st_name'), (8, 'st_info'), (8, 'st_other'), (16, 'st_shndx'), (64, 'st_value'), (64, 'st_size')]},
}
FUNCS = {'ehdr': 'write_elf_header', 'phdr': 'write_phdr', 'shdr': 'write_shdr', 'sym': 'write_symtab'}


def _class_test(cond):
    c = strip(cond)
    if c['k'] == 'BinaryOperator' and c.get('op') in ('==', '!=') and 'e_ident' in show(kids(c)[0]) and const(kids(c)[1]) in (1, 2):
        v = const(kids(c)[1])
        # returns class selected on the TRUE edge
        if c['op'] == '==':
            return 32 if v == 1 else 64
        return 64 if v == 1 else 32
    return None


def _paths(fn, start_block, start_idx, cls):
    """Sequences of write_intN calls on the paths that are consistent with ELF class `cls`."""
    out = []
    lim = [0]

    def go(bid, idx, seq, seen):
        lim[0] += 1
        if lim[0] > 5000:
            raise AnalysisBroken('ELF-LAYOUT: too many paths in %s' % fn.q)
        b = fn.blocks[bid]
        seq = list(seq)
        for e in b['e'][idx:]:
            n = fn.nodes.get(e)
            if n is not None and callee(n) in W:
                seq.append((W[callee(n)], n))
        if bid == fn.exit or not [s for s in b['s'] if s is not None]:
            out.append(seq)
            return
        cond = fn.nodes.get(b.get('cond')) if 'cond' in b else None
        t = _class_test(cond) if cond is not None else None
        succ = b['s']
        if t is not None and len(succ) == 2:
            nxt = [succ[0]] if t == cls else [succ[1]]
        else:
            nxt = [s for s in succ if s is not None]
        for s in nxt:
            if s is None or (s, len(seq)) in seen:
                continue
            go(s, 0, seq, seen | {(s, len(seq))})
    go(start_block, start_idx, [], frozenset())
    return out


def layout(prog):
    obs = []
    for what, fname in FUNCS.items():
        fns = [f for f in prog.by_name.get(fname, []) if f.file == 'fileio/write_elf.cpp']
        if not fns:
            raise AnalysisBroken('ELF-LAYOUT: %s not found' % fname)
        fn = fns[0]
        sb, si = fn.entry, 0
        if what == 'ehdr':
            wb = [c for c in fn.calls() if callee(c) == 'FileIo::write_bytes' and 'e_ident' in show(c)]
            if not wb:
                raise AnalysisBroken('ELF-LAYOUT: e_ident write not found in write_elf_header')
            sb, si = fn.where[wb[0]['i']]
            si += 1
        for cls in (32, 64):
            paths = _paths(fn, sb, si, cls)
            want = SPEC[what][cls]
            if not paths:
                raise AnalysisBroken('ELF-LAYOUT: no path for class %d in %s' % (cls, fname))
            problems = []
            for seq in paths:
                if [w for w, _ in seq] != [w for w, _ in want]:
                    problems.append('writes field widths %s, Elf%d_%s is %s' % ([w for w, _ in seq], cls, what.capitalize(), [w for w, _ in want]))
                    continue
                for (w, n), (_, name) in zip(seq, want):
                    a = strip(call_args(n)[0], casts=True)
                    base = name.split('=')[0]
                    if a['k'] == 'MemberExpr' and a['n'].startswith(base[:2]) and a['n'] != base and '_' in a['n']:
                        problems.append('writes %s where Elf%d_%s has %s' % (a['n'], cls, what.capitalize(), base))
                    if '=' in name:
                        v = const(call_args(n)[0])
                        if v is not None and v != int(name.split('=')[1]):
                            problems.append('%s is written as %d, Elf%d needs %s' % (base, v, cls, name.split('=')[1]))
            problems = sorted(set(problems))
            obs.append(Ob('ELF-LAYOUT', fn.file, fn.line, fn.q, '%s:elf%d' % (what, cls), VIOLATED if problems else DISCHARGED,
                          '; '.join(problems[:3]), 'field order and widths of Elf%d_%s on %d path(s)' % (cls, what.capitalize(), len(paths))))
    obs += _phdr_consts(prog)
    return RuleResult('ELF-LAYOUT', obs, 10, {})


def _phdr_consts(prog):
    """When some path selects ELFCLASS64, the constants stored to e_phentsize / e_phoff include the Elf64 values
    (56 / 64) next to the Elf32 ones (32 / 52)."""
    fn = [f for f in prog.by_name.get('write_elf_header', []) if f.file == 'fileio/write_elf.cpp'][0]
    sets64 = False
    stores = {'e_phentsize': [], 'e_phoff': []}
    for n in fn.nodes.values():
        if n['k'] != 'BinaryOperator' or n.get('op') != '=':
            continue
        l = strip(kids(n)[0])
        if l['k'] == 'ArraySubscriptExpr' and 'e_ident' in show(l) and const(kids(l)[1]) == 4 and const(kids(n)[1]) == 2:
            sets64 = True
        if l['k'] == 'MemberExpr' and l.get('n') in stores:
            stores[l['n']].append((n, const(kids(n)[1])))
    out = []
    for field, want32, want64 in (('e_phentsize', 32, 56), ('e_phoff', 52, 64)):
        vals = [v for _, v in stores[field]]
        if not stores[field]:
            raise AnalysisBroken('ELF-LAYOUT: no store to %s in write_elf_header' % field)
        if None in vals:
            out.append(Ob('ELF-LAYOUT', fn.file, fn.line, fn.q, field, OBSERVATION, 'a non-constant value is stored; not decided'))
            continue
        bad = sets64 and want64 not in vals
        bad = bad or want32 not in vals or any(v not in (want32, want64) for v in vals)
        out.append(Ob('ELF-LAYOUT', fn.file, stores[field][0][0]['l'], fn.q, field, VIOLATED if bad else DISCHARGED,
                      'constants stored to %s are %s; Elf32 needs %d and Elf64 (selected for some CPUs) needs %d' % (field, sorted(set(vals)), want32, want64) if bad else '',
                      'constants %s' % sorted(set(vals))))
    return out


def strtab_pair(prog):
    """STRTAB-PAIR: the ELF writer keeps the offset of the next string-table entry by adding strlen() of what it has just
    written: in a block of fileio/write_elf.cpp that writes a string with FileIo::write_string(X) and then uses strlen(Y)
    in an offset computation, X and Y are the same expression (otherwise every later st_name points into the wrong place)."""
    obs = []
    for fn in prog.functions(lambda f: f.file == 'fileio/write_elf.cpp' and f.blocks):
        for bid, b in fn.blocks.items():
            last = None
            for e in b['e']:
                n = fn.nodes.get(e)
                if n is None or n['k'] not in ('CallExpr', 'CXXMemberCallExpr'):
                    continue
                q = (callee(n) or '').split('(')[0]
                if q == 'FileIo::write_string':
                    last = n
                elif q == 'strlen' and last is not None:
                    x = show(strip(call_args(last)[0], casts=True))
                    y = show(strip(call_args(n)[0], casts=True))
                    ok = x == y
                    obs.append(Ob('STRTAB-PAIR', fn.file, n['l'], fn.q, 'strlen(%s)' % y[:30], DISCHARGED if ok else VIOLATED,
                                  '' if ok else 'the string written is `%s` but the offset of the next entry is advanced by strlen(%s): every '
                                  'following symbol name offset is off by the difference' % (x, y), 'same expression written and measured'))
                    last = None
    if len(obs) < 2:
        raise AnalysisBroken('STRTAB-PAIR: only %d write_string/strlen pairs in write_elf.cpp' % len(obs))
    return RuleResult('STRTAB-PAIR', obs, 2, {})


def shnum_pair(prog):
    """SHNUM-PAIR: the ELF writer announces (e_shnum) exactly the section headers it writes, per CPU: every CPU-specific
    `e_shnum++` (in the switch over cpu_type of write_elf_header) is matched by a write_shdr() call guarded by the same
    CPU type, and vice versa.  A count that is one too high makes the section header table reach past the end of the
    file: readelf rejects it and naken_util's own loader reads headers from beyond the file."""
    from rules import caselen
    files = ('fileio/write_elf.cpp',)
    incr = {}
    shdr = {}
    anchors = 0
    for fn in prog.functions(lambda f: f.file in files):
        if not fn.blocks:
            continue
        # increments inside `switch (cpu_type)` arms
        for n in fn.nodes.values():
            if n['k'] != 'SwitchStmt':
                continue
            cond = None
            for b in fn.blocks.values():
                if b.get('term') == n['i']:
                    cond = fn.nodes.get(b.get('cond'))
            if cond is None or not show(strip(cond, casts=True)).endswith('cpu_type'):
                continue
            anchors += 1
            for name, (ids, cns) in caselen._cases(fn, n).items():
                for i in ids:
                    x = fn.nodes.get(i)
                    if x is not None and x['k'] == 'UnaryOperator' and x.get('op') == '++' and \
                            show(strip(kids(x)[0])).endswith('e_shnum'):
                        incr.setdefault(name, []).append(x)
        # write_shdr calls under `if (cpu_type == ENUM)`
        for c in fn.calls():
            if (callee(c) or '').split('(')[0] != 'write_shdr':
                continue
            p = fn.parent.get(c['i'])
            guard = None
            while p is not None:
                if p['k'] == 'IfStmt':
                    cn = strip([k for k in kids(p) if k is not None][0])
                    if cn['k'] == 'BinaryOperator' and cn.get('op') == '==':
                        l, r = (strip(y, casts=True) for y in kids(cn))
                        for a, b in ((l, r), (r, l)):
                            if show(a).endswith('cpu_type') and b['k'] == 'DeclRefExpr' and b.get('dk') == 'enum':
                                guard = b['n']
                if guard:
                    break
                p = fn.parent.get(p['i'])
            shdr.setdefault(guard, []).append(c)
    if not anchors or not shdr.get(None):
        raise AnalysisBroken('SHNUM-PAIR: switch over cpu_type / write_shdr calls not found in fileio/write_elf.cpp')
    obs = []
    for name in sorted(set(incr) | {k for k in shdr if k}):
        a, b = len(incr.get(name, [])), len(shdr.get(name, []))
        where = (incr.get(name) or shdr.get(name))[0]
        ok = a == b
        obs.append(Ob('SHNUM-PAIR', files[0], where['l'], 'write_elf', 'cpu:%s' % name, DISCHARGED if ok else VIOLATED,
                      '' if ok else 'for %s e_shnum is incremented %d time(s) but %d CPU-specific section header(s) are written: the '
                      'header announces %s section than the file holds (readelf: section headers extend past the end of the file; '
                      'naken_util reads a header from beyond it)' % (name, a, b, 'one more' if a > b else 'fewer'),
                      '%d CPU-specific increment(s), %d CPU-specific write_shdr call(s)' % (a, b), False))
    obs.append(Ob('SHNUM-PAIR', files[0], shdr[None][0]['l'], 'write_elf', 'common-headers', DISCHARGED, '',
                  '%d write_shdr calls are not CPU specific' % len(shdr[None]), False))
    return RuleResult('SHNUM-PAIR', obs, 2, {})


def patch_width(prog):
    """PATCH-WIDTH: a header field that the ELF writer reserves (`elf->X_offset = file.tell(); file.write_intN(0)`) and
    fills in later (`file.set(elf.X_offset); file.write_intM(v)` or `file.write_intM_at_offset(v, elf.X_offset)`) is
    filled with the width it was reserved with, in each ELF class: a 32-bit patch of a 64-bit field leaves the other half
    zero, which is the high half of the value in a little-endian file and the *low* half in a big-endian one
    (e_shoff = offset << 32: no section can be found)."""
    fns = [f for f in prog.fns.values() if f.file == 'fileio/write_elf.cpp' and f.blocks]
    W = {'FileIo::write_int8': 8, 'FileIo::write_int16': 16, 'FileIo::write_int32': 32, 'FileIo::write_int64': 64}
    WA = {'FileIo::write_int32_at_offset': 32, 'FileIo::write_int64_at_offset': 64, 'FileIo::write_int16_at_offset': 16}

    def cls_of(fn, n):
        """{32, 64}, {32} or {64}: ELF classes under which statement n runs (tests of EI_CLASS)."""
        out = {32, 64}
        p = fn.parent.get(n['i'])
        child = n
        while p is not None:
            if p['k'] == 'IfStmt':
                ks = [x for x in kids(p) if x is not None]
                ctext = show(strip(ks[0]))
                if 'e_ident' in ctext or 'EI_CLASS' in ctext or 'is_32' in ctext:
                    c = strip(ks[0])
                    v = None
                    if c['k'] == 'BinaryOperator' and c.get('op') in ('==', '!='):
                        v = const(kids(c)[1])
                    in_then = len(ks) > 1 and any(x['i'] == child['i'] for x in walk(ks[1]))
                    if v is not None:
                        eq32 = (v == 1) if c['op'] == '==' else (v != 1)
                        out &= ({32} if eq32 else {64}) if in_then else ({64} if eq32 else {32})
            child = p
            p = fn.parent.get(p['i'])
        return out

    def field_of(n):
        s = strip(n, casts=True)
        return s.get('n') if s['k'] == 'MemberExpr' and s.get('n', '').endswith('_offset') else None

    reserve = {}
    patches = {}
    for fn in fns:
        for n in sorted(fn.nodes.values(), key=lambda x: x['i']):
            if n['k'] == 'BinaryOperator' and n.get('op') == '=' and field_of(kids(n)[0]) and \
                    (callee(strip(kids(n)[1], casts=True)) or '').split('(')[0] == 'FileIo::tell':
                f = field_of(kids(n)[0])
                p = fn.parent.get(n['i'])
                sibs = [x for x in kids(p) if x is not None]
                nxt = sibs[sibs.index(n) + 1] if n in sibs and sibs.index(n) + 1 < len(sibs) else None
                w = W.get((callee(strip(nxt)) or '').split('(')[0]) if nxt is not None else None
                if w:
                    for c in cls_of(fn, n):
                        reserve[(f, c)] = (w, n)
            q = (callee(n) or '').split('(')[0] if n['k'] in ('CallExpr', 'CXXMemberCallExpr') else None
            if q in WA and len(call_args(n)) >= 2 and field_of(call_args(n)[1]):
                for c in cls_of(fn, n):
                    patches.setdefault((field_of(call_args(n)[1]), c), []).append((WA[q], n))
            if q == 'FileIo::set' and call_args(n) and field_of(call_args(n)[0]):
                f = field_of(call_args(n)[0])
                p = fn.parent.get(n['i'])
                while p is not None and p['k'] not in ('CompoundStmt',):
                    p = fn.parent.get(p['i'])
                sibs = [x for x in kids(p) if x is not None] if p is not None else []
                idx = [i for i, x in enumerate(sibs) if any(y['i'] == n['i'] for y in walk(x))]
                if idx:
                    # the write(s) that follow, up to the next seek
                    for x in sibs[idx[0] + 1:]:
                        stop = False
                        for y in walk(x):
                            qq = (callee(y) or '').split('(')[0] if y['k'] in ('CallExpr', 'CXXMemberCallExpr') else None
                            if qq == 'FileIo::set':
                                stop = True
                                break
                            if qq in W:
                                for c in cls_of(fn, y) & cls_of(fn, n):
                                    if (f, c, 'first') not in patches:
                                        patches[(f, c, 'first')] = True
                                        patches.setdefault((f, c), []).append((W[qq], y))
                        if stop:
                            break
    if not reserve:
        raise AnalysisBroken('PATCH-WIDTH: no reserved header field found in fileio/write_elf.cpp')
    obs = []
    for (f, c), (w, n) in sorted(reserve.items()):
        ps = patches.get((f, c), [])
        if not ps:
            obs.append(Ob('PATCH-WIDTH', 'fileio/write_elf.cpp', n['l'], 'write_elf', '%s:ELF%d' % (f, c), OBSERVATION,
                          'reserved with %d bits, no patch recognised' % w))
            continue
        for (pw, pn) in ps:
            ok = pw == w
            obs.append(Ob('PATCH-WIDTH', 'fileio/write_elf.cpp', pn['l'], 'write_elf', '%s:ELF%d' % (f, c),
                          DISCHARGED if ok else VIOLATED,
                          '' if ok else 'in an ELF%d file the field at %s is reserved with write_int%d (line %d) but filled in with a %d-bit '
                          'write: half of the field keeps its placeholder, and in a big-endian file that is the half that holds the '
                          'value' % (c, f, w, n['l'], pw),
                          'reserved %d bits, patched with %d bits' % (w, pw), False))
    return RuleResult('PATCH-WIDTH', obs, 2, {})

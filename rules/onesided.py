"""ONE-SIDED (C05/C16): a directive argument that is rejected above a limit is also tested below.

Instance: an `int` parameter or a local filled by eval_expression(ctx, &v) in core/directives*.cpp for which some branch
compares v with a constant from above (`v > K`, `v >= K`).  The instance is violated when no branch of the function tests v
from below (`v < K`, `v <= K`) or against zero: the value comes from the source text, so a zero or negative argument goes
through (`.align_bytes 0` builds the mask -1 and steps the location counter round the whole address space to 0)."""
from nk.facts import kids, strip, const, callee, show, walk, call_args
from nk.report import Ob, RuleResult, DISCHARGED, VIOLATED
from nk.build import AnalysisBroken

_FLIP = {'<': '>', '<=': '>=', '>': '<', '>=': '<=', '==': '==', '!=': '!='}


def one_sided(prog, floor=3):
    obs = []
    for fn in sorted(prog.functions(lambda f: f.file.startswith('core/directives')), key=lambda f: (f.file, f.line)):
        if not fn.blocks:
            continue
        cands = {}
        for p in fn.params():
            if (fn.types[p['t']] or '') == 'int':
                cands[p['d']] = p['n']
        for c in fn.calls():
            if (callee(c) or '').split('(')[0] == 'eval_expression' and len(call_args(c)) >= 2:
                a = strip(call_args(c)[1], casts=True)
                if a['k'] == 'UnaryOperator' and a.get('op') == '&':
                    t = strip(kids(a)[0])
                    if t['k'] == 'DeclRefExpr':
                        cands[t['d']] = t['n']
        for d, name in sorted(cands.items(), key=lambda kv: kv[1]):
            up, lo = [], False
            for b, bb in fn.blocks.items():
                c = fn.nodes.get(bb.get('cond')) if 'cond' in bb else None
                if c is None:
                    continue
                for x in walk(c):
                    if x['k'] == 'BinaryOperator' and x.get('op') in _FLIP:
                        a, b2 = [strip(k_, casts=True) for k_ in kids(x)]
                        for l, r, op in ((a, b2, x['op']), (b2, a, _FLIP[x['op']])):
                            if l['k'] == 'DeclRefExpr' and l.get('d') == d and const(r) is not None:
                                if op in ('>', '>='):
                                    up.append(x)
                                if op in ('<', '<=') or (op in ('==', '!=') and const(r) == 0):
                                    lo = True
            if not up:
                continue
            if lo:
                obs.append(Ob('ONE-SIDED', fn.file, up[0]['l'], fn.q, 'arg:' + name, DISCHARGED, '',
                              '`%s` is tested from above and from below' % name, False))
            else:
                obs.append(Ob('ONE-SIDED', fn.file, up[0]['l'], fn.q, 'arg:' + name, VIOLATED,
                              '`%s` is rejected only from above (`%s`); zero and negative values, which the source text can supply, '
                              'are used as they are' % (name, show(up[0]))))
    if len(obs) < floor:
        raise AnalysisBroken('ONE-SIDED: only %d range-tested directive arguments' % len(obs))
    return RuleResult('ONE-SIDED', obs, floor, {})

"""R-IDX: every subscript of a fixed-size array stays inside the array.

Obligations: every ArraySubscriptExpr whose base is an array of known bound B, in the functions of the scope.
Discharged when the index is a constant in [0, B) (B itself only under `&a[B]` / sizeof idioms is not accepted),
or the interval analysis (branch refinement, threshold widening, trace partitioning, table ranges, field invariants,
context-sensitive return ranges) proves 0 <= index < B in the state just before the index expression is evaluated.
An undischarged (function, array) pair is
  * a known finding / violation when it is not in the frozen table, or
  * an observation "not decided" when rules/idx_table.json lists the pair with the invariant (read from the code) that
    keeps it in range but that the domain cannot express."""
import json
import os
from nk.facts import kids, strip, const, show
from nk.interval import Analyzer, FnIntervals
from nk.report import Ob, RuleResult, DISCHARGED, VIOLATED, OBSERVATION
from nk.build import AnalysisBroken

HERE = os.path.dirname(os.path.abspath(__file__))


def load_table():
    with open(os.path.join(HERE, 'idx_table.json')) as f:
        return json.load(f)


def array_name(n):
    b = strip(kids(n)[0])
    t = show(b)
    return t


def idx(prog, scope, floor, an=None, table=None):
    an = an or Analyzer(prog)
    table = table or load_table()
    unproven = {(e['file'], e['function'], e['array']): e for e in table.get('unproven', [])}
    obs = []
    nfun = 0
    for fn in prog.functions(scope):
        if not fn.blocks:
            continue
        subs = [n for n in fn.nodes.values() if n['k'] == 'ArraySubscriptExpr' and 'bound' in n]
        if not subs:
            continue
        nfun += 1
        fa = None
        per_array = {}
        for n in sorted(subs, key=lambda x: x['i']):
            B = n['bound']
            arr = array_name(n)
            idxe = kids(n)[1]
            v = const(idxe)
            key = per_array.setdefault(arr, [0, 0, None])
            key[0] += 1
            if v is not None:
                if 0 <= v < B:
                    continue
                if v == B:
                    # &a[B] (one past the end) is legal only when the address is taken
                    p = fn.parent.get(n['i'])
                    if p is not None and p['k'] == 'UnaryOperator' and p.get('op') == '&':
                        continue
                key[1] += 1
                key[2] = key[2] or (n, (v, v))
                continue
            if fa is None:
                fa = an._fa_cache(fn)
            w = fn.block_of(n)
            if w is None or w[0] not in fa.reached:
                continue
            iv = fa.eval_own(idxe)
            if iv[0] is not None and iv[1] is not None and iv[0] >= 0 and iv[1] < B:
                continue
            key[1] += 1
            if key[2] is None:
                key[2] = (n, iv)
        for arr, (total, bad, ex) in per_array.items():
            construct = '%s[]' % arr
            if not bad:
                obs.append(Ob('R-IDX', fn.file, fn.line, fn.q, construct, DISCHARGED, '',
                              'all %d subscripts of %s proven inside the array' % (total, arr), True))
                continue
            n, iv = ex
            det = '`%s`: index range %s is not proven inside [0, %d) (%d of %d subscripts of this array in the function)' % (
                show(n)[:60], iv, n['bound'], bad, total)
            u = unproven.get((fn.file, fn.q, arr))
            if u:
                obs.append(Ob('R-IDX', fn.file, n['l'], fn.q, construct, OBSERVATION,
                              'not decided by the interval domain; invariant read from the code: ' + u['reason']))
            else:
                obs.append(Ob('R-IDX', fn.file, n['l'], fn.q, construct, VIOLATED, det))
    return RuleResult('R-IDX', obs, floor, {'functions_with_fixed_arrays': nfun})

.ps2_ee
  vcallms 0x4000
  vcallms 0
  vcallms 0x4008
  vcallms 8
  vcallms 0x7ff8
  vcallms 0x3ff8

.8051
.org 0x1000
  ajmp 0x11234        ; 41 34 -- same bytes as ajmp 0x1234
  ajmp 0x1234
  acall 0x11234       ; 51 34
  acall 0x1234
  ajmp 0x1234-0x10000 ; 41 34

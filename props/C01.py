"""C01 (narrow): T-ORACLE (RV32I + MSP430 core vs the architecture manuals: table rows, encoder insertions,
decoder extractions), T-LEN (decoder lengths vs encoder emission unit), T-CPU (registry rows)."""
from nk import report
from rules import oracle, tbl
from . import common

EXPLANATION = (
    'Decides the structural clauses listed; does not decide the behaviour as a whole. T-ORACLE: for the 40 RV32I base '
    'and 31 MSP430 core mnemonics the table row exists with exactly the opcode word of the architecture manual and an '
    'operand type of the right format, a generic encoding of it is first matched by a row with that opcode word, the '
    'encoder case of each format inserts every register/immediate at the ISA bit positions (symbolic bit provenance of '
    'the emitted word, helper permutations inlined), and the decoder case prints operands extracted from exactly those '
    'instruction bits in assembler operand order — encoder and decoder are each compared with the manual, hence with '
    'each other. T-LEN: for every CPU whose encoder emits through a single add_binW unit, each constant length returned '
    'by its decoder is a positive multiple of W (== W for fixed-size ISAs). T-CPU: every cpu_list row has a legal '
    'bytes_per_address and non-null handlers. Not decided: the round trip for other CPUs / arbitrary operand values.')


def run(tier, t0):
    prog = common.program()
    cg = common.callgraph()
    results = [oracle.run(prog), tbl.tlen(prog, cg), tbl.tcpu(prog)]
    return report.finish('C01', tier, results, EXPLANATION,
                         ['the oracle tables in rules/oracle.py are a faithful transcription of the RISC-V unprivileged '
                          'spec (RV32I) and the MSP430x1xx Family User\'s Guide instruction formats',
                          'operands[i] is the i-th operand in source order (assembler operand parser)'],
                         common.TRUSTED, t0)

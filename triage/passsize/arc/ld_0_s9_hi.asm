.arc
start:
  ld 0, [r3, fwd]
after:
  nop_s
.set fwd=5000

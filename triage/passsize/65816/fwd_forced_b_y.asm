; 65816: forward reference, forced direct-page size, ,y: pass 1 = 3 bytes, pass 2 = 2 bytes.
.65816
.org 0x1000
start:
  ldx.b table,y
after:
  nop
  rts
.org 0x80
table:
  db 1, 2, 3

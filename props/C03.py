"""C03 (partial): T-LANE, T-PAIR, T-NODROP, T-DISP, R-WRAP(a), DL-WIDTH, ELF layout, STRTAB-PAIR, REC-SUM."""
from nk import report
from rules import elf, lane, disp, fmtwidth
from . import common

EXPLANATION = (
    'Decides the structural clauses listed; does not decide the behaviour as a whole. T-LANE: every checksum sum, '
    'byte-emit sequence and byte-assembly expression of the writers/readers/Memory/add_bin/FileIo uses a contiguous, '
    'duplicate-free run of byte lanes in exactly little- or big-endian order, under the branch whose endian test '
    'selects that order, in an accumulator wide enough (symbolic bit provenance). T-PAIR: hex/srec checksum '
    'finalisation of writer and reader equals the format definition for all 65536 byte sums (exhaustive evaluation of '
    'the extracted expression) and S-record length constants equal address bytes + 1 on both sides. T-NODROP: in every '
    'image loop of the 8 writers each path reads the byte at n or passes a DL_EMPTY edge. T-DISP: every selectable '
    'output type / detectable input type / accepted command is dispatched. R-WRAP(a): page-membership tests are '
    'computed in 64 bits. DL-WIDTH: the debug-line channel (which doubles as the "byte was written" marker) is at '
    'least 32 bits wide end to end. STRTAB-PAIR: the ELF writer\'s string-table offsets (st_name, sh_name) are computed from the same strings it writes, so an exported symbol carries its own name. PATCH-WIDTH: header fields that are reserved and filled in later are filled with the reserved width in each ELF class. SHNUM-PAIR: every CPU-specific increment of e_shnum is matched by a CPU-specific section header that is written. FMT-WIDTH: every `%0NX` field of the hex and srec writers is proven (interval analysis, helper parameters from their call sites) to hold a value of at most N hex digits, so an address or start address wider than the record type is never printed into it. Not decided: ELF/Mach-O/UF2/Amiga layout conformance beyond lanes, bin gap filling.')


def run(tier, t0):
    prog = common.program()
    results = [lane.lanes(prog, 40), lane.pair(prog), lane.nodrop(prog, 8), disp.disp(prog), lane.wrap_pages(prog, 2),
               lane.dl_width(prog), elf.layout(prog), elf.strtab_pair(prog), elf.shnum_pair(prog), elf.patch_width(prog), lane.rec_sum(prog), fmtwidth.fmt_width(prog)]
    return report.finish('C03', tier, results, EXPLANATION,
                         ['format definitions (Intel hex two\'s-complement checksum, S-record one\'s-complement checksum '
                          'and length) are transcribed in rules/lane.py',
                          'a writer that skips addresses must consult read_debug(n) (the only emptiness test in use today)'],
                         common.TRUSTED, t0)

.arc
start:
  add_s sp, sp, fwd
after:
  nop_s
.set fwd=200

.cell
.org 0x10000
  ; each pair: out-of-field offset (+2048 bytes = +512 words) vs in-range offset, same bytes
a:  hbr a+2048+4, r3
b:  hbr b+4, r3
c:  hbra c+2048+4, 0x100
d:  hbra d+4, 0x100
e:  hbrr e+2048+4, e
f:  hbrr f+4, f
g:  hbr g-4096, r3
h:  hbr h, r3

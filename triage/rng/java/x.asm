.java
  iinc 1, 44
  iinc 1, 300
  iinc 1, -212
  iinc 1, 0x7fffff2c

.cell
.org 0x10000
a:  hbr a+1020, r3
b:  hbr b-1024, r3
c:  hbra c+1020, 0x100
d:  hbra d-1024, 0x100
e:  hbrr e+1020, e
f:  hbrr f-1024, f
main: hbr main, r93

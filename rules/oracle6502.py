"""T-ORACLE(6502): the 151 documented NMOS 6502 opcodes (MOS MCS6500 programming manual, appendix) against
table_6502_opcodes[] (indexed by opcode byte: mnemonic + addressing mode) and the per-mode instruction lengths
(op_bytes[] in asm/6502.cpp and disasm/6502.cpp).  The 65C02 additions of the table are not in the oracle."""
from nk.facts import kids, strip, const, show
from nk import tables
from nk.report import Ob, RuleResult, DISCHARGED, VIOLATED, OBSERVATION
from nk.build import AnalysisBroken

IMM, ZP, ZPX, ZPY, ABS, ABX, ABY, IZX, IZY, IND, REL, IMP = (
    'OP_IMMEDIATE', 'OP_ADDRESS8', 'OP_INDEXED8_X', 'OP_INDEXED8_Y', 'OP_ADDRESS16', 'OP_INDEXED16_X', 'OP_INDEXED16_Y',
    'OP_X_INDIRECT8', 'OP_INDIRECT8_Y', 'OP_INDIRECT16', 'OP_RELATIVE', 'OP_NONE')
LEN = {IMM: 2, ZP: 2, ZPX: 2, ZPY: 2, ABS: 3, ABX: 3, ABY: 3, IZX: 2, IZY: 2, IND: 3, REL: 2, IMP: 1,
       'OP_INDIRECT8': 2, 'OP_X_INDIRECT16': 3, 'OP_ADDRESS8_RELATIVE': 3}


def _alu(base):
    return {base + 0x09: IMM, base + 0x05: ZP, base + 0x15: ZPX, base + 0x0d: ABS, base + 0x1d: ABX, base + 0x19: ABY,
            base + 0x01: IZX, base + 0x11: IZY}


def _shift(base):
    return {base + 0x0a: IMP, base + 0x06: ZP, base + 0x16: ZPX, base + 0x0e: ABS, base + 0x1e: ABX}


ISA = {}
for mn, base in (('ORA', 0x00), ('AND', 0x20), ('EOR', 0x40), ('ADC', 0x60), ('LDA', 0xa0), ('CMP', 0xc0), ('SBC', 0xe0)):
    for op, mode in _alu(base).items():
        ISA[op] = (mn, mode)
for op, mode in _alu(0x80).items():
    if mode != IMM:
        ISA[op] = ('STA', mode)
for mn, base in (('ASL', 0x00), ('ROL', 0x20), ('LSR', 0x40), ('ROR', 0x60)):
    for op, mode in _shift(base).items():
        ISA[op] = (mn, mode)
ISA.update({
    0x90: ('BCC', REL), 0xb0: ('BCS', REL), 0xf0: ('BEQ', REL), 0x30: ('BMI', REL), 0xd0: ('BNE', REL), 0x10: ('BPL', REL),
    0x50: ('BVC', REL), 0x70: ('BVS', REL),
    0x24: ('BIT', ZP), 0x2c: ('BIT', ABS), 0x00: ('BRK', IMP),
    0x18: ('CLC', IMP), 0xd8: ('CLD', IMP), 0x58: ('CLI', IMP), 0xb8: ('CLV', IMP),
    0xe0: ('CPX', IMM), 0xe4: ('CPX', ZP), 0xec: ('CPX', ABS), 0xc0: ('CPY', IMM), 0xc4: ('CPY', ZP), 0xcc: ('CPY', ABS),
    0xc6: ('DEC', ZP), 0xd6: ('DEC', ZPX), 0xce: ('DEC', ABS), 0xde: ('DEC', ABX), 0xca: ('DEX', IMP), 0x88: ('DEY', IMP),
    0xe6: ('INC', ZP), 0xf6: ('INC', ZPX), 0xee: ('INC', ABS), 0xfe: ('INC', ABX), 0xe8: ('INX', IMP), 0xc8: ('INY', IMP),
    0x4c: ('JMP', ABS), 0x6c: ('JMP', IND), 0x20: ('JSR', ABS),
    0xa2: ('LDX', IMM), 0xa6: ('LDX', ZP), 0xb6: ('LDX', ZPY), 0xae: ('LDX', ABS), 0xbe: ('LDX', ABY),
    0xa0: ('LDY', IMM), 0xa4: ('LDY', ZP), 0xb4: ('LDY', ZPX), 0xac: ('LDY', ABS), 0xbc: ('LDY', ABX),
    0xea: ('NOP', IMP), 0x48: ('PHA', IMP), 0x08: ('PHP', IMP), 0x68: ('PLA', IMP), 0x28: ('PLP', IMP),
    0x40: ('RTI', IMP), 0x60: ('RTS', IMP), 0x38: ('SEC', IMP), 0xf8: ('SED', IMP), 0x78: ('SEI', IMP),
    0x86: ('STX', ZP), 0x96: ('STX', ZPY), 0x8e: ('STX', ABS), 0x84: ('STY', ZP), 0x94: ('STY', ZPX), 0x8c: ('STY', ABS),
    0xaa: ('TAX', IMP), 0xa8: ('TAY', IMP), 0xba: ('TSX', IMP), 0x8a: ('TXA', IMP), 0x9a: ('TXS', IMP), 0x98: ('TYA', IMP),
})
assert len(ISA) == 151, len(ISA)


def _enum_name(n):
    x = strip(n, casts=True)
    while x['k'] not in ('DeclRefExpr',) and kids(x):
        x = strip(kids(x)[0], casts=True)
    return x.get('n')


def oracle(prog):
    rows, fields, g = tables.rows(prog, 'table_6502_opcodes')
    if len(rows) != 256:
        raise AnalysisBroken('T-ORACLE(6502): table_6502_opcodes has %d rows' % len(rows))
    obs = []
    for op in sorted(ISA):
        mn, mode = ISA[op]
        r = rows[op]
        got_i, got_m = _enum_name(r['instr']), _enum_name(r['op'])
        ok = got_i == 'M65XX_' + mn and got_m == mode
        obs.append(Ob('T-ORACLE', g['file'], r['instr']['l'], 'table_6502_opcodes', 'opcode:%02x' % op, DISCHARGED if ok else VIOLATED,
                      '' if ok else 'opcode $%02X is %s %s in the 6502 instruction set, the table says %s %s' % (op, mn, mode, got_i, got_m),
                      '%s %s' % (mn, mode)))
    # an NMOS mnemonic/mode pair must select one opcode only: the assembler searches the table by (mnemonic, mode)
    seen = {}
    for i, r in enumerate(rows):
        key = (_enum_name(r['instr']), _enum_name(r['op']))
        if key[0] == 'M65XX_ERROR':
            continue
        seen.setdefault(key, []).append(i)
    for op in sorted(ISA):
        mn, mode = ISA[op]
        dup = [i for i in seen.get(('M65XX_' + mn, mode), []) if i != op]
        if dup:
            obs.append(Ob('T-ORACLE', g['file'], rows[op]['instr']['l'], 'table_6502_opcodes', 'unique:%02x' % op, VIOLATED,
                          '%s %s is also listed at opcode(s) %s: the assembler emits whichever comes first' % (mn, mode, ['$%02X' % d for d in dup])))
    # instruction lengths per addressing mode
    for file in ('asm/6502.cpp', 'disasm/6502.cpp'):
        gl = [x for x in prog.globals.get('op_bytes', []) if x['file'] == file]
        if not gl:
            raise AnalysisBroken('T-ORACLE(6502): op_bytes not found in %s' % file)
        vals = [const(x) for x in kids(strip(gl[0]['init']))]
        # enumerators of the addressing-mode enum, in order
        names = _mode_names(prog)
        bad = []
        for i, nm in enumerate(names):
            if i < len(vals) and nm in LEN and vals[i] != LEN[nm]:
                bad.append('%s is %d bytes, op_bytes says %s' % (nm, LEN[nm], vals[i]))
        obs.append(Ob('T-LEN', file, gl[0].get('line', 0), 'op_bytes', 'mode-lengths', VIOLATED if bad or len(vals) != len(names) else DISCHARGED,
                      '; '.join(bad) or ('%d lengths for %d modes' % (len(vals), len(names)) if len(vals) != len(names) else ''),
                      '%d addressing-mode lengths agree with the instruction set' % len(names)))
    return RuleResult('T-ORACLE(6502)', obs, 150, {})


def _mode_names(prog):
    for key, e in prog.enums.items():
        names = [c[0] for c in e.get('consts', [])]
        if 'OP_ADDRESS8_RELATIVE' in names and 'OP_X_INDIRECT8' in names and e.get('file', '').endswith('table/6502.h'):
            return names
    raise AnalysisBroken('T-ORACLE(6502): addressing-mode enum not found')

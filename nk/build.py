"""Unit list, compile flags, and cached fact extraction (E1) for /repo's working tree.

Everything is derived from the *current* source under REPO on every run.  The
cache is keyed by the content hash of the unit, of every repo header, and of
the extractor binary, so a cached file is exactly what a fresh extraction of
the same bytes would produce."""
import glob
import hashlib
import json
import os
import subprocess
import sys
from concurrent.futures import ThreadPoolExecutor

REPO = os.environ.get('NK_REPO', '/repo')
VERIF = os.path.dirname(os.path.dirname(os.path.abspath(__file__)))
CACHE = os.path.join(VERIF, '.cache')
NKFACTS = os.path.join(VERIF, 'tools', 'nkfacts')
GUARD = 'NAKEN_ASM_VERIF'
FLAGS = ['-std=gnu++17', '-I' + REPO, '-DREADLINE', '-UNDEBUG', '-D' + GUARD,
         '-DINCLUDE_PATH="/usr/local/share/naken_asm/include"', '-w']
DIRS = ['asm', 'common', 'core', 'disasm', 'fileio', 'simulate', 'table']
MAINS = ['main/naken_asm.cpp', 'main/naken_util.cpp']


class AnalysisBroken(Exception):
    """Raised when the analysis cannot be carried out (exit 2)."""


def units():
    """All translation units of the build, relative to REPO.

    The unit list is the set of .cpp files in the build's source directories
    (the generated config.mak lists exactly these; when config.mak is present
    the two are compared and a mismatch is analysis-broken)."""
    out = []
    for d in DIRS:
        out += sorted(os.path.relpath(p, REPO) for p in glob.glob(os.path.join(REPO, d, '*.cpp')))
    cm = os.path.join(REPO, 'config.mak')
    if os.path.exists(cm):
        import re
        objs = set(re.findall(r'([a-z]+/[A-Za-z0-9_]+)\.o', open(cm).read()))
        missing = [o + '.cpp' for o in objs if o + '.cpp' not in out]
        if missing:
            raise AnalysisBroken('config.mak names units that do not exist: %s' % missing[:5])
    for m in MAINS:
        if not os.path.exists(os.path.join(REPO, m)):
            raise AnalysisBroken('missing %s' % m)
        out.append(m)
    return out


_hdr_hash = None


def header_hash():
    global _hdr_hash
    if _hdr_hash is None:
        h = hashlib.sha1()
        for p in sorted(glob.glob(os.path.join(REPO, '*', '*.h'))):
            h.update(os.path.relpath(p, REPO).encode())
            h.update(open(p, 'rb').read())
        h.update(open(NKFACTS, 'rb').read() if os.path.exists(NKFACTS) else b'')
        h.update(' '.join(FLAGS).replace(REPO, '<repo>').encode())
        _hdr_hash = h.hexdigest()
    return _hdr_hash


def _key(unit, kind):
    h = hashlib.sha1()
    h.update(header_hash().encode())
    h.update(kind.encode())
    h.update(unit.encode())
    h.update(open(os.path.join(REPO, unit), 'rb').read())
    return h.hexdigest()


def _extract_one(unit):
    os.makedirs(os.path.join(CACHE, 'facts'), exist_ok=True)
    out = os.path.join(CACHE, 'facts', _key(unit, 'facts') + '.json')
    if os.path.exists(out) and os.path.getsize(out) > 0:
        return unit, out, None
    tmp = out + '.tmp%d' % os.getpid()
    cmd = [NKFACTS, '--out=' + tmp, '--root=' + REPO, os.path.join(REPO, unit), '--'] + FLAGS
    p = subprocess.run(cmd, stdout=subprocess.PIPE, stderr=subprocess.PIPE, text=True)
    if p.returncode != 0 or not os.path.exists(tmp):
        return unit, None, (p.stderr or p.stdout)[-2000:]
    os.replace(tmp, out)
    return unit, out, None


def extract(unit_list=None, jobs=16):
    """Run nkfacts over the units; returns {unit: path-to-json}."""
    if not os.path.exists(NKFACTS):
        raise AnalysisBroken('nkfacts not built: run ./setup.sh')
    if unit_list is None:
        unit_list = units()
    res = {}
    with ThreadPoolExecutor(max_workers=jobs) as ex:
        for unit, path, err in ex.map(_extract_one, unit_list):
            if err is not None:
                raise AnalysisBroken('unit %s failed to parse:\n%s' % (unit, err))
            res[unit] = path
    return res


def prune_cache(keep_mb=1500):
    """Keep the cache bounded."""
    files = []
    for root, _, names in os.walk(CACHE):
        for n in names:
            p = os.path.join(root, n)
            try:
                st = os.stat(p)
                files.append((st.st_mtime, st.st_size, p))
            except OSError:
                pass
    files.sort(reverse=True)
    tot = 0
    for _, sz, p in files:
        tot += sz
        if tot > keep_mb * 1e6:
            try:
                os.remove(p)
            except OSError:
                pass

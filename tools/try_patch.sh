#!/bin/sh
# try_patch.sh <patch.diff> <PROP>... : run checks against a scratch copy of /repo with the patch applied
p="$1"; shift
t=$(mktemp -d /tmp/nktry-XXXXXX)
rsync -a --exclude .git --exclude 'build/*/' --exclude '*.o' --exclude '*.a' /repo/ $t/repo/
if ! patch -p1 -s -d $t/repo -i "$(realpath $p)"; then echo "PATCH-DOES-NOT-APPLY"; rm -rf $t; exit 3; fi
rc=0
for prop in "$@"; do
  NK_REPO=$t/repo NK_NO_EVIDENCE=1 /verif/check $prop | grep -v "^KNOWN-FINDING" | tail -${TAIL:-12}
  echo "== $prop exit=$?"
done
rm -rf $t

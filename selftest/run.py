#!/usr/bin/env python3
"""Self-test of the checkers: every selftest/*.patch is applied to a scratch copy of /repo (outside /repo and
/verif, removed afterwards) and the named check must fire (exit 1, report containing `expect`) or, for
patches marked `silent`, stay at exit 0.

patch header lines:  #property: C01   #expect: <substring of the report>   #silent   #note: …"""
import glob
import os
import shutil
import subprocess
import sys
import tempfile

HERE = os.path.dirname(os.path.abspath(__file__))
VERIF = os.path.dirname(HERE)


def main():
    pats = [os.path.abspath(x) for x in sys.argv[1:]] or sorted(glob.glob(os.path.join(HERE, '*.patch')))
    failed = 0
    for p in pats:
        meta = {'property': None, 'expect': [], 'silent': False}
        for line in open(p):
            if line.startswith('#property:'):
                meta['property'] = line.split(':', 1)[1].strip().split()
            elif line.startswith('#expect:'):
                meta['expect'].append(line.split(':', 1)[1].strip())
            elif line.startswith('#silent'):
                meta['silent'] = True
        tmp = tempfile.mkdtemp(prefix='nkself-')
        try:
            repo = os.path.join(tmp, 'repo')
            subprocess.run(['rsync', '-a', '--exclude', '.git', '--exclude', 'build/*/', '--exclude', '*.o',
                            '--exclude', '*.a', '/repo/', repo + '/'], check=True)
            r = subprocess.run(['patch', '-p1', '-s', '-d', repo, '-i', p], capture_output=True, text=True)
            if r.returncode != 0:
                print('FAIL %s: patch does not apply: %s' % (os.path.basename(p), r.stdout + r.stderr))
                failed += 1
                continue
            for prop in meta['property']:
                env = dict(os.environ, NK_REPO=repo, NK_NO_EVIDENCE='1')
                r = subprocess.run([os.path.join(VERIF, 'check'), prop], capture_output=True, text=True, env=env,
                                   cwd=VERIF)
                out = r.stdout + r.stderr
                if meta['silent']:
                    ok = r.returncode == 0
                else:
                    ok = r.returncode == 1 and all(e in out for e in meta['expect'])
                print('%s %s [%s] exit=%d' % ('ok  ' if ok else 'FAIL', os.path.basename(p), prop, r.returncode))
                if not ok:
                    failed += 1
                    print('\n'.join(out.splitlines()[-15:]))
        finally:
            shutil.rmtree(tmp, ignore_errors=True)
    print('selftest: %d failed' % failed)
    return 1 if failed else 0


if __name__ == '__main__':
    sys.exit(main())

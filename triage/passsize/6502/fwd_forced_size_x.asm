; 6502: forward reference with a forced zero-page size (.b suffix or '<'
; modifier) and ,x indexing.  Pass 1 takes 3 bytes, pass 2 takes 2 bytes.
.6502
.org 0x1000
start:
  lda.b table,x
after:
  nop
  rts
.org 0x80
table:
  db 1, 2, 3

"""Determinism / effect rules: R-NDET, R-GLOB, R-PURE, R-OPT, FRESH (fresh context per interactive assembly)."""
from nk.facts import kids, strip, const, callee, ckey, call_args, show, walk, lvalue_root
from nk import tables
from nk.report import Ob, RuleResult, DISCHARGED, VIOLATED, OBSERVATION
from nk.build import AnalysisBroken

NDET = ('time', 'localtime', 'gmtime', 'clock', 'rand', 'random', 'srand', 'getpid', 'getenv', 'gettimeofday',
        'clock_gettime', 'std::rand', 'drand48', 'mktemp', 'tmpnam')
NDET_ALLOWED = {'write_srec_header@fileio/write_srec.cpp': 'S0 header timestamp: the exception named by the property',
                'write_srec_header': 'S0 header timestamp: the exception named by the property'}
IMAGE_SINKS = ('Memory::write8', 'Memory::write', 'Memory::write16', 'Memory::write32', 'Memory::write_debug',
               'AsmContext::memory_write', 'AsmContext::memory_write_inc', 'add_bin8', 'add_bin16', 'add_bin32',
               'Symbols::append', 'Symbols::set', 'macros_append', 'tokens_get', 'tokens_get_char', 'tokens_push',
               'AsmContext::set_org', 'Symbols::scope_reset', 'Symbols::lock', 'AsmContext::init')


def ndet(prog, cg, roots):
    """R-NDET: sources of nondeterminism are called only from the named exception."""
    reach = cg.reachable(roots)
    obs = []
    for q in sorted(reach):
        fn = prog.by_key.get(q)
        if fn is None or fn.file.startswith('simulate/'):
            continue
        hits = [c for c in fn.calls() if (callee(c) or '') in NDET]
        # %p formatting
        for c in fn.calls():
            if callee(c) in ('printf', 'fprintf', 'snprintf', 'sprintf'):
                for a in call_args(c):
                    s = strip(a, casts=True)
                    if s['k'] == 'StringLiteral' and '%p' in (s.get('s') or '') and 'dump' not in fn.name:
                        hits.append(c)
        for c in hits:
            ok = q in NDET_ALLOWED
            obs.append(Ob('R-NDET', fn.file, c['l'], fn.q, 'call:' + (callee(c) or '?'), DISCHARGED if ok else VIOLATED,
                          '' if ok else 'function reachable from the assembler calls %s: output depends on something other than the '
                          'source' % callee(c), NDET_ALLOWED.get(q, ''), False))
    if not obs:
        raise AnalysisBroken('R-NDET: the time() call of write_srec_header was not found (positive control)')
    return RuleResult('R-NDET', obs, 1, {'functions': len(reach)})


GLOB_ALLOWED = {'Simulate::stop_running': 'signal flag of the simulator', 'command_name_generator': 'readline completion cursor'}


def glob(prog):
    """R-GLOB: no function of asm/, core/, disasm/, table/, fileio/, common/ stores to a variable with static
    storage (hidden state shared between assemblies in one process)."""
    obs = []
    n_ok = 0
    for name, lst in sorted(prog.global_writes().items()):
        for fn, n in lst:
            if not fn.file.startswith(('asm/', 'core/', 'disasm/', 'table/', 'fileio/', 'common/', 'main/', 'simulate/')):
                continue
            allowed = name in GLOB_ALLOWED or fn.name in GLOB_ALLOWED or fn.file.startswith(('main/', 'simulate/'))
            obs.append(Ob('R-GLOB', fn.file, n['l'], fn.q, 'store:' + name, DISCHARGED if allowed else VIOLATED,
                          '' if allowed else 'store to static-storage variable `%s`: state survives from one assembly/disassembly to '
                          'the next in the same process' % name, 'allowed: ' + GLOB_ALLOWED.get(name, GLOB_ALLOWED.get(fn.name, 'driver-level state')), False))
    # the rule's expected count outside main/simulate is zero: positive control = the global-store index itself works
    total_fns = len(prog.fns)
    obs.append(Ob('R-GLOB', 'core/', 0, '*', 'scan', DISCHARGED, '', 'scanned %d functions for stores rooted at static-storage variables' % total_fns, False))
    return RuleResult('R-GLOB', obs, 1, {})


def pure(prog, cg):
    """R-PURE: everything reachable from list_output_*, disasm_range_*, disasm_* only reads the image."""
    from rules.tbl import cpu_rows
    rows, _, g = cpu_rows(prog)
    roots = set()
    for r in rows:
        for col in ('list_output', 'disasm_range'):
            f = tables.funcref(r[col])
            if f:
                roots.add(f)
    reach = cg.reachable(roots)
    obs = []
    forbidden = ('Memory::write8', 'Memory::write', 'Memory::write16', 'Memory::write32', 'Memory::write_debug',
                 'AsmContext::memory_write', 'AsmContext::memory_write_inc', 'add_bin8', 'add_bin16', 'add_bin32',
                 'Symbols::append', 'Symbols::set', 'AsmContext::set_org', 'Memory::clear')
    for q in sorted(reach):
        fn = prog.by_key.get(q)
        if fn is None or not fn.file.startswith('disasm/'):
            continue
        bad = []
        for c in fn.calls():
            if callee(c) in forbidden:
                bad.append('calls %s at line %d' % (callee(c), c['l']))
        for n in fn.nodes.values():
            t = None
            if n['k'] in ('BinaryOperator', 'CompoundAssignOperator') and n.get('op', '').endswith('=') and \
                    n['op'] not in ('==', '!=', '<=', '>='):
                t = strip(kids(n)[0])
            elif n['k'] == 'UnaryOperator' and n.get('op') in ('++', '--'):
                t = strip(kids(n)[0])
            if t is None:
                continue
            if t['k'] == 'MemberExpr' and t.get('rec') in ('AsmContext', 'Memory', 'MemoryPage', 'Symbols', 'Tokens'):
                bad.append('stores to %s::%s at line %d' % (t['rec'], t['n'], n['l']))
            r0 = lvalue_root(t)
            if r0 is not None and r0['k'] == 'DeclRefExpr' and r0.get('dk') in ('global', 'slocal'):
                bad.append('stores to static `%s` at line %d' % (r0['n'], n['l']))
        obs.append(Ob('R-PURE', fn.file, fn.line, fn.q, 'read-only', VIOLATED if bad else DISCHARGED,
                      '; '.join(bad[:3]), 'no image/symbol/context store, no static store', False))
    return RuleResult('R-PURE', obs, 150, {'roots': len(roots)})


OPTION_FIELDS = ('quiet_output', 'dump_symbols', 'dump_macros', 'list', 'write_list_file')


INPUT_LIBC = ('fgets', 'getc', 'fgetc', 'fread', 'ungetc', 'fseek', 'fscanf', 'getline', 'rewind', 'fsetpos', 'getchar')


def opt(prog, cg):
    """R-OPT: a branch whose condition reads a reporting option (quiet_output, dump_symbols, dump_macros, list,
    write_list_file, main's create_list) controls only reporting: no statement that is control-dependent on the branch
    (CFG post-dominance, so code skipped by an early return counts) can reach a function that writes the image / symbols
    or consumes input (the tokeniser entry points and the libc readers), except the CPU's list_output formatter."""
    from nk.cfg import dominators
    obs = []
    sink_cache = {}

    def reaches_sink(key):
        if key not in sink_cache:
            r = cg.reachable([key])
            sink_cache[key] = sorted(x for x in r if x in IMAGE_SINKS)
        return sink_cache[key]
    for fn in prog.functions(lambda f: f.file.startswith(('core/', 'main/naken_asm', 'asm/'))):
        if not fn.blocks:
            continue
        k = 0
        pdom = None
        for bid in sorted(fn.blocks):
            b = fn.blocks[bid]
            cond = fn.nodes.get(b.get('cond')) if 'cond' in b else None
            if cond is None or len([x for x in b['s'] if x is not None]) < 2:
                continue
            reads = {x['n'] for x in walk(cond) if (x['k'] == 'MemberExpr' and x['n'] in OPTION_FIELDS and x.get('rec') == 'AsmContext')
                     or (x['k'] == 'DeclRefExpr' and x['n'] == 'create_list')}
            if not reads:
                continue
            k += 1
            if pdom is None:
                pdom = dominators(fn, post=True, ignore_abort=True)
            controlled = set()
            for s_ in b['s']:
                if s_ is None:
                    continue
                for x in fn.blocks:
                    # x post-dominates the successor but not the branch itself
                    if x in pdom.get(s_, ()) and x not in pdom.get(bid, ()) and x != bid:
                        controlled.add(x)
            bad = []
            for cb in sorted(controlled):
                for e in fn.blocks[cb]['e']:
                    x = fn.nodes.get(e)
                    if x is None:
                        continue
                    if x['k'] in ('CallExpr', 'CXXMemberCallExpr'):
                        ck = ckey(x)
                        if ck is None:
                            if callee(x) in INPUT_LIBC:
                                bad.append('%s() consumes input at line %d' % (callee(x), x['l']))
                                continue
                            if callee(x):
                                continue        # other library function
                            tgt = strip(kids(x)[0], casts=True)
                            if tgt.get('n') == 'list_output':
                                continue
                            bad.append('indirect call at line %d' % x['l'])
                        elif ck in IMAGE_SINKS or reaches_sink(ck):
                            bad.append('%s (reaches %s) at line %d' % (ck, (reaches_sink(ck) or [ck])[0], x['l']))
                    elif x['k'] in ('BinaryOperator', 'CompoundAssignOperator') and x.get('op', '').endswith('=') and \
                            x['op'] not in ('==', '!=', '<=', '>='):
                        t = strip(kids(x)[0])
                        if t['k'] == 'MemberExpr' and t.get('rec') in ('AsmContext', 'Memory', 'Symbols') and \
                                t['n'] not in ('write_list_file', 'list'):
                            bad.append('assigns %s::%s at line %d' % (t['rec'], t['n'], x['l']))
            obs.append(Ob('R-OPT', fn.file, cond['l'], fn.q, 'option-branch#%d:%s' % (k, '+'.join(sorted(reads))),
                          VIOLATED if bad else DISCHARGED,
                          'statements controlled by a reporting option affect assembly: ' + '; '.join(bad[:3]) if bad else '',
                          'controls only reporting statements (%d control-dependent blocks)' % len(controlled)))
    # the handlers that *set* a reporting option (command line parsing): the statements that run together with the
    # assignment of the option do nothing else to the assembler (no call into the repo, no store to other state)
    for fn in prog.functions(lambda f: f.file.startswith('main/naken_asm')):
        if not fn.blocks:
            continue
        hk = 0
        for n in sorted(fn.nodes.values(), key=lambda x: x['i']):
            if n['k'] != 'IfStmt':
                continue
            ks = [x for x in kids(n) if x is not None]
            if len(ks) < 2:
                continue
            then = ks[1]
            sets = [x for x in walk(then) if x['k'] == 'BinaryOperator' and x.get('op') == '=' and
                    strip(kids(x)[0])['k'] == 'MemberExpr' and strip(kids(x)[0]).get('n') in OPTION_FIELDS and
                    strip(kids(x)[0]).get('rec') == 'AsmContext']
            # only the innermost if that holds the assignment directly
            if not sets or any(y['k'] == 'IfStmt' and any(z['i'] == sets[0]['i'] for z in walk(y)) for y in walk(then) if y is not then):
                continue
            hk += 1
            bad = []
            for x in walk(then):
                if x['k'] in ('CallExpr', 'CXXMemberCallExpr') and ckey(x) in prog.by_key and \
                        not prog.by_key[ckey(x)].file.startswith('main/naken_asm'):
                    bad.append('calls %s at line %d' % (ckey(x), x['l']))
                elif x['k'] in ('BinaryOperator', 'CompoundAssignOperator') and x.get('op', '').endswith('=') and \
                        x['op'] not in ('==', '!=', '<=', '>='):
                    t = strip(kids(x)[0])
                    if t['k'] == 'MemberExpr' and t.get('rec') in ('AsmContext', 'Memory', 'Symbols', 'Macros') and \
                            t['n'] not in OPTION_FIELDS:
                        bad.append('assigns %s::%s at line %d' % (t['rec'], t['n'], x['l']))
            opts = '+'.join(sorted({strip(kids(x)[0]).get('n') for x in sets}))
            obs.append(Ob('R-OPT', fn.file, n['l'], fn.q, 'option-handler#%d:%s' % (hk, opts), VIOLATED if bad else DISCHARGED,
                          'the command line handler of the reporting option %s also changes the assembler: %s' % (opts, '; '.join(bad[:3])) if bad else '',
                          'the handler only records the option', False))
    return RuleResult('R-OPT', obs, 8, {})


def fresh(prog):
    """FRESH: naken_util's assemble_code() builds its AsmContext locally (automatic storage) and copies only the
    [low, high] image range into the shared memory."""
    fn = prog.fn('assemble_code')
    local_ctx = False
    for n in fn.nodes.values():
        if n['k'] == 'DeclStmt':
            for d in n.get('decls', ()):
                if fn.types[d['t']] == 'AsmContext' and not d.get('static'):
                    local_ctx = True
    writes = [c for c in fn.calls() if callee(c) in ('Memory::write8',)]
    ok = local_ctx and len(writes) == 1
    obs = [Ob('FRESH', fn.file, fn.line, fn.q, 'fresh-context', DISCHARGED if ok else VIOLATED,
              '' if ok else 'assemble_code no longer assembles into a fresh automatic AsmContext (state can leak between interactive asm commands)',
              'AsmContext is a local automatic object; one copy loop into the shared memory', False)]
    return RuleResult('FRESH', obs, 1, {})


OUT_NAME_OK = ('fopen', 'printf', 'fprintf', 'unlink', 'remove', 'strlen', 'strcmp', 'strcasecmp', 'strrchr', 'strchr', 'perror',
               'FileIo::open_for_writing', 'FileIo::open')


def outname(prog):
    """OUT-NAME: the output file name (main's `outfile`, file_write's `filename` parameter and every buffer it is copied
    to) is only opened, printed, compared or deleted: it is never handed to a function that writes file contents, and no
    byte of it is stored anywhere else, so the bytes written cannot depend on the name of the output file."""
    main = prog.fn('main', 'main/naken_asm.cpp')
    src = [n for n in main.nodes.values() if n['k'] == 'DeclStmt' and any(d['n'] == 'outfile' for d in n.get('decls', ()))]
    if not src:
        raise AnalysisBroken('OUT-NAME: main() has no `outfile` variable')
    d0 = [d for n in src for d in n['decls'] if d['n'] == 'outfile'][0]
    work = [(main, d0['d'], 'outfile', 'main:outfile')]
    seen = set()
    obs = []
    n_uses = 0
    while work:
        fn, decl, name, via = work.pop()
        if (fn.key, decl) in seen:
            continue
        seen.add((fn.key, decl))
        bad = []
        for n in sorted(fn.nodes.values(), key=lambda x: x['i']):
            if n['k'] != 'DeclRefExpr' or n.get('d') != decl:
                continue
            n_uses += 1
            p = fn.parent.get(n['i'])
            while p is not None and p['k'] in ('ImplicitCastExpr', 'ParenExpr', 'CStyleCastExpr'):
                p = fn.parent.get(p['i'])
            if p is None:
                continue
            if p['k'] == 'BinaryOperator' and p.get('op') in ('=', '==', '!='):
                l = strip(kids(p)[0], casts=True)
                if p['op'] != '=' or l.get('d') == decl:
                    continue          # assignment to the variable itself, or a null test
                bad.append('line %d: `%s` stores the output name elsewhere' % (p['l'], show(p)[:50]))
                continue
            if p['k'] in ('CallExpr', 'CXXMemberCallExpr'):
                q = callee(p)
                args = call_args(p)
                pos = [i for i, a in enumerate(args) if strip(a, casts=True).get('d') == decl and strip(a, casts=True)['k'] == 'DeclRefExpr']
                if q in ('strcpy', 'strncpy', 'strcat', 'snprintf', 'sprintf', 'new_extension'):
                    if pos and pos[0] == 0:
                        continue      # the buffer itself is the destination / edited in place
                    dst = strip(args[0], casts=True)
                    if dst['k'] == 'DeclRefExpr' and dst.get('dk') != 'param' and dst.get('d') is not None:
                        work.append((fn, dst['d'], dst['n'], via + ' -> %s:%s' % (fn.q, dst['n'])))
                        continue
                    bad.append('line %d: copied into `%s`' % (p['l'], show(args[0])[:30]))
                    continue
                if q in OUT_NAME_OK:
                    continue
                ck = ckey(p)
                tgt = prog.by_key.get(ck) if ck else None
                if tgt is not None and pos:
                    ps = tgt.params()
                    for i in pos:
                        # member calls: call_args excludes the object
                        if i < len(ps):
                            work.append((tgt, ps[i]['d'], ps[i]['n'], via + ' -> %s:%d %s(%s)' % (fn.file, p['l'], tgt.q, ps[i]['n'])))
                    continue
                bad.append('line %d: passed to %s()' % (p['l'], q or 'an indirect call'))
                continue
            if p['k'] in ('IfStmt', 'UnaryOperator', 'ConditionalOperator', 'DeclStmt', 'ReturnStmt'):
                if p['k'] == 'UnaryOperator' and p.get('op') == '*':
                    bad.append('line %d: the characters of the name are read (`%s`)' % (p['l'], show(fn.parent.get(p['i']) or p)[:40]))
                    continue
                if p['k'] in ('ReturnStmt', 'DeclStmt'):
                    bad.append('line %d: the name escapes through `%s`' % (p['l'], show(p)[:40]))
                continue
            bad.append('line %d: used in `%s`' % (p['l'], show(p)[:50]))
        obs.append(Ob('OUT-NAME', fn.file, fn.line, fn.q, 'name:%s' % name, VIOLATED if bad else DISCHARGED,
                      'the output file name reaches file contents or state (flow: %s): ' % via + '; '.join(bad[:3]) if bad else '',
                      'only opened / printed / compared / deleted'))
    # the flow must have reached file_write (otherwise the anchor moved)
    if not any(o.function == 'file_write' for o in obs):
        raise AnalysisBroken('OUT-NAME: the output name was not followed into file_write()')
    return RuleResult('OUT-NAME', obs, 3, {'uses': n_uses})

.68000
  move.w (-32768), d0
  move.w (-1), d0
  move.w (0xffff), d0
  move.w (0x1234), d0
  move.w (0x10000), d0
  tst.w (-32768)
  jmp (0x8000)
  move.w d0, (-2)

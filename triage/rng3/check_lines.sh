#!/bin/sh
# usage: check_lines.sh <binary> <cpu directive> <file with one source line per row>
# assembles every row on its own (label here: at 0x10000) and prints error or encoding
bin=$1
cpu=$2
while IFS= read -r op
do
  printf "%s\n.org 0x10000\nhere: %s\n" "$cpu" "$op" > /tmp/rg3/out/_one.asm
  if $bin -l -o /tmp/rg3/out/_one.hex /tmp/rg3/out/_one.asm > /tmp/rg3/out/_one.log 2>&1
  then
    echo "ACCEPTED: $op"
    grep -A1 "^0x" /tmp/rg3/out/_one.lst | grep -v "^--" | grep -v "^$"
  else
    echo "REJECTED: $op -- $(grep -i '^error' /tmp/rg3/out/_one.log | head -1)"
  fi
done < "$3"

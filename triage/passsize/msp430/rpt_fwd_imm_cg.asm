.msp430x
.org 0x8000
start:
  rpt #3, add.w #fwd, r5
after:
  nop
  rpt #5, add.w #fwd4, r5
after2:
  nop
fwd:
  nop
.set fwd4=4

"""COND-MAP (C01): for an operand type with an arm in both parse_instruction_X and disasm_X, a two-way mapping written as a
conditional on each side agrees: the assembler arm (or the helper it delegates to) contains  (s == E) ? c1 : c2  with E an
enumerator and c1, c2 constants (size suffix -> field value), the decoder arm  (f == c) ? Ea : Eb  with enumerator results
(field value -> size suffix).  The decoder must map c1 back to E:  (c1 == c and Ea == E) or (c1 != c and Eb == E)."""
from nk.facts import kids, strip, const, callee, ckey, show, walk
from nk.report import Ob, RuleResult, DISCHARGED, VIOLATED
from nk.build import AnalysisBroken
from rules.caselen import _switches, _cases, _table


def _enum(n):
    n = strip(n, casts=True)
    return n['n'] if n is not None and n['k'] == 'DeclRefExpr' and n.get('dk') == 'enum' else None


def _conds(nodes):
    a2, d2 = [], []
    for x in nodes:
        if x['k'] != 'ConditionalOperator':
            continue
        c, t, f = kids(x)
        c = strip(c, casts=True)
        if c['k'] != 'BinaryOperator' or c.get('op') != '==':
            continue
        l, r = kids(c)
        if _enum(r) and const(t) is not None and const(f) is not None and _enum(t) is None:
            a2.append((x, _enum(r), const(t), const(f)))
        elif const(r) is not None and _enum(r) is None and _enum(t) and _enum(f):
            d2.append((x, const(r), _enum(t), _enum(f)))
    return a2, d2


def cond_map(prog, floor=1):
    obs = []
    for afn in sorted(prog.fns.values(), key=lambda f: f.file):
        if not afn.file.startswith('asm/') or not afn.name.startswith('parse_instruction_'):
            continue
        cpu = afn.name[len('parse_instruction_'):]
        dfn = None
        for f in prog.fns.values():
            if f.file == 'disasm/%s' % afn.file.split('/')[1] and f.name == 'disasm_' + cpu:
                dfn = f
        if dfn is None:
            continue
        A, D = {}, {}
        for sw, txt in _switches(afn):
            for name, (ids, cns) in _cases(afn, sw).items():
                nodes = [afn.nodes[i] for i in ids if i in afn.nodes]
                # one level of delegation: helpers called from the arm
                for i in ids:
                    n = afn.nodes.get(i)
                    if n is not None and n['k'] == 'CallExpr' and ckey(n):
                        h = prog.by_key.get(ckey(n))
                        if h is not None and h.file == afn.file:
                            nodes.extend(h.nodes.values())
                a2, _ = _conds(nodes)
                if len(a2) == 1:
                    A[(_table(txt), name)] = a2[0]
        for sw, txt in _switches(dfn):
            for name, (ids, cns) in _cases(dfn, sw).items():
                _, d2 = _conds([dfn.nodes[i] for i in ids if i in dfn.nodes])
                if len(d2) == 1:
                    D[(_table(txt), name)] = d2[0]
        for key in sorted(set(A) & set(D)):
            xa, E, c1, c2 = A[key]
            xd, c, Ea, Eb = D[key]
            ok = (c1 == c and Ea == E) or (c1 != c and Eb == E)
            obs.append(Ob('COND-MAP', dfn.file, xd['l'], dfn.q, '%s:%s' % key, DISCHARGED if ok else VIOLATED,
                          '' if ok else 'the assembler encodes %s as %d (`%s`, %s:%d) but the decoder maps %d to %s (`%s`): the text '
                          'assembles to other bytes than the ones decoded' % (
                              E, c1, show(xa)[:40], afn.file, xa['l'], c1, Ea if c1 == c else Eb, show(xd)[:40]),
                          '%s <-> %d on both sides' % (E, c1), True))
    if len(obs) < floor:
        raise AnalysisBroken('COND-MAP: no operand type with a conditional mapping on both sides')
    return RuleResult('COND-MAP', obs, floor, {})

.java
.org 0x100
start:
  iload small
l1:
  iload big
l2:
  iinc small, 1
l3:
  iload 5
l4:
  iload 300
l5:
  iinc 5, k
l6:
  istore small
l7:
  nop
.set small=5
.set big=300
.set k=3

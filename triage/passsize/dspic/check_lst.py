import re,sys
lines=open(sys.argv[1]).read().split('\n')
lab_at={};pending=[]
for ln in lines:
    m=re.match(r'^(\w+):\s*$',ln)
    if m: pending.append(m.group(1)); continue
    m=re.match(r'^0x([0-9a-f]+):',ln)
    if m and pending:
        for p in pending: lab_at[p]=int(m.group(1),16)
        pending=[]
sym={}
for ln in lines:
    m=re.match(r'^\s+(\w+) ([0-9a-f]{8}) \d+$',ln)
    if m: sym[m.group(1)]=int(m.group(2),16)
bad=0
for k,v in lab_at.items():
    if k in sym and sym[k]!=v: print("MISMATCH",k,hex(sym[k]),hex(v)); bad+=1
print(len(lab_at),"labels checked,",bad,"mismatches")

.tms340
.org 0x1000
start:
  addi negval, a0   ; pass 1: negval unknown -> long form (6 bytes); pass 2: -5 fits 16 bits -> short form (4 bytes)
after:
  nop
  nop
.set negval = -5

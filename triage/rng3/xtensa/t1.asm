.xtensa
  addi.n a6, a10, 15
  addi.n a6, a10, -1
  addi.n a6, a10, 1
  movi.n a10, -32
  movi.n a10, 95
  movi.n a10, -1
  movi.n a10, 0
  slli a5, a3, 1
  slli a5, a3, 15
  slli a5, a3, 16
  slli a5, a3, 17
  slli a5, a3, 31
  srai a6, a11, 1
  srai a6, a11, 15
  srai a6, a11, 16
  srai a6, a11, 31

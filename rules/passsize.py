"""PASS-SIZE: a pass-2 decision that changes how many bytes an instruction occupies and that depends on a
symbol-derived value consults the pass-1 memo.

Two-pass consistency (C02) needs every instruction to advance the location counter by the same amount in both passes.
A value produced by eval_expression() is unknown in pass 1 when it contains a forward reference (eval fails, the
assemblers call ignore_operand() and continue with a placeholder), and known in pass 2.  The only channel by which pass 2
can learn that pass 1 did not know the value is the memo byte the assemblers write at the instruction's own address
(`memory_write(asm_context->address, flag)` in pass 1, `memory_read(asm_context->address)` in pass 2).  Therefore:

  a branch B, reachable in pass 2, whose condition reads a symbol-derived value and which controls emission
  (the add_bin calls executed, or a variable that a later emission-controlling branch reads)
  must be *covered*: its condition (or a branch it is nested in) reads the memo, or every variable it decides is
  re-decided later under a branch that reads the memo, or the decision is confined to pass 1.

The analysis is intra-procedural per function of asm/<cpu>.cpp with call summaries for taint sources:
  taint      flow-insensitive, keys are locals, parameters and record fields (by record.field)
  control    CFG control dependence (post-dominators) after deleting error arms (blocks that can only reach
             `return <negative constant>`): a range check followed by an error return decides nothing
  relevance  backward closure from the conditions controlling add_bin*/memory_write emission sites (and, in helper
             functions, stores through pointer parameters and returned values)."""
from nk.facts import kids, strip, const, ckey, call_args, show, walk
from nk.facts import callee as _callee


def callee(n):
    q = _callee(n)
    return q.split('(')[0] if q else q
from nk.report import Ob, RuleResult, DISCHARGED, VIOLATED, OBSERVATION
from nk.build import AnalysisBroken

EMIT = ('add_bin8', 'add_bin16', 'add_bin32', 'add_bin64', 'add_bin', 'AsmContext::memory_write_inc')
EVAL = ('eval_expression', 'eval_expression_ex', 'EvalExpression::run')
MEMO_READ = ('AsmContext::memory_read', 'AsmContext::memory_read_m', 'Memory::read8')


def key_of(fn, n):
    """Abstract storage key of an lvalue/rvalue expression (None when not a tracked storage)."""
    n = strip(n, casts=True)
    k = n['k']
    if k == 'DeclRefExpr':
        if n.get('dk') in ('enum', 'func'):
            return None
        return 'V:%s' % n.get('d')
    if k == 'MemberExpr':
        return 'F:%s.%s' % (n.get('rec'), n.get('n'))
    if k == 'ArraySubscriptExpr':
        return key_of(fn, kids(n)[0])
    if k == 'UnaryOperator' and n.get('op') in ('*', '&'):
        return key_of(fn, kids(n)[0])
    return None


def keys_read(fn, n, skip_calls=()):
    """Storage keys read anywhere inside expression n."""
    out = set()
    for x in walk(n):
        if x['k'] in ('DeclRefExpr', 'MemberExpr'):
            kk = key_of(fn, x)
            if kk:
                out.add(kk)
    return out


def value_keys(fn, n):
    """Keys whose *value* the expression reads, ignoring the out-arguments of eval_expression calls (a test of the
    evaluation's success is not a decision on the value)."""
    skip = set()
    for x in walk(n):
        if x['k'] in ('CallExpr', 'CXXMemberCallExpr') and callee(x) in EVAL:
            for y in walk(x):
                skip.add(y['i'])
    out = set()
    for x in walk(n):
        if x['i'] in skip:
            continue
        if x['k'] in ('DeclRefExpr', 'MemberExpr'):
            kk = key_of(fn, x)
            if kk:
                out.add(kk)
    return out


def pass2_blocks(fn):
    """Blocks reachable from the entry when asm_context->pass == 2 (pass tests followed on their pass-2 edge only).
    Locals that are stored only in blocks pass 2 cannot reach keep their constant initialiser in pass 2, so tests of
    such a local against a constant are resolved too (`int opcode = -1; if (pass == 1) opcode = n; ... if (opcode != -1)`);
    iterated to a fixpoint."""
    fixed = {}
    for _ in range(4):
        seen = _pass2_blocks(fn, fixed)
        # locals with a constant initialiser whose other stores are all outside `seen`
        init = {}
        stores = {}
        for n in fn.nodes.values():
            if n['k'] == 'DeclStmt':
                for d, i in zip([x for x in n.get('decls', ()) if x.get('init')], kids(n)):
                    if const(i) is not None:
                        init[d['d']] = const(i)
            tgt = None
            if n['k'] in ('BinaryOperator', 'CompoundAssignOperator') and (n.get('op') == '=' or (n.get('op', '').endswith('=') and n['op'] not in ('==', '!=', '<=', '>='))):
                tgt = strip(kids(n)[0])
            elif n['k'] == 'UnaryOperator' and n.get('op') in ('++', '--', '&'):
                tgt = strip(kids(n)[0])
            if tgt is not None and tgt['k'] == 'DeclRefExpr':
                w = fn.where.get(n['i'])
                stores.setdefault(tgt.get('d'), []).append(w[0] if w else None)
        new = {d: v for d, v in init.items() if all(b is not None and b not in seen for b in stores.get(d, []))
               and stores.get(d)}
        if new == fixed:
            return seen
        fixed = new
    return seen


def _pass2_blocks(fn, fixed):
    seen = set()
    st = [fn.entry]
    while st:
        b = st.pop()
        if b in seen:
            continue
        seen.add(b)
        bb = fn.blocks[b]
        cn = fn.nodes.get(bb.get('cond')) if 'cond' in bb else None
        sc = bb['s']
        if cn is not None and len(sc) == 2:
            c = strip(cn)
            # only the last operand of a && / || chain is this block's own test
            while c['k'] == 'BinaryOperator' and c.get('op') in ('&&', '||'):
                c = strip(kids(c)[1])
            g = _pass_guard(fn, c)
            if g == 1:
                nxt = [sc[1]]
            elif g == 2:
                nxt = [sc[0]]
            else:
                nxt = sc
                if fixed and c['k'] == 'BinaryOperator' and c.get('op') in ('==', '!=', '<', '>', '<=', '>='):
                    l, r = strip(kids(c)[0], casts=True), kids(c)[1]
                    if l['k'] == 'DeclRefExpr' and l.get('d') in fixed and const(r) is not None:
                        a_, b_ = fixed[l['d']], const(r)
                        t_ = {'==': a_ == b_, '!=': a_ != b_, '<': a_ < b_, '>': a_ > b_, '<=': a_ <= b_, '>=': a_ >= b_}[c['op']]
                        nxt = [sc[0]] if t_ else [sc[1]]
        else:
            nxt = sc
        st.extend(x for x in nxt if x is not None)
    return seen


class FnInfo:
    def __init__(self, prog, fn, summ):
        self.prog, self.fn, self.summ = prog, fn, summ
        self.summ = summ
        self.assigns = []      # (key, rhs node or None, stmt node, block)
        self.memo = set()
        self.taint = set()
        self._collect()

    def _collect(self):
        fn = self.fn
        for n in fn.nodes.values():
            w = fn.where.get(n['i'])
            if w is None and n['k'] != 'DeclStmt':
                continue
            if n['k'] in ('BinaryOperator', 'CompoundAssignOperator') and (n.get('op') == '=' or (n.get('op', '').endswith('=') and n['op'] not in ('==', '!=', '<=', '>='))):
                kk = key_of(fn, kids(n)[0])
                if kk and w:
                    self.assigns.append((kk, kids(n)[1], n, w[0]))
            elif n['k'] == 'UnaryOperator' and n.get('op') in ('++', '--'):
                kk = key_of(fn, kids(n)[0])
                if kk and w:
                    self.assigns.append((kk, None, n, w[0]))
            elif n['k'] == 'DeclStmt':
                w = fn.where.get(n['i'])
                for d, i in zip([x for x in n.get('decls', ()) if x.get('init')], kids(n)):
                    if w:
                        self.assigns.append(('V:%s' % d['d'], i, n, w[0]))
            elif n['k'] in ('CallExpr', 'CXXMemberCallExpr') and w:
                # `f(&x)`: the callee may store x
                for a in call_args(n):
                    a_ = strip(a, casts=True)
                    if a_['k'] == 'UnaryOperator' and a_.get('op') == '&':
                        kk = key_of(fn, kids(a_)[0])
                        if kk:
                            self.assigns.append((kk, None, a_, w[0]))

    def solve(self):
        fn = self.fn
        # seeds from calls
        for c in fn.calls():
            q = callee(c)
            ck = ckey(c)
            args = call_args(c)
            w = fn.where.get(c['i'])
            if q in EVAL:
                for a in args[1:]:
                    kk = key_of(fn, a)
                    if kk:
                        self.taint.add(kk)
            s_ = self.summ.get(ck)
            if s_:
                for i in s_.get('out', ()):
                    if i < len(args):
                        kk = key_of(fn, args[i])
                        if kk:
                            self.taint.add(kk)
                for i in s_.get('memo_out', ()):
                    if i < len(args):
                        kk = key_of(fn, args[i])
                        if kk:
                            self.memo.add(kk)
        changed = True
        while changed:
            changed = False
            for kk, rhs, st, b in self.assigns:
                if rhs is None:
                    continue
                if kk not in self.memo and self._is_memo_expr(rhs):
                    self.memo.add(kk)
                    changed = True
                if kk not in self.taint and self._is_taint_expr(rhs):
                    self.taint.add(kk)
                    changed = True

    def _is_memo_expr(self, e):
        for x in walk(e):
            if x['k'] in ('CallExpr', 'CXXMemberCallExpr'):
                if callee(x) in MEMO_READ:
                    return True
                s_ = self.summ.get(ckey(x))
                if s_ and s_.get('ret_memo'):
                    return True
        return bool(keys_read(self.fn, e) & self.memo)

    def _is_taint_expr(self, e):
        for x in walk(e):
            if x['k'] in ('CallExpr', 'CXXMemberCallExpr'):
                s_ = self.summ.get(ckey(x))
                if s_ and s_.get('ret'):
                    return True
        return bool(keys_read(self.fn, e) & self.taint)


def _error_dead(fn):
    """Blocks that cannot reach a non-error end of the function (they only lead to `return <negative>` / exit())."""
    good = set()
    for bid, b in fn.blocks.items():
        for e in b['e']:
            n = fn.nodes.get(e)
            if n is None:
                continue
            if n['k'] == 'ReturnStmt':
                v = const(kids(n)[0]) if kids(n) else None
                if not (v is not None and v < 0):
                    good.add(bid)
    # functions without return statements (void): falling into exit is good
    preds = fn.preds()
    for p in preds.get(fn.exit, ()):
        b = fn.blocks[p]
        if not any(fn.nodes.get(e) is not None and fn.nodes[e]['k'] == 'ReturnStmt' for e in b['e']):
            if not any(fn.nodes.get(e) is not None and fn.nodes[e]['k'] == 'CallExpr' and fn.nodes[e].get('callee') in ('exit', 'abort') for e in b['e']):
                good.add(p)
    live = set(good)
    st = list(good)
    while st:
        x = st.pop()
        for p in preds.get(x, ()):
            if p not in live:
                live.add(p)
                st.append(p)
    return set(fn.blocks) - live - {fn.exit}


def control_deps(fn, dead):
    """cd[b] = set of (branch block, successor) pairs b is control-dependent on, on the CFG without `dead` blocks."""
    blocks = [b for b in fn.blocks if b not in dead]
    succ = {b: [s for s in fn.succs(b) if s not in dead] for b in blocks}
    allb = set(blocks)
    pd = {b: set(allb) for b in blocks}
    pd[fn.exit] = {fn.exit}
    changed = True
    while changed:
        changed = False
        for b in blocks:
            if b == fn.exit:
                continue
            ps = [pd[s] for s in succ[b]]
            new = (set.intersection(*ps) if ps else set()) | {b}
            if new != pd[b]:
                pd[b] = new
                changed = True
    cd = {b: set() for b in blocks}
    for c in blocks:
        if len(succ[c]) < 2:
            continue
        for s in succ[c]:
            for x in pd[s]:
                if x not in pd[c] or x == c:
                    if x != c or True:
                        cd[x].add((c, s)) if x in cd else None
    return cd, succ


def file_field_taint(prog, files, summ):
    """{file: set of F:<record>.<field> keys that some function of the file assigns a symbol-derived value to};
    iterated, so a helper that copies operand->value into another record's field propagates the taint."""
    out = {}
    fns = [fn for fn in prog.fns.values() if fn.file in files and fn.blocks]
    for _ in range(4):
        changed = False
        for fn in fns:
            fi = FnInfo(prog, fn, summ)
            fi.taint |= out.get(fn.file, set())
            fi.solve()
            for kk in fi.taint:
                if kk.startswith('F:') and kk not in out.setdefault(fn.file, set()):
                    out[fn.file].add(kk)
                    changed = True
        if not changed:
            break
    return out


def summaries(prog, files):
    """Per function: pointer parameters that receive a symbol-derived value (out), whether the return value is
    symbol-derived (ret), pointer parameters / return that carry the memo."""
    summ = {}
    fns = [f for f in prog.fns.values() if f.file in files and f.blocks]
    for _ in range(4):
        changed = False
        for fn in fns:
            fi = FnInfo(prog, fn, summ)
            fi.solve()
            ps = fn.params()
            out = {i for i, p in enumerate(ps) if 'V:%s' % p['d'] in fi.taint and '*' in (fn.types[p['t']] if isinstance(p.get('t'), int) else '')}
            memo_out = {i for i, p in enumerate(ps) if 'V:%s' % p['d'] in fi.memo and '*' in (fn.types[p['t']] if isinstance(p.get('t'), int) else '')}
            ret = ret_memo = False
            for n in fn.nodes.values():
                if n['k'] == 'ReturnStmt' and kids(n):
                    if fi._is_taint_expr(kids(n)[0]):
                        ret = True
                    if fi._is_memo_expr(kids(n)[0]):
                        ret_memo = True
            new = {'out': out, 'ret': ret, 'memo_out': memo_out, 'ret_memo': ret_memo}
            if summ.get(fn.key) != new:
                summ[fn.key] = new
                changed = True
        if not changed:
            break
    return summ


def _pass_guard(fn, cond):
    """Returns 1 / 2 when the (rightmost operand of the) condition tests asm_context->pass == 1 / == 2 on its true
    edge, -1 / -2 for the false edge."""
    c = strip(cond)
    while c['k'] == 'BinaryOperator' and c.get('op') in ('&&',):
        # either conjunct being a pass test confines the true edge
        for kx in kids(c):
            g = _pass_guard(fn, kx)
            if g in (1, 2):
                return g
        return 0
    if c['k'] == 'BinaryOperator' and c.get('op') in ('==', '!='):
        l, r = strip(kids(c)[0], casts=True), kids(c)[1]
        if l['k'] == 'MemberExpr' and l.get('n') == 'pass' and const(r) in (1, 2):
            v = const(r)
            if c['op'] == '==':
                return v
            return 3 - v
    return 0


def analyse_function(prog, fn, summ, entry):
    """Returns the list of uncovered decisions: (cond node, decided keys, reason)."""
    fi = FnInfo(prog, fn, summ)
    fi.solve()
    dead = _error_dead(fn)
    cd, succ = control_deps(fn, dead)

    def cond_of(b):
        bb = fn.blocks[b]
        return fn.nodes.get(bb.get('cond')) if 'cond' in bb else None

    # emission sites
    emit_blocks = set()
    for c in fn.calls():
        q = callee(c)
        w = fn.where.get(c['i'])
        if w is None or w[0] in dead:
            continue
        s_ = summ.get(ckey(c))
        if q in EMIT or (s_ and s_.get('emits')):
            emit_blocks.add(w[0])
    sink_blocks = set(emit_blocks)
    rel_keys = set()
    if not entry:
        # helper: stores through pointer params / returned values are what the caller sizes with
        pk = {'V:%s' % p['d'] for p in fn.params() if '*' in (fn.types[p['t']] if isinstance(p.get('t'), int) else '')}
        for kk, rhs, st, b in fi.assigns:
            if kk in pk and b not in dead:
                sink_blocks.add(b)
                if rhs is not None:
                    rel_keys |= keys_read(fn, rhs)
        for n in fn.nodes.values():
            if n['k'] == 'ReturnStmt' and kids(n):
                w = fn.where.get(n['i'])
                v = const(kids(n)[0])
                if w and w[0] not in dead and not (v is not None and v < 0):
                    sink_blocks.add(w[0])
                    rel_keys |= keys_read(fn, kids(n)[0])
    # backward closure
    rel_branches = set()
    work = list(sink_blocks)
    seen_b = set()
    changed = True
    while changed:
        changed = False
        # blocks -> controlling branches
        while work:
            b = work.pop()
            if b in seen_b:
                continue
            seen_b.add(b)
            for (c, s) in cd.get(b, ()):
                if c not in rel_branches:
                    rel_branches.add(c)
                    changed = True
                    cn = cond_of(c)
                    if cn is not None:
                        rel_keys |= keys_read(fn, cn)
                    work.append(c)
        for kk, rhs, st, b in fi.assigns:
            if kk in rel_keys and b not in seen_b and b not in dead:
                work.append(b)
                changed = True
                if rhs is not None:
                    nk_ = keys_read(fn, rhs) - rel_keys
                    if nk_:
                        rel_keys |= nk_
            elif kk in rel_keys and rhs is not None:
                nk_ = keys_read(fn, rhs) - rel_keys
                if nk_:
                    rel_keys |= nk_
                    changed = True
    # decisions
    out = []
    for c in sorted(rel_branches):
        cn = cond_of(c)
        if cn is None:
            continue
        rd = keys_read(fn, cn)
        tk = rd & fi.taint
        if not tk:
            continue
        # memo in the condition itself
        if fi._is_memo_expr(cn):
            continue
        # nested in a memo branch or confined to pass 1
        covered = False
        stack = [c]
        seen = set()
        while stack and not covered:
            x = stack.pop()
            for (pc, ps) in cd.get(x, ()):
                if pc in seen:
                    continue
                seen.add(pc)
                pcn = cond_of(pc)
                if pcn is None:
                    continue
                if fi._is_memo_expr(pcn):
                    covered = True
                    break
                g = _pass_guard(fn, pcn)
                sc = succ[pc]
                if g and len(sc) == 2:
                    true_edge = (ps == sc[0])
                    if (g == 1 and true_edge) or (g == 2 and not true_edge):
                        covered = True
                        break
                stack.append(pc)
        if covered:
            continue
        # keys decided by this branch
        decided = set()
        direct_emit = False
        for b, deps in cd.items():
            if any(pc == c for pc, _ in deps):
                if b in emit_blocks:
                    direct_emit = True
                for kk, rhs, st, bb in fi.assigns:
                    if bb == b and kk in rel_keys:
                        decided.add(kk)
        # override: every decided key is re-assigned under a memo-reading branch
        if decided and not direct_emit:
            ok_all = True
            # blocks reachable from the decision (an override has to come after it)
            after = set()
            st_ = list(succ.get(c, ()))
            while st_:
                x_ = st_.pop()
                if x_ in after:
                    continue
                after.add(x_)
                st_.extend(succ.get(x_, ()))
            for kk in decided:
                ok = False
                for k2, rhs, st, bb in fi.assigns:
                    # record fields are shared by all operands (the analysis does not tell operands[0] from operands[1]): only a
                    # local variable can be said to be re-decided
                    if k2 != kk or bb not in after or kk.startswith('F:'):
                        continue
                    for (pc, ps) in cd.get(bb, ()):
                        pcn = cond_of(pc)
                        if pcn is not None and fi._is_memo_expr(pcn):
                            ok = True
                    if rhs is not None and fi._is_memo_expr(rhs):
                        ok = True
                if not ok:
                    ok_all = False
            if ok_all:
                continue
        out.append((cn, decided, direct_emit, tk))
    return out, fi, len(rel_branches)


def emit_summaries(prog, files, summ):
    """Mark functions that (transitively) emit."""
    fns = [f for f in prog.fns.values() if f.file in files and f.blocks]
    changed = True
    while changed:
        changed = False
        for fn in fns:
            s_ = summ.setdefault(fn.key, {})
            if s_.get('emits'):
                continue
            for c in fn.calls():
                if callee(c) in EMIT or summ.get(ckey(c), {}).get('emits'):
                    s_['emits'] = True
                    changed = True
                    break


class FlowTaint:
    """Flow-sensitive may-taint: which keys may hold a value produced by eval_expression at each program point.
    Locals are updated strongly (an assignment from an untainted expression clears them), fields and array elements
    weakly."""

    def __init__(self, fn, fi, tags=None):
        self.fn, self.fi, self.tags = fn, fi, tags
        self.inn = {}
        self._tagmemo = {}
        self._solve()

    def _tag_clean(self, x):
        """x is a `.value` read of an operand whose type tag, tested in the enclosing conditions, is only ever stored
        together with values that do not come from eval_expression (register numbers, condition codes)."""
        if self.tags is None or x['k'] != 'MemberExpr' or x.get('n') != 'value':
            return False
        if x['i'] not in self._tagmemo:
            tt = _tag_tests(self.fn, x, x)
            self._tagmemo[x['i']] = bool(tt) and all(t in self.tags and not self.tags[t] for t in tt)
        return self._tagmemo[x['i']]

    def _expr_tainted(self, e, st):
        for x in walk(e):
            if x['k'] in ('CallExpr', 'CXXMemberCallExpr'):
                s_ = self.fi.summ.get(ckey(x))
                if s_ and s_.get('ret'):
                    return True
        if self.tags is None:
            return bool(value_keys(self.fn, e) & st)
        skip = set()
        for x in walk(e):
            if x['k'] in ('CallExpr', 'CXXMemberCallExpr') and callee(x) in EVAL:
                for y in walk(x):
                    skip.add(y['i'])
        for x in walk(e):
            if x['i'] in skip or x['k'] not in ('DeclRefExpr', 'MemberExpr'):
                continue
            kk = key_of(self.fn, x)
            if kk and kk in st and not self._tag_clean(x):
                # a MemberExpr's base (operands) is visited too: only count the outermost storage key once
                return True
        return False

    def transfer(self, n, st):
        """Effect of CFG element n on the tainted-key set (in place)."""
        fn = self.fn
        k = n['k']
        if k in ('CallExpr', 'CXXMemberCallExpr'):
            q = callee(n)
            args = call_args(n)
            if q in EVAL:
                for a in args[1:]:
                    kk = key_of(fn, a)
                    if kk:
                        st.add(kk)
            s_ = self.fi.summ.get(ckey(n))
            if s_:
                for i in s_.get('out', ()):
                    if i < len(args):
                        kk = key_of(fn, args[i])
                        if kk:
                            st.add(kk)
        elif k in ('BinaryOperator', 'CompoundAssignOperator') and (n.get('op') == '=' or (n.get('op', '').endswith('=') and n['op'] not in ('==', '!=', '<=', '>='))):
            lhs = strip(kids(n)[0])
            kk = key_of(fn, lhs)
            if kk:
                t = self._expr_tainted(kids(n)[1], st) or (n['op'] != '=' and kk in st)
                if t:
                    st.add(kk)
                elif lhs['k'] == 'DeclRefExpr':
                    st.discard(kk)
        elif k == 'DeclStmt':
            for d, i in zip([x for x in n.get('decls', ()) if x.get('init')], kids(n)):
                kk = 'V:%s' % d['d']
                if self._expr_tainted(i, st):
                    st.add(kk)
                else:
                    st.discard(kk)

    def _solve(self):
        fn = self.fn
        self.inn = {b: set() for b in fn.blocks}
        # record fields that some function of the same file fills with a symbol-derived value are tainted on entry
        self.inn[fn.entry] = set(getattr(self.fi, 'file_fields', ()))
        work = [fn.entry]
        out_cache = {}
        while work:
            b = work.pop()
            st = set(self.inn[b])
            for e in fn.blocks[b]['e']:
                n = fn.nodes.get(e)
                if n is not None:
                    self.transfer(n, st)
            if out_cache.get(b) == st:
                continue
            out_cache[b] = st
            for s_ in fn.succs(b):
                if not st <= self.inn[s_]:
                    self.inn[s_] |= st
                    work.append(s_)
                elif s_ not in out_cache:
                    work.append(s_)

    def at_cond(self, b):
        """Tainted keys when the condition of block b is evaluated (after the block's elements)."""
        st = set(self.inn[b])
        for e in self.fn.blocks[b]['e']:
            n = self.fn.nodes.get(e)
            if n is not None:
                self.transfer(n, st)
        return st


# ------------------------------------------------------------------------------------------ armed rules
def _is_addr(fn, a):
    a = strip(a, casts=True)
    return a['k'] == 'MemberExpr' and a.get('n') == 'address' and a.get('rec') == 'AsmContext'


def memo_sites(prog):
    """(fn, call, kind, K) for every pass-1 memo access `memory_write/read(asm_context->address ...)` in asm/."""
    out = []
    for fn in prog.functions(lambda f: f.file.startswith('asm/') and f.blocks):
        for c in sorted(fn.calls(), key=lambda x: x['i']):
            q = callee(c)
            args = call_args(c)
            if q == 'AsmContext::memory_write' and args and _is_addr(fn, args[0]):
                out.append((fn, c, 'w', const(args[1]) if len(args) > 1 else None))
            elif q == 'AsmContext::memory_read' and args and _is_addr(fn, args[0]):
                out.append((fn, c, 'r', None))
    return out


def memo_pair(prog):
    """MEMO-PAIR: an assembler file that writes the pass-1 memo byte at the instruction's own address also reads it back:
    a memo that is written and never read means pass 2 takes its size decisions without knowing what pass 1 assumed.
    (The converse is not a rule: 6800 and java store their memo through add_bin8 in pass 1.)"""
    sites = memo_sites(prog)
    byfile = {}
    for fn, c, kind, K in sites:
        byfile.setdefault(fn.file, {'w': [], 'r': []})[kind].append((fn, c))
    obs = []
    for f, d in sorted(byfile.items()):
        if not d['w']:
            continue
        ok = bool(d['r'])
        fn, c = d['w'][0]
        obs.append(Ob('MEMO-PAIR', f, c['l'], fn.q, 'memo', DISCHARGED if ok else VIOLATED,
                      '' if ok else 'the pass-1 size memo is written (%d sites) but never read back in pass 2' % len(d['w']),
                      '%d writes, %d reads of the byte at asm_context->address' % (len(d['w']), len(d['r']))))
    return RuleResult('MEMO-PAIR', obs, 8, {'sites': len(sites)})


def memo_gov(prog):
    """MEMO-GOV: a condition on a symbol-derived value that governs a pass-1 memo write (the programmer recorded that the
    decision is not reproducible in pass 2) governs, in pass 2, only statements that consult the memo.
    For each memo write W confined to pass 1: every branch C outside the pass-1 guard on which W is control-dependent and
    whose condition reads a value produced by eval_expression must have, on the same arm, no pass-2-reachable block that
    stores or emits unless a memo-reading condition lies between C and that block."""
    files = {f.file for f in prog.fns.values() if f.file.startswith('asm/')}
    summ = summaries(prog, files)
    emit_summaries(prog, files, summ)
    obs = []
    nw = 0
    per_fn = {}
    for fn, c, kind, K in memo_sites(prog):
        if kind != 'w':
            continue
        nw += 1
        if fn.key not in per_fn:
            fi = FnInfo(prog, fn, summ)
            fi.solve()
            # direct taint only: eval outputs and what is assigned from them
            dead = _error_dead(fn)
            cd, succ = control_deps(fn, dead)
            per_fn[fn.key] = (fi, dead, cd, succ, pass2_blocks(fn), FlowTaint(fn, fi))
        fi, dead, cd, succ, p2, ft = per_fn[fn.key]
        w = fn.where.get(c['i'])
        if w is None:
            continue
        wb = w[0]

        def cond_of(b):
            bb = fn.blocks[b]
            return fn.nodes.get(bb.get('cond')) if 'cond' in bb else None

        def p1_edge(pc, ps):
            pcn = cond_of(pc)
            if pcn is None:
                return False
            g = _pass_guard(fn, pcn)
            sc = succ[pc]
            if g and len(sc) == 2:
                true_edge = (ps == sc[0])
                return (g == 1 and true_edge) or (g == 2 and not true_edge)
            return False

        # transitive control dependence of W, remembering whether a pass-1 guard lies between
        chain = []          # (branch, successor, inside_pass1_guard)
        seen = set()
        st = [(wb, False)]
        while st:
            x, inside = st.pop()
            for (pc, ps) in cd.get(x, ()):
                if (pc, ps) in seen:
                    continue
                seen.add((pc, ps))
                g = p1_edge(pc, ps)
                chain.append((pc, ps, inside or g, g))
                st.append((pc, inside or g))
        confined = wb not in p2
        # memo writes in the arm of a failed evaluation are pass-1 only when the arm's pass-2 side is an error exit
        problems = []
        n_gov = 0
        for pc, ps, inside, g in chain:
            if g:
                continue
            # only branches that are ancestors of the guard (evaluated in both passes)
            pcn = cond_of(pc)
            if pcn is None:
                continue
            # `inside` marks branches between W and... we need the opposite: is pc itself inside a pass-1 arm?
            pc_in_p1 = False
            st2, sn2 = [pc], set()
            while st2 and not pc_in_p1:
                y = st2.pop()
                for (qc, qs) in cd.get(y, ()):
                    if (qc, qs) in sn2:
                        continue
                    sn2.add((qc, qs))
                    if p1_edge(qc, qs):
                        pc_in_p1 = True
                        break
                    st2.append(qc)
            if pc_in_p1:
                continue
            own = strip(pcn)
            while own['k'] == 'BinaryOperator' and own.get('op') in ('&&', '||'):
                own = strip(kids(own)[1])
            rd = value_keys(fn, own) & ft.at_cond(pc)
            if not rd or fi._is_memo_expr(pcn) or pc not in p2:
                continue
            n_gov += 1
            # blocks on the same arm, reachable in pass 2, not behind a memo condition
            for b, deps in cd.items():
                if (pc, ps) not in deps or b in dead:
                    continue
                # b is directly dependent on this arm; look at b and everything nested below it
                sub = [(b, False)]
                sn = set()
                while sub:
                    y, cov = sub.pop()
                    if y in sn:
                        continue
                    sn.add(y)
                    yc = cond_of(y)
                    acts = []
                    for e in fn.blocks[y]['e']:
                        n = fn.nodes.get(e)
                        if n is None:
                            continue
                        if n['k'] in ('BinaryOperator', 'CompoundAssignOperator') and (n.get('op') == '=' or (n.get('op', '').endswith('=') and n['op'] not in ('==', '!=', '<=', '>='))):
                            if not fi._is_memo_expr(kids(n)[1]):
                                acts.append(n)
                        elif n['k'] in ('CallExpr', 'CXXMemberCallExpr') and (callee(n) in EMIT or summ.get(ckey(n), {}).get('emits')):
                            acts.append(n)
                    if acts and not cov and y in p2:
                        problems.append((pcn, acts[0]))
                    for z, zdeps in cd.items():
                        for (qc, qs) in zdeps:
                            if qc != y or z in dead:
                                continue
                            if p1_edge(qc, qs) or z not in p2:
                                continue        # pass-1 only arm
                            sub.append((z, cov or (yc is not None and fi._is_memo_expr(yc))))
        detail = ''
        if problems:
            pcn, act = problems[0]
            detail = ('`%s` (line %d) decides on a symbol-derived value and governs this pass-1 memo write, but on the same arm '
                      '`%s` (line %d) runs in pass 2 without consulting the memo: a forward reference whose value satisfies '
                      'the condition only in pass 2 changes the instruction length between the passes' % (
                          show(pcn)[:60], pcn['l'], show(act)[:50], act['l']))
        obs.append(Ob('MEMO-GOV', fn.file, c['l'], fn.q, 'memo-write@%s' % _site_id(fn, c), VIOLATED if problems else DISCHARGED, detail,
                      '%d governing value conditions; pass-1 confined: %s' % (n_gov, confined), n_gov > 0))
    if nw < 15:
        raise AnalysisBroken('MEMO-GOV: only %d memo writes found in asm/' % nw)
    return RuleResult('MEMO-GOV', obs, 15, {'memo_writes': nw})


def _site_id(fn, c):
    """Stable ordinal of the memo write inside its function."""
    ws = [x for x in sorted(fn.calls(), key=lambda x: x['i']) if callee(x) == 'AsmContext::memory_write']
    return '%d' % (ws.index(c) + 1)


WEIGHT = {'add_bin8': 1, 'add_bin16': 2, 'add_bin32': 4, 'add_bin64': 8, 'AsmContext::memory_write_inc': 1}


def _memo_unknown_edge(fn, fi, cn, K=1):
    """For a branch whose own test is a memo test (or a test of a memo-derived flag): which successor index is
    impossible when the memo byte is K (non-zero: pass 1 did NOT know the value)?  0 = the true edge is impossible,
    1 = the false edge, None = cannot tell."""
    own = strip(cn)
    while own['k'] == 'BinaryOperator' and own.get('op') in ('&&', '||'):
        own = strip(kids(own)[1])
    neg = False
    while own['k'] == 'UnaryOperator' and own.get('op') == '!':
        neg = not neg
        own = strip(kids(own)[0])
    flags = getattr(fi, 'memo_flags', {})
    memo0 = getattr(fi, 'memo0', fi.memo)

    def flag_value(x):
        """Value of a memo-derived flag when the memo byte is K: the constant it is given under a memo test that
        holds for K, else 0 (its initial value) -- None when x is not such a flag."""
        xs = strip(x, casts=True)
        if xs['k'] not in ('DeclRefExpr', 'MemberExpr', 'ArraySubscriptExpr'):
            return None
        xk = key_of(fn, xs)
        if xk not in flags:
            return None
        vals = {v for v, kf in flags[xk] if _holds(kf, K)}
        if len(vals) > 1:
            return None
        return vals.pop() if vals else 0
    res = None
    truth = None
    if own['k'] == 'BinaryOperator' and own.get('op') in ('==', '!='):
        l, r = kids(own)
        for x, y in ((l, r), (r, l)):
            if const(y) is None:
                continue
            if _pure_memo(fn, fi, x):
                truth = (K == const(y))
            else:
                fv = flag_value(x)
                if fv is not None:
                    truth = (fv == const(y))
            if truth is not None:
                if own['op'] == '!=':
                    truth = not truth
                break
    else:
        fv = flag_value(own)
        if fv is not None:
            truth = fv != 0
        elif _pure_memo(fn, fi, own):
            truth = K != 0
    if truth is None:
        return None
    if neg:
        truth = not truth
    return 1 if truth else 0


def _pure_memo(fn, fi, x):
    """x is the memo itself: a memory_read(address) call or a variable that only ever holds the memo."""
    xs = strip(x, casts=True)
    if xs['k'] in ('CallExpr', 'CXXMemberCallExpr'):
        return callee(xs) in MEMO_READ
    memo0 = getattr(fi, 'memo0', fi.memo)
    return xs['k'] in ('DeclRefExpr', 'MemberExpr') and key_of(fn, xs) in memo0


def _memo_cond_k(fn, fi, cn):
    """For a memo test: the set of memo byte values for which its TRUE edge is taken, as ('eq', K), ('ne', K) or
    ('nz',) -- None when the condition is not a plain memo test."""
    own = strip(cn)
    while own['k'] == 'BinaryOperator' and own.get('op') in ('&&', '||'):
        own = strip(kids(own)[1])
    if own['k'] == 'BinaryOperator' and own.get('op') in ('==', '!='):
        l, r = kids(own)
        for x, y in ((l, r), (r, l)):
            if const(y) is not None and _pure_memo(fn, fi, x):
                return ('eq' if own['op'] == '==' else 'ne', const(y))
    elif _pure_memo(fn, fi, own):
        return ('nz',)
    return None


def _holds(kform, K):
    """Does a memo test of form kform take its true edge when the memo byte is K?"""
    if kform[0] == 'eq':
        return K == kform[1]
    if kform[0] == 'ne':
        return K != kform[1]
    return K != 0


def memo_flags(fn, fi):
    """fi.memo_flags: {key: [(constant assigned, memo-test form)]} for keys that are set to a non-zero constant in a
    block control-dependent on the true edge of a memo test (`memory_read(address) == K`, `!= 0`, truthiness):
    `wide = 1`, `force_long = true`.  fi.memo_values: the memo byte values the function distinguishes."""
    if not hasattr(fi, 'memo0'):
        fi.memo0 = set(fi.memo)
    dead = _error_dead(fn)
    cd, succ = control_deps(fn, dead)
    flags = {}
    flagged = set()
    values = set()
    for b, bb in fn.blocks.items():
        cn = fn.nodes.get(bb.get('cond')) if 'cond' in bb else None
        if cn is not None:
            kf = _memo_cond_k(fn, fi, cn)
            if kf and kf[0] in ('eq', 'ne') and kf[1] != 0:
                values.add(kf[1])
    for kk, rhs, stn, b in fi.assigns:
        if rhs is None or stn['k'] == 'DeclStmt':
            continue
        v = const(rhs)
        if v is None or v == 0:
            continue
        for (pc, ps_) in cd.get(b, ()):
            bb = fn.blocks[pc]
            cn = fn.nodes.get(bb.get('cond')) if 'cond' in bb else None
            if cn is None or len(succ[pc]) != 2 or ps_ != succ[pc][0]:
                continue
            kf = _memo_cond_k(fn, fi, cn)
            if kf:
                flags.setdefault(kk, []).append((v, kf))
                flagged.add(id(stn))
    # a record field is a memo flag only when it is a two-valued flag: nothing but 0 and one constant is ever stored in it
    # (operands[0].type = OPTYPE_X under a memo test does not make every later `type ==` test a memo test)
    for kk in list(flags):
        if not kk.startswith('F:'):
            continue
        vals = set()
        for k2, rhs, stn, b in fi.assigns:
            if k2 == kk:
                vals.add(const(rhs) if rhs is not None else None)
        vals.discard(0)
        if None in vals or len(vals) > 1:
            del flags[kk]
    fi.memo_flags = flags
    fi.memo_values = sorted(values) or [1]
    fi.memo = set(fi.memo0) | set(flags)
    return flags


def byte_sets(fn, summ, dead, fi=None, prune_memo=False, K=1):
    """W[b]: the set of byte counts emitted on the non-error paths from the start of block b to the end of the function
    (None = unknown: a loop or a helper with unknown emission lies on some path).  With prune_memo, edges that are
    impossible when the pass-1 memo says "value unknown" are left out."""
    from nk.cfg import natural_loops
    loops = natural_loops(fn)
    inloop = set()
    for h, body in loops.items():
        inloop |= body
    wt = {}
    for b, bb in fn.blocks.items():
        w = frozenset([0])
        for e in bb['e']:
            n = fn.nodes.get(e)
            if n is None or n['k'] not in ('CallExpr', 'CXXMemberCallExpr'):
                continue
            q = callee(n)
            add = None
            if q in WEIGHT:
                add = frozenset([WEIGHT[q]])
            elif q in EMIT:
                add = 'top'
            else:
                s_ = summ.get(ckey(n), {})
                if s_.get('emits'):
                    add = s_.get('bytes') or 'top'
            if add is None:
                continue
            if add == 'top' or w is None or b in inloop:
                w = None
            else:
                w = frozenset(x + y for x in w for y in add)
                if len(w) > 12:
                    w = None
        wt[b] = w
    memo = {}
    onstack = set()

    def succs(b):
        sc = [x for x in fn.blocks[b]['s']]
        if prune_memo and fi is not None and len(sc) == 2 and 'cond' in fn.blocks[b]:
            cn = fn.nodes.get(fn.blocks[b]['cond'])
            if cn is not None:
                dead_edge = _memo_unknown_edge(fn, fi, cn, K)
                if dead_edge is not None:
                    sc = [x for i, x in enumerate(sc) if i != dead_edge]
        return [x for x in sc if x is not None and x not in dead]

    def go(b):
        if b in memo:
            return memo[b]
        if b in onstack:
            return None                 # another iteration of a search loop: some other row may match
        onstack.add(b)
        sc = succs(b)
        if not sc:
            r = frozenset([0])
        else:
            r = frozenset()
            for x in sc:
                rx = go(x)
                if rx is None:
                    r = None
                    break
                r = r | rx
        if r is not None:
            if wt[b] is None:
                r = None
            else:
                r = frozenset(v + x for v in r for x in wt[b])
                if len(r) > 12:
                    r = None
        onstack.discard(b)
        memo[b] = r
        return r
    import sys
    sys.setrecursionlimit(20000)
    for b in fn.blocks:
        if b not in dead:
            go(b)
    # blocks reachable from the entry under the same pruning
    reach = set()
    st = [fn.entry]
    while st:
        x = st.pop()
        if x in reach:
            continue
        reach.add(x)
        sc = [y for y in fn.blocks[x]['s']]
        if prune_memo and fi is not None and len(sc) == 2 and 'cond' in fn.blocks[x]:
            cn = fn.nodes.get(fn.blocks[x]['cond'])
            if cn is not None:
                de = _memo_unknown_edge(fn, fi, cn, K)
                if de is not None:
                    sc = [y for i, y in enumerate(sc) if i != de]
        st.extend(y for y in sc if y is not None)
    memo['reach'] = reach
    return memo


def byte_summaries(prog, files, summ):
    """summ[f]['bytes']: byte set a call of helper f emits (when finite)."""
    fns = [f for f in prog.fns.values() if f.file in files and f.blocks and summ.get(f.key, {}).get('emits')]
    for _ in range(3):
        changed = False
        for fn in fns:
            if fn.name.startswith('parse_instruction_'):
                continue
            W = byte_sets(fn, summ, _error_dead(fn))
            r = W.get(fn.entry)
            if r is not None and summ[fn.key].get('bytes') != r:
                summ[fn.key]['bytes'] = r
                changed = True
        if not changed:
            break


def tag_taint(fn, ft):
    """For operand records that carry a type tag next to a value: which tags are stored together with a symbol-derived
    value?  Returns {tag constant name: True/False}; a tag is tainted when some `<base>.type = TAG` is followed (same
    base expression, next stores) by `<base>.value = e` with e possibly symbol-derived."""
    stores = []
    for b, bb in fn.blocks.items():
        st = None
        for e in bb['e']:
            n = fn.nodes.get(e)
            if n is None:
                continue
            if st is None:
                st = set(ft.inn[b])
            if n['k'] == 'BinaryOperator' and n.get('op') == '=':
                l = strip(kids(n)[0])
                if l['k'] == 'MemberExpr' and l.get('n') in ('type', 'value', 'operand_type'):
                    base = show(kids(l)[0])
                    if l['n'] in ('type', 'operand_type'):
                        r = strip(kids(n)[1], casts=True)
                        if r['k'] == 'DeclRefExpr' and r.get('dk') == 'enum':
                            stores.append((n['l'], n['i'], base, 'type', r['n']))
                    else:
                        stores.append((n['l'], n['i'], base, 'value', ft._expr_tainted(kids(n)[1], st)))
            ft.transfer(n, st)
    stores.sort()
    tags = {}
    for idx, (ln, i, base, kind, v) in enumerate(stores):
        if kind != 'type':
            continue
        tainted = None
        # nearest value store with the same base, before or after, without another type store in between
        for rng in (range(idx + 1, len(stores)), range(idx - 1, -1, -1)):
            for j in rng:
                l2, i2, b2, k2, v2 = stores[j]
                if b2 != base:
                    continue
                if k2 == 'type':
                    break
                if abs(l2 - ln) <= 15:
                    tainted = v2 if tainted is None else (tainted or v2)
                break
        if tainted is None:
            tainted = False         # a tag stored without any value: the value is not an evaluated number
        tags[v] = tags.get(v, False) or tainted
    return tags


def _tag_tests(fn, cn, valnode, base=None):
    """Type tags the same operand is tested against in the enclosing condition chain (conjuncts of the IfStmt the
    comparison belongs to and of the IfStmts it is nested in)."""
    for x in ([] if base else walk(valnode)):
        if x['k'] == 'MemberExpr' and x.get('n') == 'value':
            base = show(kids(x)[0])
    if base is None:
        return None
    tags = set()
    node = cn
    seen_if = 0
    p = fn.parent.get(node['i'])
    tops = [cn]
    child = node
    while p is not None and seen_if < 10:
        if p['k'] == 'IfStmt':
            seen_if += 1
            ks = kids(p)
            # only a condition whose THEN branch (or whose own condition) contains the node says anything about it
            if len(ks) > 1 and ks[0] is not None and (ks[1] is child or ks[0] is child or
                                                      (ks[1] is not None and ks[1].get('i') == child.get('i')) or
                                                      ks[0].get('i') == child.get('i')):
                tops.append(ks[0])
        elif p['k'] == 'SwitchStmt':
            tops.append(kids(p)[0])
        child = p
        p = fn.parent.get(p['i'])
    for t in tops:
        if t is None:
            continue
        for x in walk(t):
            if x['k'] == 'BinaryOperator' and x.get('op') == '==':
                l, r = strip(kids(x)[0], casts=True), strip(kids(x)[1], casts=True)
                if l['k'] == 'MemberExpr' and l.get('n') in ('type', 'operand_type') and show(kids(l)[0]) == base and \
                        r['k'] == 'DeclRefExpr' and r.get('dk') == 'enum':
                    tags.add(r['n'])
    return tags


def candidates(prog):
    """PASS-SIZE candidates: pass-2-reachable branches of asm/ functions whose own test compares a value that may come
    from eval_expression with an integer constant, that control emission (or a variable a later emission-controlling
    branch reads), with both arms able to reach a non-error end, and that are not covered by the memo.
    Returns dicts(fn, cond, own, text, construct, decided, emit)."""
    files = {f.file for f in prog.fns.values() if f.file.startswith('asm/')}
    summ = summaries(prog, files)
    emit_summaries(prog, files, summ)
    byte_summaries(prog, files, summ)
    entries = {f.key for f in prog.fns.values() if f.name.startswith('parse_instruction_')}
    out = []
    wcache = {}
    tagcache = {}
    nfun = nrel = 0
    for fn in sorted(prog.fns.values(), key=lambda f: (f.file, f.line)):
        if not fn.file.startswith('asm/') or not fn.blocks:
            continue
        nfun += 1
        res, fi, nb = analyse_function(prog, fn, summ, fn.key in entries)
        nrel += nb
        if not res:
            continue
        ft = FlowTaint(fn, fi)
        p2 = pass2_blocks(fn)
        memo_flags(fn, fi)
        cond_block = {bb.get('cond'): b for b, bb in fn.blocks.items() if 'cond' in bb}
        ordn = {}
        for cn, decided, de, tk in sorted(res, key=lambda r: r[0]['i']):
            w = cond_block.get(cn['i'])
            if w is None or w not in p2:
                continue
            own = strip(cn)
            while own['k'] == 'BinaryOperator' and own.get('op') in ('&&', '||'):
                own = strip(kids(own)[1])
            if own['k'] != 'BinaryOperator' or own.get('op') not in ('<', '>', '<=', '>=', '==', '!='):
                continue
            l, r = kids(own)
            hit = False
            for a, b2 in ((l, r), (r, l)):
                if const(b2) is not None and not any(x['k'] == 'DeclRefExpr' and x.get('dk') == 'enum' for x in walk(b2)):
                    if value_keys(fn, a) & ft.at_cond(w):
                        hit = True
            if not hit:
                continue
            # operands that carry a type tag: the value is symbol-derived only under the tags stored with evaluated numbers
            if fn.key not in tagcache:
                tagcache[fn.key] = tag_taint(fn, ft)
            tt = _tag_tests(fn, cn, own)
            if tt and all(t in tagcache[fn.key] and not tagcache[fn.key][t] for t in tt):
                continue
            text = show(own)
            ordn[text] = ordn.get(text, 0) + 1
            # byte counts reachable on the two arms, for every memo value that means "pass 1 did not know"
            if fn.key not in wcache:
                dead_ = _error_dead(fn)
                wcache[fn.key] = ([(K, byte_sets(fn, summ, dead_, fi, True, K)) for K in fi.memo_values], dead_)
            Ws, dead_ = wcache[fn.key]
            arms = None
            same = True
            for K, W in Ws:
                if w not in W['reach']:
                    continue            # the test is not reached when the memo byte is K
                a_ = [W.get(x) if x not in dead_ else frozenset() for x in fn.blocks[w]['s'] if x is not None]
                ok_ = len(a_) == 2 and None not in a_ and a_[0] == a_[1]
                if not ok_:
                    same = False
                    if arms is None or (None not in a_):
                        arms = a_
            unreached = arms is None and same
            if arms is None:
                arms = [frozenset(), frozenset()]
            out.append({'fn': fn, 'cond': cn, 'own': own, 'text': text, 'construct': '%s#%d' % (text, ordn[text]),
                        'decided': decided, 'emit': de, 'arms': arms, 'same_size': same, 'unreached': unreached})
    return out, {'functions': nfun, 'emission_controlling_branches': nrel}


def load_table():
    import json
    import os
    p = os.path.join(os.path.dirname(os.path.abspath(__file__)), 'passsize_table.json')
    with open(p) as f:
        return json.load(f)


def pass_size(prog, table=None):
    """PASS-SIZE: a pass-2 test of a symbol-derived value against a constant whose two arms emit different numbers of
    bytes when pass 1 did not know the value (memo tests resolved to "unknown") makes the instruction's length depend
    on a value pass 1 could not see.  Decided only where both arms have a finite set of byte counts; tests whose arms
    run into table-search loops or helpers with unknown emission are listed as observations (not decided), with the
    classification recorded during triage where there is one."""
    table = table if table is not None else load_table()
    tri = {(e['file'], e['function'], e['construct']): e for e in table.get('triaged', [])}
    cands, stats = candidates(prog)
    obs = []
    for x in cands:
        fn, own = x['fn'], x['own']
        arms = x['arms']
        finite = len(arms) == 2 and None not in arms
        key = (fn.file, fn.q, x['construct'])
        t = tri.get(key)
        # a triage verdict was reached for a test that decided the record fields listed with it; a test that now decides
        # another field as well is a different test
        if t and t['class'] != 'inconsistent' and {k_ for k_ in x['decided'] if k_.startswith('F:')} - set(t.get('decides', [])):
            t = None
        if t and t['class'] == 'inconsistent':
            obs.append(Ob('PASS-SIZE', fn.file, own['l'], fn.q, x['construct'], VIOLATED,
                          '`%s`: the instruction length depends on a value pass 1 may not know and no memo carries the pass-1 '
                          'choice (replayed: %s; demo %s)' % (x['text'], t['reason'][:200], t.get('demo', ''))))
        elif any(k_.endswith(('.type', '.operand_type')) for k_ in x['decided']) and not x.get('unreached') and not (t and t['class'] in ('consistent', 'not-size')):
            obs.append(Ob('PASS-SIZE', fn.file, own['l'], fn.q, x['construct'], VIOLATED,
                          '`%s` is decided in pass 2 on a value that pass 1 may not know, without the pass-1 memo, and it changes the '
                          'operand\'s addressing type (%s): the addressing type selects the encoding, so a forward reference that '
                          'satisfies the test only in pass 2 changes the instruction length between the passes' % (
                              x['text'], ', '.join(sorted(k_.split('.')[-1] for k_ in x['decided'])))))
        elif x.get('unreached'):
            obs.append(Ob('PASS-SIZE', fn.file, own['l'], fn.q, x['construct'], DISCHARGED, '',
                          'the test is not reached when the memo says that pass 1 did not know the value', True))
        elif finite and arms[0] == arms[1] and not x['decided']:
            obs.append(Ob('PASS-SIZE', fn.file, own['l'], fn.q, x['construct'], DISCHARGED, '',
                          'both arms emit %s bytes when the value was unknown in pass 1' % sorted(arms[0]), True))
        elif finite and arms[0] != arms[1]:
            if t and t['class'] in ('consistent', 'not-size'):
                obs.append(Ob('PASS-SIZE', fn.file, own['l'], fn.q, x['construct'], OBSERVATION,
                              'arms emit %s / %s bytes; triaged %s: %s' % (sorted(arms[0]), sorted(arms[1]), t['class'], t['reason'])))
            else:
                obs.append(Ob('PASS-SIZE', fn.file, own['l'], fn.q, x['construct'], VIOLATED,
                              '`%s` is decided in pass 2 on a value that pass 1 may not know (forward reference), without the '
                              'pass-1 memo, and its arms emit %s and %s bytes: the instruction changes length between the '
                              'passes and every later label moves' % (x['text'], sorted(arms[0]), sorted(arms[1]))))
        else:
            why = ('triaged %s: %s' % (t['class'], t['reason'])) if t else 'not triaged'
            obs.append(Ob('PASS-SIZE', fn.file, own['l'], fn.q, x['construct'], OBSERVATION,
                          'byte counts of the arms are not finite sets here (table search / helper emission); not decided; ' + why))
    return RuleResult('PASS-SIZE', obs, 0, stats)


def memo_survives(prog, cg):
    """MEMO-SURVIVES: a CPU whose assembler writes the pass-1 memo byte at the instruction's own address has
    pass_1_write_disable = 1 in cpu_list[]: otherwise add_bin() stores the pass-1 encoding over the memo before pass 2
    can read it, and pass 2 decides sizes as if every operand had been known."""
    from nk import tables
    rows, fields, g = tables.rows(prog, 'cpu_list')
    writers = {}
    for fn, c, kind, K in memo_sites(prog):
        if kind == 'w':
            writers.setdefault(fn.key, []).append(c)
    obs = []
    n = 0
    for r in rows:
        nm = tables.strval(r.get('name'))
        if not nm:
            continue
        pf = tables.funcref(r.get('parse_instruction'))
        if not pf:
            continue
        n += 1
        reach = cg.reachable([pf])
        ws = [(k, writers[k]) for k in reach if k in writers]
        if not ws:
            continue
        flag = r['pass_1_write_disable'].get('ev')
        k0, cs = ws[0]
        wfn = prog.by_key[k0]
        ok = flag == 1
        obs.append(Ob('MEMO-SURVIVES', g['file'], r['name']['l'], 'cpu_list', 'cpu:%s' % nm, DISCHARGED if ok else VIOLATED,
                      '' if ok else '%s writes the pass-1 memo (%s:%d) but cpu_list["%s"].pass_1_write_disable is 0: add_bin() '
                      'overwrites the memo in pass 1 and pass 2 never sees it' % (wfn.q, wfn.file, cs[0]['l'], nm),
                      'memo written in %s; pass-1 emission disabled' % wfn.q))
    if n < 50:
        raise AnalysisBroken('MEMO-SURVIVES: only %d cpu_list rows' % n)
    return RuleResult('MEMO-SURVIVES', obs, 15, {'cpus': n})


def pass_flag(prog):
    """PASS-FLAG: a variable or operand field that is stored only while asm_context->pass == 1 (every store in the
    assembler's file lies in a block that pass 2 cannot reach) but tested in pass 2 by a branch that controls what is
    emitted makes pass 2 decide with the initial value where pass 1 decided with the stored one: the size decision
    depends on the pass itself (6809's use_long before the fix).  Discharged when pass 2 stores it too (from the memo)."""
    files = {f.file for f in prog.fns.values() if f.file.startswith('asm/')}
    summ = summaries(prog, files)
    emit_summaries(prog, files, summ)
    obs = []
    nfiles = 0
    byfile = {}
    for fn in prog.fns.values():
        if fn.file in files and fn.blocks:
            byfile.setdefault(fn.file, []).append(fn)
    for f, fns in sorted(byfile.items()):
        info = {}
        haspass = False
        for fn in fns:
            p2 = pass2_blocks(fn)
            if len(p2) != len(fn.blocks):
                haspass = True
            fi = FnInfo(prog, fn, summ)
            info[fn.key] = (fn, p2, fi)
        if not haspass:
            continue
        nfiles += 1
        stores = {}
        for fn, p2, fi in info.values():
            for kk, rhs, stn, b in fi.assigns:
                if stn['k'] == 'DeclStmt':
                    continue
                key = kk if kk.startswith('F:') else (fn.key, kk)
                stores.setdefault(key, []).append((fn, b in p2, stn, rhs))
            # memset / address-taken stores make a field "stored in both passes": ignore such keys conservatively
        cand = {k: v for k, v in stores.items() if all(not in2 for _, in2, _, _ in v)
                and any(r is not None and const(r) not in (None, 0) for _, _, _, r in v)}
        for key, v in sorted(cand.items(), key=lambda kv: str(kv[0])):
            fn0, _, stn0, _ = v[0]
            name = show(strip(kids(stn0)[0]))
            kk = key if isinstance(key, str) else key[1]
            readers = []
            for fn, p2, fi in info.values():
                if not isinstance(key, str) and fn.key != key[0]:
                    continue
                dead = _error_dead(fn)
                cd, succ = control_deps(fn, dead)
                emit_blocks = set()
                for c in fn.calls():
                    w = fn.where.get(c['i'])
                    if w and w[0] not in dead and (callee(c) in EMIT or summ.get(ckey(c), {}).get('emits')):
                        emit_blocks.add(w[0])
                helper = not fn.name.startswith('parse_instruction_')
                if helper:
                    for n in fn.nodes.values():
                        if n['k'] == 'ReturnStmt':
                            w = fn.where.get(n['i'])
                            if w and w[0] not in dead:
                                emit_blocks.add(w[0])
                ctrl = set()
                st = list(emit_blocks)
                seen = set()
                while st:
                    b = st.pop()
                    if b in seen:
                        continue
                    seen.add(b)
                    for (pc, ps_) in cd.get(b, ()):
                        ctrl.add(pc)
                        st.append(pc)
                for pc in sorted(ctrl):
                    if pc not in p2:
                        continue
                    bb = fn.blocks[pc]
                    cn = fn.nodes.get(bb.get('cond')) if 'cond' in bb else None
                    if cn is None:
                        continue
                    own = strip(cn)
                    while own['k'] == 'BinaryOperator' and own.get('op') in ('&&', '||'):
                        own = strip(kids(own)[1])
                    if kk in keys_read(fn, own):
                        readers.append((fn, cn))
            if not readers:
                continue
            rf, rc = readers[0]
            obs.append(Ob('PASS-FLAG', fn0.file, stn0['l'], fn0.q, 'flag:%s' % name.split('.')[-1].split('->')[-1], VIOLATED,
                          '`%s` is stored only in pass 1 (%s line %d) but `%s` (%s line %d) tests it in pass 2 and controls what '
                          'is emitted: pass 2 sees its initial value, so the two passes can choose different instruction '
                          'lengths' % (name, fn0.q, stn0['l'], show(rc)[:50], rf.q, rc['l'])))
        for key, v in stores.items():
            if key in cand or not any(not in2 for _, in2, _, _ in v) or not any(in2 for _, in2, _, _ in v):
                continue
            if not any(r is not None and const(r) not in (None, 0) for _, in2, _, r in v if not in2):
                continue
            fn0, _, stn0, _ = v[0]
            name = show(strip(kids(stn0)[0]))
            obs.append(Ob('PASS-FLAG', fn0.file, stn0['l'], fn0.q, 'flag:%s' % name.split('.')[-1].split('->')[-1], DISCHARGED, '',
                          'stored in pass 1 and in pass 2', False))
    return RuleResult('PASS-FLAG', obs, 0, {'files_with_pass_tests': nfiles})


def memo_addr(prog):
    """MEMO-ADDR: the memo byte lives at the address where the instruction starts, so it is read (and written) before
    anything of the instruction has been emitted: add_bin*() advances asm_context->address, and a memo access that
    follows an emission on some path addresses a different byte in pass 1 (placeholder form) than the one pass 2
    looks at (msp430 `rpt #n, add #fwd, r5` before the fix)."""
    files = {f.file for f in prog.fns.values() if f.file.startswith('asm/')}
    summ = summaries(prog, files)
    emit_summaries(prog, files, summ)
    # functions that access the memo (directly or through callees in asm/)
    acc = {}
    for fn, c, kind, K in memo_sites(prog):
        acc.setdefault(fn.key, []).append(c)
    changed = True
    trans = set(acc)
    while changed:
        changed = False
        for fn in prog.fns.values():
            if fn.file in files and fn.blocks and fn.key not in trans:
                if any(ckey(c) in trans for c in fn.calls()):
                    trans.add(fn.key)
                    changed = True
    obs = []
    for fn in sorted(prog.fns.values(), key=lambda f: (f.file, f.line)):
        if fn.file not in files or not fn.blocks or fn.key not in trans:
            continue
        # positions: (block, index) of emissions and memo accesses
        emits, memos = [], []
        for c in fn.calls():
            w = fn.where.get(c['i'])
            if w is None:
                continue
            q = callee(c)
            if q in ('AsmContext::memory_write', 'AsmContext::memory_read') and call_args(c) and _is_addr(fn, call_args(c)[0]):
                memos.append((w, c))
            elif ckey(c) in trans and ckey(c) != fn.key:
                memos.append((w, c))
            if q in EMIT or (summ.get(ckey(c), {}).get('emits') and ckey(c) not in trans):
                emits.append((w, c))
        if not memos:
            continue
        # only emissions that can follow the parsing of an operand belong to the instruction proper (alignment padding
        # emitted before anything is parsed moves the instruction start in both passes alike)
        starts = [w for (w, c) in memos]
        for c in fn.calls():
            if callee(c) in EVAL or summ.get(ckey(c), {}).get('out') or summ.get(ckey(c), {}).get('ret'):
                w = fn.where.get(c['i'])
                if w:
                    starts.append(w)
        after = set()          # blocks reachable from a start (from their beginning)
        first_in_block = {}
        for (b, i) in starts:
            first_in_block[b] = min(i, first_in_block.get(b, 1 << 30))
        st = []
        for b in first_in_block:
            st.extend(fn.succs(b))
        while st:
            b = st.pop()
            if b in after:
                continue
            after.add(b)
            st.extend(fn.succs(b))
        emits = [((eb, ei), ec) for (eb, ei), ec in emits if eb in after or (eb in first_in_block and ei > first_in_block[eb])]
        bad = None
        for (eb, ei), ec in emits:
            # forward reachability from just after the emission
            seen = set()
            st = [(eb, ei + 1)]
            while st and bad is None:
                b, i0 = st.pop()
                if (b, i0 == 0) in seen and i0 == 0:
                    continue
                if i0 == 0:
                    seen.add((b, True))
                for (mb, mi), mc in memos:
                    if mb == b and mi >= i0:
                        bad = (ec, mc)
                        break
                if bad is None:
                    for s_ in fn.succs(b):
                        st.append((s_, 0))
            if bad:
                break
        if bad:
            ec, mc = bad
            obs.append(Ob('MEMO-ADDR', fn.file, mc['l'], fn.q, 'memo-after-emit', VIOLATED,
                          'the memo access `%s` (line %d) can follow the emission `%s` (line %d): asm_context->address has moved, so '
                          'the byte read is not the one written for this instruction in pass 1' % (
                              show(mc)[:50], mc['l'], show(ec)[:40], ec['l'])))
        else:
            obs.append(Ob('MEMO-ADDR', fn.file, fn.line, fn.q, 'memo-after-emit', DISCHARGED, '',
                          '%d memo accesses, none reachable from any of the %d emission sites' % (len(memos), len(emits)), len(emits) > 0))
    return RuleResult('MEMO-ADDR', obs, 10, {})


def memo_thresh(prog):
    """MEMO-THRESH: when pass 1 decides a form with `if (unknown || v > T) { memory_write(memo); X.type = LONG; }` and pass 2
    repeats the decision as `if (memory_read(memo) != 0 || unknown || v > T') X.type = LONG;`, a value that is known in both
    passes (memo 0) takes the same arm only if the relational tests are the same: the sets of (expression, operator,
    constant) atoms of the two conditions must be equal.  (68000 `(expr)` without size suffix: a pass-2 threshold of 0x7fff
    against 0xffff in pass 1 makes the instruction 2 bytes longer in pass 2.)"""
    def atoms(c):
        c = strip(c)
        if c['k'] == 'BinaryOperator' and c.get('op') in ('||', '&&'):
            return atoms(kids(c)[0]) + atoms(kids(c)[1])
        return [c]

    def has_call(n, names):
        return any(x['k'] in ('CallExpr', 'CXXMemberCallExpr') and callee(x) in names for x in walk(n))
    MR = ('AsmContext::memory_read', 'AsmContext::memory_read_m')
    MW = ('AsmContext::memory_write', 'AsmContext::memory_write_inc')
    obs = []
    for fn in sorted(prog.fns.values(), key=lambda f: (f.file, f.line)):
        if not fn.blocks or not fn.file.startswith('asm/'):
            continue
        p1, p2 = {}, {}
        for n in fn.nodes.values():
            if n['k'] != 'IfStmt':
                continue
            ks = [x for x in kids(n) if x is not None]
            if len(ks) < 2:
                continue
            cond, then = ks[0], ks[1]
            rel = sorted((show(strip(kids(a)[0], casts=True)), a['op'], const(kids(a)[1])) for a in atoms(cond)
                         if a['k'] == 'BinaryOperator' and a.get('op') in ('<', '>', '<=', '>=') and const(kids(a)[1]) is not None)
            if not rel:
                continue
            asg = sorted({(show(kids(x)[0]), show(kids(x)[1])) for x in walk(then)
                          if x['k'] == 'BinaryOperator' and x.get('op') == '=' and strip(kids(x)[1], casts=True).get('dk') == 'enum'})
            if not asg:
                continue
            key = tuple(asg)
            if has_call(cond, MR):
                p2.setdefault(key, []).append((n, rel))
            elif has_call(then, MW):
                p1.setdefault(key, []).append((n, rel))
        for key in sorted(set(p1) & set(p2)):
            for n1, r1 in p1[key]:
                for n2, r2 in p2[key]:
                    ok = r1 == r2
                    obs.append(Ob('MEMO-THRESH', fn.file, n2['l'], fn.q, '%s=%s' % key[0], DISCHARGED if ok else VIOLATED,
                                  '' if ok else 'pass 1 (line %d) selects %s when %s, pass 2 (line %d) when %s: an operand whose value is '
                                  'known in both passes and lies between the two bounds gets the short form in one pass and the long form '
                                  'in the other, and every later label moves' % (
                                      n1['l'], key[0][1], ' or '.join('%s %s %#x' % a for a in r1), n2['l'],
                                      ' or '.join('%s %s %#x' % a for a in r2)),
                                  'same relational tests in both passes: %s' % ' or '.join('%s %s %#x' % a for a in r1), False))
    if not obs:
        raise AnalysisBroken('MEMO-THRESH: no pass-1/pass-2 decision pair found in asm/')
    return RuleResult('MEMO-THRESH', obs, 1, {})


def varlen_emit(prog):
    """VARLEN-EMIT: a variable-length emitter (add_bin_varint / add_bin_varuint with fixed_size 0: one byte per 7 bits of
    the value) is not fed a value that may come from a symbol unless the instruction's pass-1 choice is remembered: pass 1
    sees 0 for a forward reference and emits one byte, pass 2 emits as many as the real value needs, and every later
    label is bound too low."""
    files = {f.file for f in prog.fns.values() if f.file.startswith('asm/')}
    summ = summaries(prog, files)
    obs = []
    for fn in sorted(prog.fns.values(), key=lambda f: (f.file, f.line)):
        if not fn.blocks or not fn.file.startswith('asm/'):
            continue
        calls = [c for c in fn.calls() if callee(c) in ('add_bin_varint', 'add_bin_varuint')]
        if not calls:
            continue
        fi = FnInfo(prog, fn, summ)
        fi.solve()
        ft = FlowTaint(fn, fi)
        has_memo = any(callee(c) in MEMO_READ for c in fn.calls())
        k = 0
        for c in sorted(calls, key=lambda x: x['i']):
            args = call_args(c)
            if len(args) < 3:
                continue
            k += 1
            w = fn.where.get(c['i'])
            st = set(ft.inn[w[0]])
            for e in fn.blocks[w[0]]['e'][:w[1]]:
                x = fn.nodes.get(e)
                if x is not None:
                    ft.transfer(x, st)
            tainted = bool(value_keys(fn, args[1]) & st)
            fixed = const(args[2])
            ok = not tainted or (fixed is not None and fixed > 0) or has_memo
            obs.append(Ob('VARLEN-EMIT', fn.file, c['l'], fn.q, '%s#%d' % (callee(c), k), DISCHARGED if ok else VIOLATED,
                          '' if ok else '`%s` emits one byte per 7 bits of `%s`, which may come from a symbol that pass 1 does not know yet '
                          '(it is taken as 0 then: one byte), and nothing records the pass-1 length: the instruction grows in pass 2 '
                          'and every later label is bound too low' % (show(c)[:60], show(args[1])[:30]),
                          'value not symbol-derived, fixed size, or memo consulted', False))
    if not obs:
        raise AnalysisBroken('VARLEN-EMIT: no variable-length emission found in asm/')
    return RuleResult('VARLEN-EMIT', obs, 2, {})


def fixed_pad(prog, floor=2):
    """FIXED-PAD (C02): the variable-length emitters that take a `fixed_size` parameter (the padding that keeps a forward
    reference the same length in both passes) consult it on every path: each return of the function is dominated by a branch
    whose condition reads fixed_size.  A shortcut for one value (`if (b == 0) { emit 1 byte; return 1; }`) gives pass 1
    (unknown label = 0) a different length from pass 2."""
    from nk.cfg import dominators
    from nk.facts import kids, walk, show
    from nk.report import Ob, RuleResult, DISCHARGED, VIOLATED
    from nk.build import AnalysisBroken
    obs = []
    for fn in sorted(prog.functions(lambda f: f.file == 'core/add_bin.cpp'), key=lambda f: (f.file, f.line)):
        ps = [p for p in fn.params() if p.get('n') == 'fixed_size']
        if not ps or not fn.blocks:
            continue
        d = ps[0]['d']
        tests = {b for b, bb in fn.blocks.items() if 'cond' in bb and fn.nodes.get(bb['cond']) is not None and
                 any(x['k'] == 'DeclRefExpr' and x.get('d') == d for x in walk(fn.nodes[bb['cond']]))}
        dom = dominators(fn)
        k = 0
        for n in sorted(fn.nodes.values(), key=lambda x: x['i']):
            if n['k'] != 'ReturnStmt' or not kids(n):
                continue
            w = fn.where.get(n['i'])
            if w is None:
                continue
            k += 1
            ok = bool(tests & set(dom[w[0]]))
            obs.append(Ob('FIXED-PAD', fn.file, n['l'], fn.q, 'return#%d' % k, DISCHARGED if ok else VIOLATED,
                          '' if ok else '`return %s` is reached without any test of fixed_size: for this value the emitter ignores the '
                          'requested fixed length, so a forward reference (0 in pass 1) is shorter in pass 1 than in pass 2' %
                          show(kids(n)[0])[:30],
                          'a test of fixed_size dominates the return', True))
    if len(obs) < floor:
        raise AnalysisBroken('FIXED-PAD: only %d returns in emitters with a fixed_size parameter' % len(obs))
    return RuleResult('FIXED-PAD', obs, floor, {})


def memo_cover(prog, floor=5):
    """MEMO-COVER (C02): a pass-1 memo of a flag is not restricted to fewer operand kinds than the size tests that read the
    flag.  Instance: a memo write `memory_write(asm_context->address, K, ..)` whose innermost guard is a conjunction containing
    a flag test `X.F == 1` (F a record field).  When the guard also contains kind tests `X.type == T` the instance is decided
    against the *decision sites*: every condition elsewhere in the file that reads field F under an enclosing test
    `->type == T'` (or under no kind test at all) must have T' among the guard's kinds."""
    obs = []
    for fn, c, kind, K in memo_sites(prog):
        if kind != 'w':
            continue
        # innermost enclosing if whose then-branch contains the write
        guard = None
        prev = c
        for anc in fn.ancestors(c):
            if anc['k'] == 'IfStmt' and len(kids(anc)) >= 2 and kids(anc)[1] is not None and prev['i'] == kids(anc)[1]['i']:
                guard = kids(anc)[0]
                break
            prev = anc
        if guard is None:
            continue
        conj = []
        st = [strip(guard)]
        while st:
            x = st.pop()
            if x['k'] == 'BinaryOperator' and x.get('op') == '&&':
                st.extend(strip(k_) for k_ in kids(x))
            else:
                conj.append(x)
        flag = None
        kinds = set()
        other = False
        for x in conj:
            if x['k'] == 'BinaryOperator' and x.get('op') == '==':
                l, r = strip(kids(x)[0], casts=True), strip(kids(x)[1], casts=True)
                if l['k'] == 'MemberExpr' and l.get('n') == 'type' and r['k'] == 'DeclRefExpr' and r.get('dk') == 'enum':
                    kinds.add(r['n'])
                    continue
                if l['k'] == 'MemberExpr' and const(r) is not None and l.get('n') != 'pass':
                    flag = l.get('n')
                    continue
            other = True
        if flag is None:
            continue
        k = sum(1 for o in obs if o.file == fn.file and o.function == fn.q)
        construct = 'memo-flag:%s#%d' % (flag, k + 1)
        if not kinds:
            obs.append(Ob('MEMO-COVER', fn.file, c['l'], fn.q, construct, DISCHARGED, '',
                          'the memo is written whenever `%s` is set, for every operand kind' % flag, False))
            continue
        # decision sites reading the flag
        bad = None
        for f2 in prog.functions(lambda f: f.file == fn.file and f.blocks):
            for b, bb in f2.blocks.items():
                cn = f2.nodes.get(bb.get('cond')) if 'cond' in bb else None
                if cn is None or not any(x['k'] == 'MemberExpr' and x.get('n') == flag for x in walk(cn)):
                    continue
                if f2.key == fn.key and any(x['i'] == guard['i'] for x in walk(cn)) or cn['i'] == guard['i']:
                    continue
                # enclosing kind tests
                ctx = set()
                prev2 = cn
                for anc in f2.ancestors(cn):
                    if anc['k'] == 'IfStmt' and len(kids(anc)) >= 2 and kids(anc)[1] is not None and prev2['i'] == kids(anc)[1]['i']:
                        for x in walk(kids(anc)[0]):
                            if x['k'] == 'BinaryOperator' and x.get('op') == '==':
                                l, r = strip(kids(x)[0], casts=True), strip(kids(x)[1], casts=True)
                                if l['k'] == 'MemberExpr' and l.get('n') == 'type' and r['k'] == 'DeclRefExpr' and r.get('dk') == 'enum':
                                    ctx.add(r['n'])
                    prev2 = anc
                # skip the pass-2 restore `if (memory_read(...) == 1) flag = 1` and pure stores
                if any((callee(x) or '') == 'AsmContext::memory_read' for x in walk(cn)):
                    continue
                if not ctx or not ctx <= kinds:
                    bad = (f2, cn, ctx)
                    break
            if bad:
                break
        if bad:
            f2, cn, ctx = bad
            obs.append(Ob('MEMO-COVER', fn.file, c['l'], fn.q, construct, VIOLATED,
                          'the pass-1 memo of `%s` is written only for operand kind(s) %s, but `%s` (%s, line %d) decides a size '
                          'on that flag for %s: there pass 2 does not learn what pass 1 assumed and picks the short form once the '
                          'value is known' % (flag, sorted(kinds), show(cn)[:60], f2.q, cn['l'],
                                             ('kind ' + ', '.join(sorted(ctx))) if ctx else 'every kind')))
        else:
            obs.append(Ob('MEMO-COVER', fn.file, c['l'], fn.q, construct, DISCHARGED, '',
                          'every size test on `%s` lies under the kinds %s the memo is written for' % (flag, sorted(kinds)), True))
    if len(obs) < floor:
        raise AnalysisBroken('MEMO-COVER: only %d flag memos' % len(obs))
    return RuleResult('MEMO-COVER', obs, floor, {})

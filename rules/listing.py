"""C18 rules: SPAN (list_output gets exactly the span of the instruction just assembled), DUMP (data-section dump)."""
from nk.facts import kids, strip, const, callee, ckey, call_args, show, walk
from nk.report import Ob, RuleResult, DISCHARGED, VIOLATED, OBSERVATION
from nk.build import AnalysisBroken

ADDR_WRITERS = ('add_bin8', 'add_bin16', 'add_bin32', 'AsmContext::memory_write_inc', 'AsmContext::set_org')


def span(prog, cg):
    fn = prog.fn('AsmContext::assemble')
    obs = []
    # the local initialised from `address`
    sa = None
    for n in fn.nodes.values():
        if n['k'] == 'DeclStmt':
            for d, i in zip([d for d in n.get('decls', ()) if d.get('init')], kids(n)):
                s = strip(i, casts=True)
                if s['k'] == 'MemberExpr' and s['n'] == 'address':
                    sa = (d, n)
    pi = [c for c in fn.calls() if c.get('indirect') and strip(kids(c)[0], casts=True).get('n') == 'parse_instruction']
    lo = [c for c in fn.calls() if c.get('indirect') and strip(kids(c)[0], casts=True).get('n') == 'list_output']
    if sa is None or len(pi) != 1 or len(lo) != 1:
        raise AnalysisBroken('SPAN: assemble() not in the recognised shape (start_address / parse_instruction / list_output)')
    d, decl = sa
    pi, lo = pi[0], lo[0]
    # (1) between the snapshot and parse_instruction nothing can move `address`
    between = [c for c in fn.calls() if decl['i'] < c['i'] < pi['i'] and ckey(c)]
    movers = []
    for c in between:
        r = cg.reachable([ckey(c)])
        hit = [x for x in r if x in ADDR_WRITERS]
        if hit and callee(c) not in ('tokens_get', 'tokens_push', 'macros_append', 'macros_strip', 'macros_strip_comment',
                                     'tokens_get_char', 'tokens_unget_char'):
            movers.append('%s (reaches %s)' % (callee(c), hit[0]))
    stores = [n for n in fn.nodes.values() if decl['i'] < n['i'] < pi['i'] and n['k'] in ('BinaryOperator', 'CompoundAssignOperator', 'UnaryOperator')
              and (n.get('op') in ('++', '--') or (n.get('op', '').endswith('=') and n['op'] not in ('==', '!=', '<=', '>=')))
              and strip(kids(n)[0]).get('n') in ('address', d['n'])]
    ok = not movers and not stores
    obs.append(Ob('SPAN', fn.file, decl['l'], fn.q, 'snapshot', DISCHARGED if ok else VIOLATED,
                  'between `%s = address` and parse_instruction the location counter or the snapshot can change: %s' % (
                      d['n'], ', '.join(movers) or 'direct store') if not ok else '',
                  '`%s` is the location counter at the start of the instruction' % d['n']))
    # (2) list_output(this, start_address, address)
    a = call_args(lo)
    a1, a2 = strip(a[1], casts=True), strip(a[2], casts=True)
    ok = len(a) == 3 and a1['k'] == 'DeclRefExpr' and a1.get('d') == d['d'] and a2['k'] == 'MemberExpr' and a2['n'] == 'address'
    obs.append(Ob('SPAN', fn.file, lo['l'], fn.q, 'list_output-args', DISCHARGED if ok else VIOLATED,
                  '' if ok else 'list_output is called with (%s, %s) instead of (start of the instruction, current address)' % (show(a[1]), show(a[2])),
                  'list_output(start_address, address)', False))
    # (3) list_output follows parse_instruction with no emission in between
    ok = lo['i'] > pi['i'] and not [c for c in fn.calls() if pi['i'] < c['i'] < lo['i'] and callee(c) in ADDR_WRITERS]
    obs.append(Ob('SPAN', fn.file, lo['l'], fn.q, 'order', DISCHARGED if ok else VIOLATED,
                  '' if ok else 'list_output is not called right after parse_instruction', 'called right after parse_instruction', False))
    return RuleResult('SPAN', obs, 3, {})


def dump(prog):
    """DUMP: the 'data sections' dump of main() walks low_address..high_address, selects exactly the bytes marked
    DL_DATA and prints the byte read from the image at that address."""
    fn = prog.fn('main', 'main/naken_asm.cpp')
    obs = []
    sel = None
    for b in fn.blocks.values():
        cond = fn.nodes.get(b.get('cond')) if 'cond' in b else None
        if cond is None:
            continue
        c = strip(cond)
        if c['k'] == 'BinaryOperator' and c.get('op') == '==' and callee(strip(kids(c)[0], casts=True)) in ('AsmContext::read_debug', 'Memory::read_debug'):
            sel = (c, const(kids(c)[1]))
    if sel is None:
        raise AnalysisBroken('DUMP: selection test of the data dump not found in main()')
    ok = sel[1] == -2
    obs.append(Ob('DUMP', fn.file, sel[0]['l'], 'main', 'selects-DL_DATA', DISCHARGED if ok else VIOLATED,
                  '' if ok else 'the data dump selects debug marker %s, DL_DATA is -2' % sel[1], 'read_debug(i) == DL_DATA', False))
    idx = strip(call_args(strip(kids(sel[0])[0], casts=True))[0], casts=True)
    rd = [c for c in fn.calls() if callee(c) in ('AsmContext::memory_read', 'Memory::read8') and
          strip(call_args(c)[0], casts=True).get('d') == idx.get('d')]
    ok = bool(rd)
    obs.append(Ob('DUMP', fn.file, sel[0]['l'], 'main', 'prints-image-byte', DISCHARGED if ok else VIOLATED,
                  '' if ok else 'the dump does not print memory_read(%s)' % show(idx), 'prints memory_read(%s)' % show(idx), False))
    return RuleResult('DUMP', obs, 2, {})

; 65816: forward reference, forced long size (.l or '>'), ,x: pass 1 = 3 bytes, pass 2 = 4 bytes.
.65816
.org 0x1000
start:
  lda.l table,x
after:
  nop
  rts
table:
  db 1, 2, 3

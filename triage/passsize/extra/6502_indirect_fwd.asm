.6502
.org 0x1000
start:
  jmp (vec)
after1:
  lda (zp)
after2:
  nop
.set vec=0x5597
.set zp=0x12

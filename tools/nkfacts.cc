// nkfacts — libTooling fact extractor for the naken_asm static checks (E1).
//
// Usage: nkfacts --out=<file.json> --root=/repo <unit.cpp> -- <compile flags>
//
// For one translation unit it writes one JSON document holding, for every
// function *defined* in a file under --root (main file and repo headers):
//   * the body as a typed syntax tree with stable node ids (per unit),
//     resolved callees, evaluated integer constants, macro names,
//     constant array bounds on subscripts;
//   * the clang CFG (setAllAlwaysAdd, no EH edges) whose elements reference
//     those node ids, with reachable / possibly-unreachable successor lists,
//     terminators, labels;
// and for every variable with static storage its fully typed initialiser tree
// (this is how table/*.cpp, cpu_list[] … are read), every enum, and every
// record layout.  Nothing is decided here: the rules live in Python.

#include "clang/AST/ASTConsumer.h"
#include "clang/AST/ASTContext.h"
#include "clang/AST/RecursiveASTVisitor.h"
#include "clang/AST/ParentMapContext.h"
#include "clang/Analysis/CFG.h"
#include "clang/Frontend/CompilerInstance.h"
#include "clang/Frontend/FrontendAction.h"
#include "clang/Lex/Lexer.h"
#include "clang/Tooling/CommonOptionsParser.h"
#include "clang/Tooling/Tooling.h"
#include "llvm/Support/CommandLine.h"
#include "llvm/Support/raw_ostream.h"

#include <map>
#include <set>
#include <string>
#include <unordered_map>
#include <vector>

using namespace clang;
using namespace clang::tooling;

static llvm::cl::OptionCategory Cat("nkfacts");
static llvm::cl::opt<std::string> OutFile("out", llvm::cl::desc("output json"),
                                          llvm::cl::cat(Cat));
static llvm::cl::opt<std::string> Root("root", llvm::cl::desc("repo root"),
                                       llvm::cl::init("/repo"),
                                       llvm::cl::cat(Cat));

namespace {

// ------------------------------------------------------------------ JSON
struct J {
  std::string s;
  std::vector<bool> first;
  void sep() {
    if (!first.empty()) {
      if (!first.back()) s += ',';
      first.back() = false;
    }
  }
  void str(llvm::StringRef v) {
    s += '"';
    for (unsigned char c : v) {
      switch (c) {
      case '"': s += "\\\""; break;
      case '\\': s += "\\\\"; break;
      case '\n': s += "\\n"; break;
      case '\t': s += "\\t"; break;
      case '\r': s += "\\r"; break;
      default:
        if (c < 0x20 || c >= 0x7f) {
          char b[8];
          snprintf(b, sizeof b, "\\u%04x", c);
          s += b;
        } else
          s += (char)c;
      }
    }
    s += '"';
  }
  void key(const char *k) { sep(); str(k); s += ':'; }
  void objBegin() { sep(); s += '{'; first.push_back(true); }
  void objEnd() { s += '}'; first.pop_back(); }
  void arrBegin() { sep(); s += '['; first.push_back(true); }
  void arrEnd() { s += ']'; first.pop_back(); }
  // after key(): value writers must not emit a separator
  void kobjBegin(const char *k) { key(k); s += '{'; first.push_back(true); }
  void karrBegin(const char *k) { key(k); s += '['; first.push_back(true); }
  void kstr(const char *k, llvm::StringRef v) { key(k); str(v); }
  void kint(const char *k, long long v) { key(k); s += std::to_string(v); }
  void kbool(const char *k, bool v) { key(k); s += v ? "true" : "false"; }
  void knull(const char *k) { key(k); s += "null"; }
  void vint(long long v) { sep(); s += std::to_string(v); }
  void vstr(llvm::StringRef v) { sep(); str(v); }
  void vnull() { sep(); s += "null"; }
};

class Extractor : public RecursiveASTVisitor<Extractor> {
public:
  Extractor(ASTContext &C, J &j) : Ctx(C), SM(C.getSourceManager()), j(j) {
    PP = PrintingPolicy(C.getLangOpts());
    PP.SuppressTagKeyword = true;
    PP.Bool = true;
  }
  bool shouldVisitTemplateInstantiations() const { return true; }
  bool shouldVisitImplicitCode() const { return false; }

  ASTContext &Ctx;
  SourceManager &SM;
  J &j;
  PrintingPolicy PP{LangOptions()};

  std::map<std::string, int> typeIds;
  std::vector<std::string> types;
  std::unordered_map<const Decl *, int> declIds;
  std::unordered_map<const Stmt *, int> stmtIds;
  int nextStmt = 0;
  std::set<const Decl *> doneFns, doneVars, doneRecs, doneEnums;
  std::vector<const FunctionDecl *> fns;
  std::vector<const VarDecl *> vars;
  std::vector<const RecordDecl *> recs;
  std::vector<const EnumDecl *> enums;

  int typeId(QualType T) {
    std::string s = T.getCanonicalType().getAsString(PP);
    auto it = typeIds.find(s);
    if (it != typeIds.end()) return it->second;
    int id = types.size();
    types.push_back(s);
    typeIds[s] = id;
    return id;
  }
  int declId(const Decl *D) {
    D = D->getCanonicalDecl();
    auto it = declIds.find(D);
    if (it != declIds.end()) return it->second;
    int id = declIds.size() + 1;
    declIds[D] = id;
    return id;
  }

  std::string relFile(SourceLocation L) {
    L = SM.getExpansionLoc(L);
    if (L.isInvalid()) return "";
    llvm::StringRef f = SM.getFilename(L);
    std::string s = f.str();
    // normalise a/../b
    llvm::SmallString<256> p(s);
    llvm::sys::path::remove_dots(p, true);
    s = p.str().str();
    std::string root = Root;
    if (!root.empty() && root.back() != '/') root += '/';
    if (s.rfind(root, 0) == 0) return s.substr(root.size());
    return "";
  }
  bool inRepo(SourceLocation L) { return !relFile(L).empty(); }
  unsigned lineOf(SourceLocation L) {
    return SM.getExpansionLineNumber(L);
  }

  // ---------------------------------------------------------- collection
  bool VisitFunctionDecl(FunctionDecl *FD) {
    if (!FD->doesThisDeclarationHaveABody()) return true;
    if (FD->isDependentContext()) return true;
    if (!inRepo(FD->getLocation())) return true;
    if (doneFns.insert(FD).second) fns.push_back(FD);
    return true;
  }
  bool VisitVarDecl(VarDecl *VD) {
    if (!VD->hasGlobalStorage()) return true;
    if (isa<ParmVarDecl>(VD)) return true;
    if (VD->isInvalidDecl()) return true;
    if (!inRepo(VD->getLocation())) return true;
    if (VD->getDeclContext()->isDependentContext()) return true;
    if (doneVars.insert(VD->getCanonicalDecl()).second ||
        VD->hasInit())
      vars.push_back(VD);
    return true;
  }
  bool VisitRecordDecl(RecordDecl *RD) {
    if (!RD->isCompleteDefinition()) return true;
    if (RD->isDependentContext()) return true;
    if (!inRepo(RD->getLocation())) return true;
    if (doneRecs.insert(RD).second) recs.push_back(RD);
    return true;
  }
  bool VisitEnumDecl(EnumDecl *ED) {
    if (!ED->isCompleteDefinition()) return true;
    if (!inRepo(ED->getLocation())) return true;
    if (doneEnums.insert(ED).second) enums.push_back(ED);
    return true;
  }

  // ------------------------------------------------------------ emitters
  std::string qname(const NamedDecl *ND) {
    std::string s;
    llvm::raw_string_ostream os(s);
    ND->printQualifiedName(os);
    os.flush();
    // overloaded functions are distinguished by their parameter types
    if (auto *FD = dyn_cast<FunctionDecl>(ND)) {
      if (!isa<CXXConstructorDecl>(FD) && !FD->isOverloadedOperator()) {
        std::set<const Decl *> distinct;
        for (auto *D : FD->getDeclContext()->getRedeclContext()->lookup(FD->getDeclName()))
          if (isa<FunctionDecl>(D)) distinct.insert(D->getCanonicalDecl());
        if (distinct.size() > 1) {
          s += "(";
          bool first = true;
          for (auto *P : FD->parameters()) {
            if (!first) s += ",";
            first = false;
            s += P->getType().getCanonicalType().getAsString(PP);
          }
          s += ")";
        }
      }
    }
    return s;
  }

  void emitDeclRef(const ValueDecl *D) {
    // kind of referenced declaration
    const char *dk = "other";
    if (isa<ParmVarDecl>(D)) dk = "param";
    else if (auto *VD = dyn_cast<VarDecl>(D)) {
      if (VD->isLocalVarDecl())
        dk = VD->isStaticLocal() ? "slocal" : "local";
      else dk = "global";
    } else if (isa<FunctionDecl>(D)) dk = "func";
    else if (isa<EnumConstantDecl>(D)) dk = "enum";
    else if (isa<FieldDecl>(D)) dk = "field";
    j.kstr("dk", dk);
    j.kint("d", declId(D));
    if (isa<FunctionDecl>(D) || (isa<VarDecl>(D) && !cast<VarDecl>(D)->isLocalVarDecl() && !isa<ParmVarDecl>(D)))
      j.kstr("n", qname(D));
    else
      j.kstr("n", D->getName());
    if (auto *EC = dyn_cast<EnumConstantDecl>(D))
      j.kint("v", EC->getInitVal().getExtValue());
  }

  void emitStmt(const Stmt *S) {
    if (!S) { j.vnull(); return; }
    int id = nextStmt++;
    stmtIds[S] = id;
    j.objBegin();
    j.kint("i", id);
    j.kstr("k", S->getStmtClassName());
    SourceLocation BL = S->getBeginLoc();
    j.kint("l", lineOf(BL));
    if (BL.isMacroID()) {
      llvm::StringRef mn = Lexer::getImmediateMacroName(BL, SM, Ctx.getLangOpts());
      if (!mn.empty()) j.kstr("m", mn);
    }
    bool skipChildren = false;
    if (auto *E = dyn_cast<Expr>(S)) {
      j.kint("t", typeId(E->getType()));
      if (E->isLValue()) j.kbool("lv", true);
      // evaluated constant
      if (!isa<IntegerLiteral>(E) && !isa<CharacterLiteral>(E) &&
          !E->isValueDependent() && !E->isTypeDependent() &&
          E->getType()->isIntegralOrEnumerationType() && E->isPRValue()) {
        Expr::EvalResult R;
        if (E->EvaluateAsInt(R, Ctx, Expr::SE_NoSideEffects) && R.Val.isInt()) {
          llvm::APSInt v = R.Val.getInt();
          if (v.isSigned() || v.getActiveBits() <= 63)
            j.kint("ev", v.isSigned() ? v.getSExtValue() : (long long)v.getZExtValue());
          else {
            j.key("ev"); j.s += std::to_string(v.getZExtValue());
          }
        }
      }
    }
    if (auto *IL = dyn_cast<IntegerLiteral>(S)) {
      llvm::APInt v = IL->getValue();
      j.key("v");
      j.s += std::to_string(v.getZExtValue());
    } else if (auto *CL = dyn_cast<CharacterLiteral>(S)) {
      j.kint("v", CL->getValue());
    } else if (auto *SL = dyn_cast<StringLiteral>(S)) {
      if (SL->getCharByteWidth() == 1) j.kstr("s", SL->getString());
      j.kint("len", SL->getLength());
    } else if (auto *BL2 = dyn_cast<CXXBoolLiteralExpr>(S)) {
      j.kint("v", BL2->getValue() ? 1 : 0);
    } else if (auto *DR = dyn_cast<DeclRefExpr>(S)) {
      emitDeclRef(DR->getDecl());
    } else if (auto *ME = dyn_cast<MemberExpr>(S)) {
      j.kstr("n", ME->getMemberDecl()->getName());
      j.kint("d", declId(ME->getMemberDecl()));
      j.kbool("arrow", ME->isArrow());
      if (auto *FD = dyn_cast<FieldDecl>(ME->getMemberDecl())) {
        j.kstr("rec", qname(FD->getParent()));
        if (FD->isBitField()) j.kint("bits", FD->getBitWidthValue(Ctx));
      } else if (auto *MD = dyn_cast<CXXMethodDecl>(ME->getMemberDecl())) {
        j.kstr("rec", qname(MD->getParent()));
        j.kbool("method", true);
      }
    } else if (auto *BO = dyn_cast<BinaryOperator>(S)) {
      j.kstr("op", BO->getOpcodeStr());
      if (auto *CAO = dyn_cast<CompoundAssignOperator>(S))
        j.kint("ct", typeId(CAO->getComputationResultType()));
    } else if (auto *UO = dyn_cast<UnaryOperator>(S)) {
      j.kstr("op", UnaryOperator::getOpcodeStr(UO->getOpcode()));
      j.kbool("post", UO->isPostfix());
    } else if (auto *CE = dyn_cast<CastExpr>(S)) {
      j.kstr("ck", CE->getCastKindName());
    } else if (auto *UE = dyn_cast<UnaryExprOrTypeTraitExpr>(S)) {
      j.kstr("op", getTraitSpelling(UE->getKind()));
      if (UE->isArgumentType()) j.kint("at", typeId(UE->getArgumentType()));
    } else if (auto *AS = dyn_cast<ArraySubscriptExpr>(S)) {
      const Expr *B = AS->getBase()->IgnoreParenImpCasts();
      if (auto *CAT = Ctx.getAsConstantArrayType(B->getType()))
        j.kint("bound", CAT->getSize().getZExtValue());
    } else if (auto *C = dyn_cast<CallExpr>(S)) {
      const FunctionDecl *FD = C->getDirectCallee();
      if (auto *MC = dyn_cast<CXXMemberCallExpr>(S))
        if (auto *MD = MC->getMethodDecl()) FD = MD;
      if (FD) {
        j.kstr("callee", qname(FD));
        j.kint("cd", declId(FD));
        if (auto *MD = dyn_cast<CXXMethodDecl>(FD))
          if (MD->isVirtual()) j.kbool("virt", true);
        if (FD->getBuiltinID()) j.kbool("builtin", true);
      } else
        j.kbool("indirect", true);
      j.kint("nargs", C->getNumArgs());
    } else if (auto *CC = dyn_cast<CXXConstructExpr>(S)) {
      j.kstr("callee", qname(CC->getConstructor()));
      j.kint("cd", declId(CC->getConstructor()));
    } else if (auto *DS = dyn_cast<DeclStmt>(S)) {
      j.karrBegin("decls");
      for (auto *D : DS->decls()) {
        if (auto *VD = dyn_cast<VarDecl>(D)) {
          j.objBegin();
          j.kint("d", declId(VD));
          j.kstr("n", VD->getName());
          j.kint("t", typeId(VD->getType()));
          if (auto *CAT = Ctx.getAsConstantArrayType(VD->getType()))
            j.kint("bound", CAT->getSize().getZExtValue());
          if (VD->isStaticLocal()) j.kbool("static", true);
          j.kbool("init", VD->hasInit());
          j.objEnd();
        }
      }
      j.arrEnd();
    } else if (auto *CS = dyn_cast<CaseStmt>(S)) {
      Expr::EvalResult R;
      if (CS->getLHS() && !CS->getLHS()->isValueDependent() &&
          CS->getLHS()->EvaluateAsInt(R, Ctx))
        j.kint("v", R.Val.getInt().getExtValue());
      if (CS->getRHS()) {
        Expr::EvalResult R2;
        if (CS->getRHS()->EvaluateAsInt(R2, Ctx))
          j.kint("v2", R2.Val.getInt().getExtValue());
      }
    } else if (auto *GS = dyn_cast<GotoStmt>(S)) {
      j.kstr("n", GS->getLabel()->getName());
    } else if (auto *LS = dyn_cast<LabelStmt>(S)) {
      j.kstr("n", LS->getName());
    } else if (auto *DA = dyn_cast<CXXDefaultArgExpr>(S)) {
      // expose the default argument's value
      j.karrBegin("c");
      emitStmt(DA->getExpr());
      j.arrEnd();
      skipChildren = true;
    } else if (auto *IL2 = dyn_cast<InitListExpr>(S)) {
      if (IL2->hasArrayFiller()) j.kbool("filler", true);
    } else if (isa<LambdaExpr>(S)) {
      skipChildren = true;
    }
    if (!skipChildren) {
      bool any = false;
      for (const Stmt *Ch : S->children()) { (void)Ch; any = true; break; }
      if (any) {
        j.karrBegin("c");
        for (const Stmt *Ch : S->children()) emitStmt(Ch);
        j.arrEnd();
      }
    }
    j.objEnd();
  }

  void emitCFG(const FunctionDecl *FD) {
    CFG::BuildOptions BO;
    BO.setAllAlwaysAdd();
    BO.AddEHEdges = false;
    BO.AddImplicitDtors = false;
    BO.AddInitializers = true;
    std::unique_ptr<CFG> cfg = CFG::buildCFG(FD, FD->getBody(), &Ctx, BO);
    if (!cfg) { j.knull("cfg"); return; }
    j.kobjBegin("cfg");
    j.kint("entry", cfg->getEntry().getBlockID());
    j.kint("exit", cfg->getExit().getBlockID());
    j.karrBegin("blocks");
    for (const CFGBlock *B : *cfg) {
      j.objBegin();
      j.kint("id", B->getBlockID());
      j.karrBegin("e");
      for (const CFGElement &El : *B) {
        if (auto CS = El.getAs<CFGStmt>()) {
          auto it = stmtIds.find(CS->getStmt());
          if (it != stmtIds.end()) j.vint(it->second);
        } else if (auto CI = El.getAs<CFGInitializer>()) {
          const CXXCtorInitializer *I = CI->getInitializer();
          auto it = stmtIds.find(I->getInit());
          if (it != stmtIds.end()) j.vint(it->second);
        }
      }
      j.arrEnd();
      if (const Stmt *T = B->getTerminatorStmt()) {
        auto it = stmtIds.find(T);
        if (it != stmtIds.end()) j.kint("term", it->second);
        j.kstr("termk", T->getStmtClassName());
      }
      if (const Stmt *TC = B->getTerminatorCondition()) {
        auto it = stmtIds.find(TC);
        if (it != stmtIds.end()) j.kint("cond", it->second);
      }
      if (const Stmt *L = B->getLabel()) {
        auto it = stmtIds.find(L);
        if (it != stmtIds.end()) j.kint("label", it->second);
      }
      if (const Stmt *LT = B->getLoopTarget()) {
        auto it = stmtIds.find(LT);
        if (it != stmtIds.end()) j.kint("looptarget", it->second);
      }
      if (B->hasNoReturnElement()) j.kbool("noreturn", true);
      j.karrBegin("s");
      for (auto I = B->succ_begin(); I != B->succ_end(); ++I) {
        if (const CFGBlock *R = I->getReachableBlock()) j.vint(R->getBlockID());
        else j.vnull();
      }
      j.arrEnd();
      j.karrBegin("ps");
      for (auto I = B->succ_begin(); I != B->succ_end(); ++I) {
        const CFGBlock *R = I->getReachableBlock();
        if (!R) R = I->getPossiblyUnreachableBlock();
        if (R) j.vint(R->getBlockID()); else j.vnull();
      }
      j.arrEnd();
      j.objEnd();
    }
    j.arrEnd();
    j.objEnd();
  }

  void emitFunction(const FunctionDecl *FD) {
    j.objBegin();
    j.kstr("q", qname(FD));
    j.kstr("n", FD->getNameAsString());
    j.kint("d", declId(FD));
    j.kstr("file", relFile(FD->getLocation()));
    j.kint("line", lineOf(FD->getBeginLoc()));
    j.kint("end", lineOf(FD->getEndLoc()));
    j.kint("ret", typeId(FD->getReturnType()));
    j.kbool("static", FD->getStorageClass() == SC_Static || FD->isInAnonymousNamespace());
    j.kbool("inl", FD->isInlined());
    const char *kind = "fn";
    if (isa<CXXConstructorDecl>(FD)) kind = "ctor";
    else if (isa<CXXDestructorDecl>(FD)) kind = "dtor";
    else if (isa<CXXMethodDecl>(FD)) kind = "method";
    j.kstr("kind", kind);
    if (auto *MD = dyn_cast<CXXMethodDecl>(FD)) {
      j.kstr("cls", qname(MD->getParent()));
      if (MD->isVirtual()) j.kbool("virt", true);
      if (MD->isStatic()) j.kbool("smethod", true);
      j.karrBegin("overrides");
      for (auto *O : MD->overridden_methods()) j.vstr(qname(O));
      j.arrEnd();
    }
    if (FD->isTemplateInstantiation()) j.kbool("tinst", true);
    j.karrBegin("params");
    for (auto *P : FD->parameters()) {
      j.objBegin();
      j.kstr("n", P->getName());
      j.kint("t", typeId(P->getType()));
      j.kint("d", declId(P));
      j.objEnd();
    }
    j.arrEnd();
    // parameter names on every other declaration (R-SWAP)
    j.karrBegin("redecls");
    for (auto *R : FD->redecls()) {
      if (R == FD) continue;
      j.objBegin();
      j.kstr("file", relFile(R->getLocation()));
      j.kint("line", lineOf(R->getLocation()));
      j.karrBegin("params");
      for (auto *P : R->parameters()) j.vstr(P->getName());
      j.arrEnd();
      j.objEnd();
    }
    j.arrEnd();
    if (auto *CD = dyn_cast<CXXConstructorDecl>(FD)) {
      j.karrBegin("inits");
      for (auto *I : CD->inits()) {
        j.objBegin();
        if (I->isAnyMemberInitializer() && I->getAnyMember())
          j.kstr("field", I->getAnyMember()->getName());
        else if (I->isBaseInitializer())
          j.kstr("base", QualType(I->getBaseClass(), 0).getAsString(PP));
        j.kbool("written", I->isWritten());
        j.key("e");
        j.first.push_back(true);
        emitStmt(I->getInit());
        j.first.pop_back();
        j.objEnd();
      }
      j.arrEnd();
    }
    j.key("body");
    j.first.push_back(true);
    emitStmt(FD->getBody());
    j.first.pop_back();
    emitCFG(FD);
    j.objEnd();
  }

  void emitVar(const VarDecl *VD) {
    j.objBegin();
    j.kstr("q", qname(VD));
    j.kstr("n", VD->getName());
    j.kint("d", declId(VD));
    j.kstr("file", relFile(VD->getLocation()));
    j.kint("line", lineOf(VD->getLocation()));
    j.kint("t", typeId(VD->getType()));
    j.kbool("const", VD->getType().isConstQualified() ||
                     (VD->getType()->isArrayType() &&
                      Ctx.getBaseElementType(VD->getType()).isConstQualified()));
    j.kbool("static", VD->getStorageClass() == SC_Static);
    j.kbool("slocal", VD->isStaticLocal());
    j.kbool("member", VD->isStaticDataMember());
    j.kbool("def", VD->isThisDeclarationADefinition() == VarDecl::Definition);
    if (auto *CAT = Ctx.getAsConstantArrayType(VD->getType()))
      j.kint("bound", CAT->getSize().getZExtValue());
    if (VD->isStaticLocal())
      if (auto *F = dyn_cast<FunctionDecl>(VD->getDeclContext()))
        j.kstr("fn", qname(F));
    if (VD->hasInit() && !VD->getInit()->isValueDependent()) {
      j.key("init");
      j.first.push_back(true);
      emitStmt(VD->getInit());
      j.first.pop_back();
    }
    j.objEnd();
  }

  void emitRecord(const RecordDecl *RD) {
    j.objBegin();
    j.kstr("q", qname(RD));
    j.kstr("file", relFile(RD->getLocation()));
    j.kint("line", lineOf(RD->getLocation()));
    j.kbool("union", RD->isUnion());
    if (!RD->isInvalidDecl() && !RD->isDependentType()) {
      j.kint("size", Ctx.getTypeSizeInChars(Ctx.getRecordType(RD)).getQuantity());
    }
    j.karrBegin("fields");
    for (auto *F : RD->fields()) {
      j.objBegin();
      j.kstr("n", F->getName());
      j.kint("d", declId(F));
      j.kint("t", typeId(F->getType()));
      if (F->isBitField()) j.kint("bits", F->getBitWidthValue(Ctx));
      if (auto *CAT = Ctx.getAsConstantArrayType(F->getType()))
        j.kint("bound", CAT->getSize().getZExtValue());
      if (!RD->isInvalidDecl() && !RD->isDependentType())
        j.kint("off", Ctx.getFieldOffset(F));
      if (F->hasInClassInitializer() && F->getInClassInitializer()) {
        j.key("init");
        j.first.push_back(true);
        emitStmt(F->getInClassInitializer());
        j.first.pop_back();
      }
      j.objEnd();
    }
    j.arrEnd();
    if (auto *CR = dyn_cast<CXXRecordDecl>(RD)) {
      j.karrBegin("bases");
      for (auto &B : CR->bases()) j.vstr(B.getType().getCanonicalType().getAsString(PP));
      j.arrEnd();
      j.karrBegin("methods");
      for (auto *M : CR->methods()) {
        if (M->isImplicit()) continue;
        j.objBegin();
        j.kstr("n", M->getNameAsString());
        j.kbool("virt", M->isVirtual());
        j.kbool("pure", M->isPure());
        j.objEnd();
      }
      j.arrEnd();
    }
    j.objEnd();
  }

  void emitEnum(const EnumDecl *ED) {
    j.objBegin();
    j.kstr("q", qname(ED));
    j.kstr("file", relFile(ED->getLocation()));
    j.kint("line", lineOf(ED->getLocation()));
    j.karrBegin("consts");
    for (auto *EC : ED->enumerators()) {
      j.arrBegin();
      j.vstr(EC->getName());
      j.vint(EC->getInitVal().getExtValue());
      j.arrEnd();
    }
    j.arrEnd();
    j.objEnd();
  }

  void run(TranslationUnitDecl *TU, llvm::StringRef mainFile) {
    TraverseDecl(TU);
    j.objBegin();
    j.kstr("unit", mainFile);
    j.karrBegin("functions");
    for (auto *FD : fns) emitFunction(FD);
    j.arrEnd();
    j.karrBegin("globals");
    for (auto *VD : vars) emitVar(VD);
    j.arrEnd();
    j.karrBegin("records");
    for (auto *RD : recs) emitRecord(RD);
    j.arrEnd();
    j.karrBegin("enums");
    for (auto *ED : enums) emitEnum(ED);
    j.arrEnd();
    j.karrBegin("types");
    for (auto &t : types) j.vstr(t);
    j.arrEnd();
    j.objEnd();
  }
};

class Consumer : public ASTConsumer {
public:
  explicit Consumer(std::string mainFile) : mainFile(std::move(mainFile)) {}
  void HandleTranslationUnit(ASTContext &Ctx) override {
    if (Ctx.getDiagnostics().hasErrorOccurred()) {
      llvm::errs() << "nkfacts: parse errors in " << mainFile << "\n";
      failed = true;
      return;
    }
    J j;
    Extractor X(Ctx, j);
    std::string rel = X.relFile(Ctx.getSourceManager().getLocForStartOfFile(
        Ctx.getSourceManager().getMainFileID()));
    X.run(Ctx.getTranslationUnitDecl(), rel.empty() ? mainFile : rel);
    std::error_code EC;
    llvm::raw_fd_ostream os(OutFile, EC);
    if (EC) {
      llvm::errs() << "nkfacts: cannot write " << OutFile << "\n";
      failed = true;
      return;
    }
    os << j.s << "\n";
  }
  std::string mainFile;
  static bool failed;
};
bool Consumer::failed = false;

class Action : public ASTFrontendAction {
public:
  std::unique_ptr<ASTConsumer> CreateASTConsumer(CompilerInstance &,
                                                 llvm::StringRef f) override {
    return std::make_unique<Consumer>(f.str());
  }
};

} // namespace

int main(int argc, const char **argv) {
  auto Exp = CommonOptionsParser::create(argc, argv, Cat);
  if (!Exp) {
    llvm::errs() << Exp.takeError();
    return 2;
  }
  ClangTool Tool(Exp->getCompilations(), Exp->getSourcePathList());
  int rc = Tool.run(newFrontendActionFactory<Action>().get());
  if (rc || Consumer::failed) return 2;
  return 0;
}

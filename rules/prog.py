"""R-PROG: disassembler progress (C08).
 (a) every value a single-instruction decoder can return is >= 1 (interval analysis of each return);
 (b) in every range loop `while (A <= end)` of the range printers / listing formatters the address variable
     is advanced by a provably positive amount on every path through the body;
 (d) the page walk of UtilContext::disasm(start,end) steps exactly to the next page boundary."""
from nk.facts import kids, strip, const, callee, ckey, show, walk
from nk.interval import Analyzer, FnIntervals, type_range, TOP
from nk.cfg import natural_loops
from nk import tables
from nk.report import Ob, RuleResult, DISCHARGED, VIOLATED, OBSERVATION
from nk.build import AnalysisBroken
from rules import tbl


def decoder_functions(prog, cg):
    rows, _, g = tbl.cpu_rows(prog)
    roots = set()
    for r in rows:
        for col in ('disasm_range', 'list_output'):
            f = tables.funcref(r[col])
            if f:
                roots.add(f)
    decs = {}
    # the single-instruction decoders are the disasm_* functions called directly by the range printers and
    # listing formatters (helpers they delegate to are covered through their return ranges)
    drivers = set(roots)
    for q in cg.reachable(roots):
        fn = prog.by_key.get(q)
        if fn is not None and fn.file.startswith('disasm/') and fn.ret_type() == 'void':
            drivers.add(q)
    for drv in drivers:
        for q in cg.edges.get(drv, ()):
            base = q.split('@')[0]
            fn = prog.by_key.get(q)
            if fn is None or not fn.file.startswith('disasm/'):
                continue
            if base.startswith('disasm_') and not base.startswith('disasm_range') and fn.ret_type() == 'int':
                decs[q] = fn
    return roots, decs


def prog_a(prog, cg, an, accepted):
    roots, decs = decoder_functions(prog, cg)
    obs = []
    for q, fn in sorted(decs.items()):
        fa = FnIntervals(an, fn)
        ordinal = 0
        for n in sorted((x for x in fn.nodes.values() if x['k'] == 'ReturnStmt' and kids(x)), key=lambda x: x['i']):
            w = fn.where.get(n['i'])
            if w is None or w[0] not in fa.reached:
                continue
            ordinal += 1
            e = kids(n)[0]
            v = fa.eval_at(e, n)
            txt = show(e)[:40]
            construct = 'return %s' % txt if const(e) is not None else 'return %s#%d' % (txt, ordinal)
            tr = type_range(fn.ret_type())
            if v[0] is not None and v[0] >= 1:
                obs.append(Ob('R-PROG', fn.file, n['l'], fn.q, construct, DISCHARGED, '',
                              'returned length in [%s, %s]' % (v[0], v[1]), const(e) is None))
            elif an.skip_return is not None and an.skip_return(fn, n):
                obs.append(Ob('R-PROG', fn.file, n['l'], fn.q, construct, DISCHARGED, '',
                              'infeasible: default of a type switch whose table values all have cases (or frozen entry)'))
            elif v[0] is None or (tr != TOP and v[0] <= tr[0] + 64):
                obs.append(Ob('R-PROG', fn.file, n['l'], fn.q, construct, OBSERVATION,
                              'lower bound of the returned length `%s` not established by the interval domain' % txt))
            else:
                from rules.err import default_infeasible
                inf = default_infeasible(prog, fn, n)
                acc = accepted.get((fn.file, fn.q, construct))
                if inf:
                    obs.append(Ob('R-PROG', fn.file, n['l'], fn.q, construct, DISCHARGED, '', inf))
                elif acc:
                    obs.append(Ob('R-PROG', fn.file, n['l'], fn.q, construct, DISCHARGED, '', 'accepted: ' + acc))
                else:
                    obs.append(Ob('R-PROG', fn.file, n['l'], fn.q, construct, VIOLATED,
                                  'decoder can return length %s (range [%s, %s]): a length below one unit makes a range '
                                  'walk stall or run backwards' % (txt, v[0], v[1])))
    return obs, len(decs)


def _strip_intcast(x):
    """`start + count` with unsigned start converts a signed count implicitly; its sign is what matters."""
    while x['k'] in ('ImplicitCastExpr', 'ParenExpr') and x.get('ck') in (None, 'IntegralCast', 'LValueToRValue') \
            and x.get('ck') != 'LValueToRValue' and kids(x):
        x = kids(x)[0]
    return x


def _advance_amount(fn, fa, n, A):
    """If CFG element n updates variable A (decl id): returns interval of the increment, or 'other'."""
    k = n['k']
    if k == 'UnaryOperator' and n.get('op') in ('++', '--'):
        t = strip(kids(n)[0])
        if t['k'] == 'DeclRefExpr' and t.get('d') == A:
            return (1, 1) if n['op'] == '++' else (-1, -1)
    if k == 'CompoundAssignOperator':
        t = strip(kids(n)[0])
        if t['k'] == 'DeclRefExpr' and t.get('d') == A:
            if n['op'] == '+=':
                return fa.eval_at(_strip_intcast(kids(n)[1]), n)
            return 'other'
    if k == 'BinaryOperator' and n.get('op') == '=':
        t = strip(kids(n)[0])
        if t['k'] == 'DeclRefExpr' and t.get('d') == A:
            r = strip(kids(n)[1], casts=True)
            if r['k'] == 'BinaryOperator' and r.get('op') == '+':
                a, b = kids(r)
                for x, y in ((a, b), (b, a)):
                    sx = strip(x, casts=True)
                    if sx['k'] == 'DeclRefExpr' and sx.get('d') == A:
                        return fa.eval_at(_strip_intcast(y), n)
            return 'other'
    return None


def prog_b(prog, cg, an):
    roots, decs = decoder_functions(prog, cg)
    obs = []
    nloops = 0
    cands = set(roots)
    for q in cg.reachable(roots):
        fn = prog.by_key.get(q)
        if fn is not None and fn.file.startswith('disasm/') and fn.ret_type() == 'void':
            cands.add(q)
    cands.add('UtilContext::disasm(unsigned int,unsigned int)')
    for q in sorted(cands):
        fn = prog.by_key.get(q)
        if fn is None or not fn.blocks:
            continue
        loops = natural_loops(fn)
        fa = None
        params = {p['d']: p['n'] for p in fn.params()}
        for h, body in sorted(loops.items()):
            b = fn.blocks[h]
            cond = fn.nodes.get(b.get('cond'))
            if cond is None:
                continue
            c = strip(cond)
            if c['k'] != 'BinaryOperator' or c.get('op') not in ('<', '<='):
                continue
            l, r = strip(kids(c)[0], casts=True), strip(kids(c)[1], casts=True)
            if l['k'] != 'DeclRefExpr' or r['k'] != 'DeclRefExpr':
                continue
            if r.get('d') not in params or params[r['d']] not in ('end', 'end_address'):
                continue
            A = l['d']
            nloops += 1
            if fa is None:
                fa = FnIntervals(an, fn)
            # path search inside the loop body from the header's true edge back to the header
            start = b['s'][0]
            bad = None
            unknown = None
            seen = set()
            st = [start] if start is not None else []
            while st and bad is None:
                x = st.pop()
                if x in seen or x not in body:
                    continue
                if x == h:
                    bad = 'a path through the loop body reaches the loop test again without advancing `%s`' % l['n']
                    break
                seen.add(x)
                advanced = False
                for e in fn.blocks[x]['e']:
                    n = fn.nodes.get(e)
                    if n is None:
                        continue
                    amt = _advance_amount(fn, fa, n, A)
                    if amt is None:
                        continue
                    if amt == 'other':
                        continue
                    if amt[0] is not None and amt[0] >= 1:
                        advanced = True
                        break
                    if amt[0] is None or amt[0] <= -2**31 + 64:
                        unknown = show(n)[:50]
                        advanced = True
                        break
                    bad = '`%s` is advanced by `%s` whose range [%s, %s] is not provably >= 1' % (
                        l['n'], show(n)[:50], amt[0], amt[1])
                    badnode = n
                    break
                if bad or advanced:
                    continue
                for s in fn.succs(x):
                    if s == h:
                        bad = 'a path through the loop body reaches the loop test again without advancing `%s`' % l['n']
                        break
                    st.append(s)
            construct = 'loop %s %s %s' % (l['n'], c['op'], r['n'])
            if not bad and unknown:
                obs.append(Ob('R-PROG', fn.file, cond['l'], fn.q, construct, OBSERVATION,
                              'advance `%s`: lower bound of the increment not established by the interval domain' % unknown))
                continue
            obs.append(Ob('R-PROG', fn.file, cond['l'], fn.q, construct, VIOLATED if bad else DISCHARGED, bad or '',
                          'every path through the body advances `%s` by an amount with lower bound >= 1' % l['n']))
    return obs, nloops


def prog_d(prog, an):
    """Page walk of UtilContext::disasm(start,end): the step lands on the next page boundary."""
    fn = prog.by_key.get('UtilContext::disasm(unsigned int,unsigned int)')
    if fn is None:
        raise AnalysisBroken('R-PROG: UtilContext::disasm(uint32_t,uint32_t) not found')
    from nk.bitflow import Sym
    s = Sym(prog, fn, fn.body, inline=False)
    obs = []
    loops = natural_loops(fn)
    found = False
    for h, body in loops.items():
        cond = fn.nodes.get(fn.blocks[h].get('cond'))
        if cond is None:
            continue
        c = strip(cond)
        if c['k'] != 'BinaryOperator' or c.get('op') not in ('<', '<='):
            continue
        l = strip(kids(c)[0], casts=True)
        if l['k'] != 'DeclRefExpr':
            continue
        A = l['d']
        # collect updates of A in the body
        ups = []
        for bid in body:
            for e in fn.blocks[bid]['e']:
                n = fn.nodes.get(e)
                if n is None:
                    continue
                t = None
                if n['k'] in ('CompoundAssignOperator', 'BinaryOperator') and n.get('op') in ('+=', '='):
                    t = strip(kids(n)[0])
                if t is not None and t['k'] == 'DeclRefExpr' and t.get('d') == A:
                    ups.append(n)
        if not ups:
            continue
        found = True
        for n in ups:
            ok, why = _page_step_ok(fn, s, n, A, l['n'])
            obs.append(Ob('R-PROG', fn.file, n['l'], fn.q, 'page-step', DISCHARGED if ok else VIOLATED,
                          '' if ok else why, why if ok else ''))
    if not found:
        raise AnalysisBroken('R-PROG: page walk loop of UtilContext::disasm not recognised')
    return obs


def _page_step_ok(fn, s, n, A, name):
    """Recognised exact idioms for `advance n to the next page start`:
         n += P - (n & (P-1));   n = (n | (P-1)) + 1;   n = (n & ~(P-1)) + P
       where P is the page size and P-1 the page mask (locals resolved through their single definitions)."""
    def resolve(x):
        x = strip(x, casts=True)
        if x['k'] == 'DeclRefExpr' and x.get('dk') == 'local' and x.get('d') != A:
            asg = s.assignments().get(x['d'], [])
            # a constant initialiser that is overwritten before use in the loop does not count
            asg = [a for a in asg if not (a[2]['k'] == 'DeclStmt' and const(a[1]) is not None and len(asg) > 1)]
            plain = [(op, rhs) for op, rhs, st in asg if op == '=']
            if len(plain) == 1 and len(asg) == 1:
                return resolve(plain[0][1])
        return x

    def is_A(x):
        x = strip(x, casts=True)
        return x['k'] == 'DeclRefExpr' and x.get('d') == A

    def is_page_size(x):
        x = resolve(x)
        return (x['k'] in ('CXXMemberCallExpr', 'CallExpr') and 'get_page_size' in (callee(x) or '')) or \
            (const(x) is not None and const(x) > 1 and const(x) & (const(x) - 1) == 0)

    def is_mask(x):
        x = resolve(x)
        if const(x) is not None:
            v = const(x) + 1
            return v > 1 and v & (v - 1) == 0
        if x['k'] == 'BinaryOperator' and x.get('op') == '-' and const(kids(x)[1]) == 1:
            return is_page_size(kids(x)[0])
        return False

    rhs = kids(n)[1]
    if n['op'] == '+=':
        r = resolve(rhs)
        if r['k'] == 'BinaryOperator' and r.get('op') == '-' and is_page_size(kids(r)[0]):
            m = resolve(kids(r)[1])
            if m['k'] == 'BinaryOperator' and m.get('op') == '&':
                a, b = kids(m)
                if (is_A(a) and is_mask(b)) or (is_A(b) and is_mask(a)):
                    return True, 'step is page_size - (%s & page_mask): lands exactly on the next page start, >= 1' % name
        if is_page_size(r):
            return False, ('the walk steps by a whole page from a start that is not page aligned: it keeps the in-page '
                           'offset, so the loop test can fail one page early and the last page (or the block behind a '
                           'gap) is never disassembled')
        return False, 'unrecognised page step `%s`' % show(n)[:60]
    r = resolve(rhs)
    if r['k'] == 'BinaryOperator' and r.get('op') == '+':
        a, b = (resolve(x) for x in kids(r))
        for x, y in ((a, b), (b, a)):
            if x['k'] == 'BinaryOperator' and x.get('op') == '|' and const(y) == 1:
                p, q = kids(x)
                if (is_A(p) and is_mask(q)) or (is_A(q) and is_mask(p)):
                    return True, 'step is (%s | page_mask) + 1' % name
            if x['k'] == 'BinaryOperator' and x.get('op') == '&' and is_page_size(y):
                return True, 'step is (%s & ~page_mask) + page_size' % name
            if is_A(x) and is_page_size(y):
                return False, 'the walk steps by a whole page from a start that is not page aligned'
    return False, 'unrecognised page step `%s`' % show(n)[:60]


def run(prog, cg, accepted=None):
    an = Analyzer(prog)
    from rules.err import default_infeasible
    memo = {}

    import json, os
    table = json.load(open(os.path.join(os.path.dirname(os.path.abspath(__file__)), 'prog_table.json')))
    infeasible = {(e['file'], e['function'], e['construct']) for e in table.get('infeasible_returns', [])}

    def skip(fn, n):
        k = (fn.key, n['i'])
        if k not in memo:
            e = kids(n)[0] if kids(n) else None
            c = 'return %s' % show(e)[:40] if e is not None and const(e) is not None else None
            memo[k] = bool(default_infeasible(prog, fn, n)) or (fn.file, fn.q, c) in infeasible
        return memo[k]
    an.skip_return = skip
    from rules.err import dead_default_edges
    an.dead_edges = lambda fn: dead_default_edges(prog, fn)
    a, ndec = prog_a(prog, cg, an, accepted or {})
    b, nloops = prog_b(prog, cg, an)
    d = prog_d(prog, an)
    return RuleResult('R-PROG', a + b + d, 850, {'decoders': ndec, 'range_loops': nloops})


TILE_ACCEPTED = {('disasm/webasm.cpp', 'disasm_range_webasm'):
                 'the second advance skips the br_table operand list that print_table() has just printed and returns the length of'}


def tile_once(prog, floor=60):
    """TILE-ONCE (C08): a range printer / listing formatter that advances its address by the decoder's length
    (`start += count`) advances it nowhere else in the loop: every other store to the address variable inside the loop makes
    some instruction consume more (or fewer) bytes than the decoder reported, so the following bytes are skipped or decoded
    twice."""
    obs = []
    for fn in sorted(prog.functions(lambda f: f.file.startswith('disasm/') and f.name.startswith(('disasm_range_', 'list_output_')) and f.blocks),
                     key=lambda f: (f.file, f.line)):
        ps = [p for p in fn.params() if p.get('n') == 'start']
        if not ps:
            continue
        d = ps[0]['d']
        k = 0
        for h, body in sorted(natural_loops(fn).items()):
            cn = fn.nodes.get(fn.blocks[h].get('cond')) if 'cond' in fn.blocks[h] else None
            if cn is None or not any(x['k'] == 'DeclRefExpr' and x.get('d') == d for x in walk(cn)):
                continue
            sts = []
            for n in fn.nodes.values():
                w = fn.where.get(n['i'])
                if w is None or w[0] not in body:
                    continue
                if n['k'] in ('BinaryOperator', 'CompoundAssignOperator') and n.get('op', '').endswith('=') and \
                        n['op'] not in ('==', '!=', '<=', '>=') and strip(kids(n)[0]).get('d') == d:
                    sts.append(n)
                elif n['k'] == 'UnaryOperator' and n.get('op') in ('++', '--') and strip(kids(n)[0]).get('d') == d:
                    sts.append(n)
            bycount = [n for n in sts if any(x['k'] == 'DeclRefExpr' and x.get('n') == 'count' for x in walk(n))]
            if not bycount:
                continue
            k += 1
            extra = [n for n in sts if n not in bycount]
            construct = 'range-loop#%d' % k
            if not extra:
                obs.append(Ob('TILE-ONCE', fn.file, bycount[0]['l'], fn.q, construct, DISCHARGED, '',
                              '`%s` is the only store to the address in the loop' % show(bycount[0]), False))
            elif (fn.file, fn.q) in TILE_ACCEPTED:
                obs.append(Ob('TILE-ONCE', fn.file, extra[0]['l'], fn.q, construct, DISCHARGED, '',
                              'accepted: ' + TILE_ACCEPTED[(fn.file, fn.q)], False))
            else:
                obs.append(Ob('TILE-ONCE', fn.file, extra[0]['l'], fn.q, construct, VIOLATED,
                              'the loop advances by the decoder length (`%s`, line %d) and also by `%s` (line %d): an instruction '
                              'then consumes more bytes than the decoder reported and the bytes behind it are never decoded' % (
                                  show(bycount[0]), bycount[0]['l'], show(extra[0]), extra[0]['l'])))
    if len(obs) < floor:
        raise AnalysisBroken('TILE-ONCE: only %d range loops advancing by the decoder length' % len(obs))
    return RuleResult('TILE-ONCE', obs, floor, {})

"""T-ORACLE: RV32I base and MSP430 core encodings typed in from the architecture manuals, compared with
(a) the opcode tables, (b) the encoder's field insertions, (c) the decoder's field extractions."""
from nk.facts import kids, strip, const, callee, call_args, show, walk
from nk.bitflow import Sym, summarize
from nk import tables
from nk.report import Ob, RuleResult, DISCHARGED, VIOLATED, OBSERVATION
from nk.build import AnalysisBroken

# ---------------------------------------------------------------- RISC-V unprivileged spec, RV32I base
# mnemonic -> (opcode word with all fields zero, format)
RV32I = {
    'lui': (0x00000037, 'U'), 'auipc': (0x00000017, 'U'), 'jal': (0x0000006f, 'J'), 'jalr': (0x00000067, 'I'),
    'beq': (0x00000063, 'B'), 'bne': (0x00001063, 'B'), 'blt': (0x00004063, 'B'), 'bge': (0x00005063, 'B'),
    'bltu': (0x00006063, 'B'), 'bgeu': (0x00007063, 'B'),
    'lb': (0x00000003, 'L'), 'lh': (0x00001003, 'L'), 'lw': (0x00002003, 'L'), 'lbu': (0x00004003, 'L'),
    'lhu': (0x00005003, 'L'),
    'sb': (0x00000023, 'S'), 'sh': (0x00001023, 'S'), 'sw': (0x00002023, 'S'),
    'addi': (0x00000013, 'I'), 'slti': (0x00002013, 'I'), 'sltiu': (0x00003013, 'I'), 'xori': (0x00004013, 'I'),
    'ori': (0x00006013, 'I'), 'andi': (0x00007013, 'I'),
    'slli': (0x00001013, 'SH'), 'srli': (0x00005013, 'SH'), 'srai': (0x40005013, 'SH'),
    'add': (0x00000033, 'R'), 'sub': (0x40000033, 'R'), 'sll': (0x00001033, 'R'), 'slt': (0x00002033, 'R'),
    'sltu': (0x00003033, 'R'), 'xor': (0x00004033, 'R'), 'srl': (0x00005033, 'R'), 'sra': (0x40005033, 'R'),
    'or': (0x00006033, 'R'), 'and': (0x00007033, 'R'),
    'fence': (0x0000000f, 'F'), 'ecall': (0x00000073, 'N'), 'ebreak': (0x00100073, 'N'),
}
# fixed (non-operand) bits of each format
RV_FIXED = {'U': 0x0000007f, 'J': 0x0000007f, 'I': 0x0000707f, 'B': 0x0000707f, 'L': 0x0000707f, 'S': 0x0000707f,
            'SH': 0xfe00707f, 'R': 0xfe00707f, 'F': 0xf00fffff, 'N': 0xffffffff}
# table operand types accepted per format (enumerator names of table/riscv.h)
RV_TYPES = {'U': {'OP_U_TYPE'}, 'J': {'OP_UJ_TYPE'}, 'I': {'OP_I_TYPE'}, 'B': {'OP_SB_TYPE'},
            'L': {'OP_RD_INDEX_R'}, 'S': {'OP_RS_INDEX_R'}, 'SH': {'OP_SHIFT'}, 'R': {'OP_R_TYPE'},
            'F': {'OP_FENCE'}, 'N': {'OP_FFFF', 'OP_NONE'}}


def _rng(dst_lo, src_lo, n):
    return {dst_lo + i: src_lo + i for i in range(n)}


def _merge(*ds):
    out = {}
    for d in ds:
        out.update(d)
    return out


# encoder: instruction bit <- immediate bit
RV_ENC_IMM = {
    'B': _merge({31: 12}, _rng(25, 5, 6), _rng(8, 1, 4), {7: 11}),
    'J': _merge({31: 20}, _rng(21, 1, 10), {20: 11}, _rng(12, 12, 8)),
    'S': _merge(_rng(25, 5, 7), _rng(7, 0, 5)),
    'L': _rng(20, 0, 12),
}
# encoder: register operands (assembler operand index -> bit position of the 5-bit field), immediates that are
# inserted unmasked (operand index -> shift)
RV_ENC = {
    'OP_R_TYPE': {'regs': {0: 7, 1: 15, 2: 20}},
    'OP_I_TYPE': {'regs': {0: 7, 1: 15}, 'imm_shift': {2: 20}},
    'OP_SHIFT': {'regs': {0: 7, 1: 15}, 'imm_shift': {2: 20}},
    'OP_U_TYPE': {'regs': {0: 7}, 'imm_shift': {1: 12}},
    'OP_SB_TYPE': {'regs': {0: 15, 1: 20}, 'imm_bits': 'B'},
    'OP_UJ_TYPE': {'regs': {0: 7}, 'imm_bits': 'J'},
    'OP_RD_INDEX_R': {'regs': {0: 7, 1: 15}, 'imm_bits': 'L'},
    'OP_RS_INDEX_R': {'regs': {0: 20, 1: 15}, 'imm_bits': 'S'},
}
# decoder: operand value bit <- instruction bit, in the order the operands are printed
F_RD, F_RS1, F_RS2 = _rng(0, 7, 5), _rng(0, 15, 5), _rng(0, 20, 5)
F_I = _rng(0, 20, 12)
F_U = _rng(0, 12, 20)
F_B = {v: k for k, v in RV_ENC_IMM['B'].items()}
F_J = {v: k for k, v in RV_ENC_IMM['J'].items()}
F_S = {v: k for k, v in RV_ENC_IMM['S'].items()}
RV_DEC = {
    'OP_R_TYPE': [F_RD, F_RS1, F_RS2],
    'OP_I_TYPE': [F_RD, F_RS1, F_I],
    'OP_SHIFT': [F_RD, F_RS1, F_RS2],
    'OP_U_TYPE': [F_RD, F_U],
    'OP_SB_TYPE': [F_RS1, F_RS2, F_B],
    'OP_UJ_TYPE': [F_RD, F_J],
    'OP_RD_INDEX_R': [F_RD, F_I, F_RS1],
    'OP_RS_INDEX_R': [F_RS2, F_S, F_RS1],
}

# ---------------------------------------------------------------- MSP430x1xx Family User's Guide, core ISA
MSP430 = {
    'rrc': (0x1000, 'II'), 'swpb': (0x1080, 'II'), 'rra': (0x1100, 'II'), 'sxt': (0x1180, 'II'),
    'push': (0x1200, 'II'), 'call': (0x1280, 'II'), 'reti': (0x1300, 'N'),
    'jne': (0x2000, 'J'), 'jnz': (0x2000, 'J'), 'jeq': (0x2400, 'J'), 'jz': (0x2400, 'J'),
    'jnc': (0x2800, 'J'), 'jlo': (0x2800, 'J'), 'jc': (0x2c00, 'J'), 'jhs': (0x2c00, 'J'), 'jn': (0x3000, 'J'),
    'jge': (0x3400, 'J'), 'jl': (0x3800, 'J'), 'jmp': (0x3c00, 'J'),
    'mov': (0x4000, 'I'), 'add': (0x5000, 'I'), 'addc': (0x6000, 'I'), 'subc': (0x7000, 'I'), 'sub': (0x8000, 'I'),
    'cmp': (0x9000, 'I'), 'dadd': (0xa000, 'I'), 'bit': (0xb000, 'I'), 'bic': (0xc000, 'I'), 'bis': (0xd000, 'I'),
    'xor': (0xe000, 'I'), 'and': (0xf000, 'I'),
}
MSP_FIXED = {'I': 0xf000, 'II': 0xff80, 'J': 0xfc00, 'N': 0xffff}
MSP_TYPES = {'I': {'OP_TWO_OPERAND'}, 'II': {'OP_ONE_OPERAND', 'OP_ONE_OPERAND_W', 'OP_ONE_OPERAND_X'},
             'J': {'OP_JUMP'}, 'N': {'OP_NONE'}}
# decoder field inventories (instruction bit ranges that must be extracted): (lo, width)
MSP_DEC = {
    'one_operand': {'As': (4, 2), 'reg': (0, 4), 'B/W': (6, 1)},
    'two_operand': {'Ad': (7, 1), 'As': (4, 2), 'src': (8, 4), 'dst': (0, 4), 'B/W': (6, 1)},
    'relative_jump': {'offset': (0, 10)},
}
# encoder: inserted leaf (member name) -> shift, per table type
MSP_ENC = {
    'OP_ONE_OPERAND': {'bw': 6, 'params[0].mode': 4, 'params[0].reg': 0},
    'OP_TWO_OPERAND': {'bw': 6, 'params[0].mode': 4, 'params[0].reg': 8, 'params[1].mode': 7, 'params[1].reg': 0},
}


def _enum_names(prog, header, prefix='OP_'):
    inv = {}
    for e in prog.enums.values():
        if e['file'] == header:
            for n, v in e['consts']:
                if n.startswith(prefix):
                    inv[v] = n
    return inv


def table_level(prog, tname, header, oracle, fixed, types, word_bits, generic_word):
    """(a): rows, opcode words, operand types, and first-match of a generic encoding."""
    rws, fields, g = tables.rows(prog, tname)
    inv = _enum_names(prog, header)
    if prog.global_writes().get(tname):
        raise AnalysisBroken('%s is written at run time' % tname)
    obs = []
    body = [(i, r) for i, r in enumerate(rws) if r and not tables.is_null(r.get('instr'))]
    if len(body) == len(rws):
        obs.append(Ob('T-ORACLE', g['file'], g['line'], tname, 'sentinel', VIOLATED,
                      'table has no terminating row with a null mnemonic'))
    for mn, (word, fmt) in sorted(oracle.items()):
        cands = [(i, r) for i, r in body if tables.strval(r['instr']) == mn and
                 inv.get(const(r['type'])) in types[fmt]]
        construct = '%s:%s' % (tname, mn)
        if not cands:
            anyrow = [(i, r) for i, r in body if tables.strval(r['instr']) == mn]
            det = 'no row for `%s` with an operand type of format %s' % (mn, fmt)
            if anyrow:
                det += ' (rows with that mnemonic have types %s)' % sorted({inv.get(const(r['type'])) for _, r in anyrow})
            obs.append(Ob('T-ORACLE', g['file'], g['line'], tname, construct, VIOLATED, det))
            continue
        i, r = cands[0]
        line = r['instr']['l']
        op, mask = const(r['opcode']), const(r['mask'])
        if op != word:
            obs.append(Ob('T-ORACLE', g['file'], line, tname, construct, VIOLATED,
                          'opcode word of `%s` is %#x, the architecture manual defines %#x' % (mn, op, word)))
            continue
        # a generic encoding of this instruction (operand fields set to a pattern no alias uses) must be
        # matched first by a row with the same opcode word and an operand type of the same format
        w = word | (generic_word & ~fixed[fmt] & ((1 << word_bits) - 1))
        first = None
        for j, r2 in body:
            if 'version' in r2 and tname == 'table_msp430' and inv.get(const(r2['type']), '').startswith('OP_X_'):
                continue
            m2, o2 = const(r2['mask']), const(r2['opcode'])
            if (w & m2) == o2:
                first = (j, r2)
                break
        if first is None or const(first[1]['opcode']) != word:
            det = 'the encoding %#x of `%s` is first matched by row `%s` (opcode %#x mask %#x)' % (
                w, mn, tables.strval(first[1]['instr']) if first else None,
                const(first[1]['opcode']) if first else 0, const(first[1]['mask']) if first else 0)
            obs.append(Ob('T-ORACLE', g['file'], line, tname, construct, VIOLATED, det))
            continue
        if mask != fixed[fmt]:
            obs.append(Ob('T-ORACLE', g['file'], line, tname, construct + ':mask', OBSERVATION,
                          'mask %#x differs from the format\'s fixed bits %#x (only loses or widens renderings)' % (mask, fixed[fmt])))
        obs.append(Ob('T-ORACLE', g['file'], line, tname, construct, DISCHARGED, '',
                      'row %d: opcode %#x == manual, type %s of format %s, generic encoding %#x first matched by this opcode'
                      % (i, op, inv.get(const(r['type'])), fmt, w)))
    return obs


def _case_regions(fn, sw):
    """{case value or 'default': [statements]} of a switch (fallthrough labels share their statements)."""
    out = {}
    body = kids(sw)[-1]
    cur = []
    for st in kids(body):
        labels = []
        x = st
        while x is not None and x['k'] in ('CaseStmt', 'DefaultStmt'):
            labels.append(x.get('v', 'default') if x['k'] == 'CaseStmt' else 'default')
            x = kids(x)[-1]
        if labels:
            cur = labels
            for l in labels:
                out.setdefault(l, [])
            for l in cur:
                out[l].append(x)
        else:
            for l in cur:
                out[l].append(st)
    return out


def type_switches(prog, fn, tname, field='type'):
    """Switch statements of fn whose condition is <tname>[…].<field> (directly or via a local copy)."""
    res = []
    for n in fn.nodes.values():
        if n['k'] != 'SwitchStmt':
            continue
        cond = None
        for b in fn.blocks.values():
            if b.get('term') == n['i']:
                cond = fn.nodes.get(b.get('cond'))
        if cond is None:
            continue
        c = strip(cond, casts=True)
        if c['k'] == 'DeclRefExpr' and c.get('dk') == 'local':
            s = Sym(prog, fn)
            asg = s.assignments().get(c['d'], [])
            if len(asg) == 1 and asg[0][0] == '=':
                c = strip(asg[0][1], casts=True)
        if c['k'] == 'MemberExpr' and c['n'] == field and tname in show(c):
            res.append(n)
    return res


def _region(stmts):
    return {'i': -1, 'k': 'CompoundStmt', 'l': 0, 'c': list(stmts)}


def riscv_encoder(prog):
    fn = prog.fn('parse_instruction_riscv')
    inv = _enum_names(prog, 'table/riscv.h')
    sws = type_switches(prog, fn, 'table_riscv')
    if not sws:
        raise AnalysisBroken('T-ORACLE: no switch on table_riscv[].type in parse_instruction_riscv')
    obs = []
    found = set()
    for sw in sws:
        for v, stmts in _case_regions(fn, sw).items():
            name = inv.get(v)
            if name not in RV_ENC:
                continue
            spec = RV_ENC[name]
            region = _region(stmts)
            s = Sym(prog, fn, region)
            emits = [x for st in stmts for x in walk(st) if callee(x) == 'add_bin32']
            full = None
            for e in emits:
                t = s.sym(call_args(e)[1])
                if len(t) > 1:
                    full = (e, t)
            if full is None:
                raise AnalysisBroken('T-ORACLE: encoder case %s has no recognisable add_bin32(opcode | fields)' % name)
            found.add(name)
            e, terms = full
            summ, cval = summarize(terms, 32)
            problems = []
            regs_seen = {}
            imm_bits = {}
            imm_shift = {}
            for leaf, info in summ.items():
                if leaf.startswith('table_riscv['):
                    continue
                idx = None
                if leaf.startswith('operands[') and leaf[9:].split(']')[0].isdigit():
                    idx = int(leaf[9:].split(']')[0])
                member = leaf.split('.')[-1] if '.' in leaf else ''
                is_reg = idx is not None and idx in spec['regs'] and member == 'value' and not info['bits']
                if is_reg:
                    regs_seen[idx] = info['shifts']
                elif info['bits']:
                    for b, sb in info['bits'].items():
                        imm_bits.setdefault(leaf, {})[b] = sb
                else:
                    imm_shift[leaf] = (idx, info['shifts'])
            for idx, pos in spec['regs'].items():
                got = regs_seen.get(idx)
                if got != {pos}:
                    problems.append('register operand %d is inserted at bit %s, the ISA puts it at bit %d' % (
                        idx, sorted(got) if got else 'nowhere', pos))
            if 'imm_bits' in spec:
                want = RV_ENC_IMM[spec['imm_bits']]
                if not imm_bits:
                    problems.append('no masked immediate insertion found')
                for leaf, bm in imm_bits.items():
                    if bm != want:
                        diff = sorted((b, bm.get(b), want.get(b)) for b in set(bm) | set(want) if bm.get(b) != want.get(b))
                        problems.append('immediate %s: instruction bit <- immediate bit differs from the ISA at %s' % (
                            leaf, ['bit %d: code %s, ISA %s' % d for d in diff[:4]]))
            if 'imm_shift' in spec:
                for idx, pos in spec['imm_shift'].items():
                    got = [sh for leaf, (i2, sh) in imm_shift.items() if i2 == idx]
                    if got != [{pos}]:
                        problems.append('immediate operand %d is inserted at bit %s, the ISA puts it at bit %d' % (
                            idx, [sorted(g) for g in got], pos))
            st = VIOLATED if problems else DISCHARGED
            obs.append(Ob('T-ORACLE', fn.file, e['l'], fn.q, 'enc:' + name, st, '; '.join(problems),
                          'field insertions %s equal the ISA format' % sorted(
                              (l, sorted(i['shifts']), len(i['bits'])) for l, i in summ.items())))
    missing = set(RV_ENC) - found
    if missing:
        raise AnalysisBroken('T-ORACLE: encoder cases not found: %s' % sorted(missing))
    return obs


def riscv_decoder(prog):
    fn = prog.fn('disasm_riscv')
    inv = _enum_names(prog, 'table/riscv.h')
    sws = type_switches(prog, fn, 'table_riscv')
    if not sws:
        raise AnalysisBroken('T-ORACLE: no switch on table_riscv[].type in disasm_riscv')
    obs = []
    found = set()
    for sw in sws:
        for v, stmts in _case_regions(fn, sw).items():
            name = inv.get(v)
            if name not in RV_DEC:
                continue
            want = RV_DEC[name]
            # locals like rd/rs1 are defined outside the case: resolve over the whole function but let the
            # case's own assignments (immediate = …) take precedence by using a combined region
            s = Sym(prog, fn, _region(stmts))
            outer = Sym(prog, fn, fn.body, stop=('opcode',))
            pr = [x for st in stmts for x in walk(st) if callee(x) == 'snprintf']
            if len(pr) != 1:
                raise AnalysisBroken('T-ORACLE: decoder case %s has %d snprintf calls' % (name, len(pr)))
            found.add(name)
            args = call_args(pr[0])[3:]
            got = []
            for a in args:
                bm = {}
                for t in _sym_dec(s, outer, a):
                    if t.leaf == 'opcode' and t.dmask is not None:
                        for b in range(32):
                            if t.dmask >> b & 1:
                                bm[b] = b - t.shift
                if bm:
                    got.append(bm)
            # consecutive duplicates (value printed twice, e.g. hex and decimal) collapse
            coll = []
            for bm in got:
                if not coll or coll[-1] != bm:
                    coll.append(bm)
            problems = []
            if len(coll) != len(want):
                problems.append('prints %d operand fields, the format has %d' % (len(coll), len(want)))
            else:
                for i, (g, w) in enumerate(zip(coll, want)):
                    if g != w:
                        # sign extension may add bits above the field: compare on the field's bits
                        gi = {k: v2 for k, v2 in g.items() if k in w}
                        if gi != w:
                            problems.append('operand %d is taken from instruction bits %s, the ISA defines %s' % (
                                i, _fmt(g), _fmt(w)))
            obs.append(Ob('T-ORACLE', fn.file, pr[0]['l'], fn.q, 'dec:' + name, VIOLATED if problems else DISCHARGED,
                          '; '.join(problems), 'printed operands read instruction bits %s' % [_fmt(g) for g in coll]))
    missing = set(RV_DEC) - found
    if missing:
        raise AnalysisBroken('T-ORACLE: decoder cases not found: %s' % sorted(missing))
    return obs


def _sym_dec(s, outer, a):
    """Resolve an argument: registers are printed through name tables (riscv_reg_names[rd]); locals defined
    outside the case (rd, rs1, …) are resolved in the whole function."""
    a = strip(a, casts=True)
    if a['k'] == 'ArraySubscriptExpr':
        return _sym_dec(s, outer, kids(a)[1])
    t = s.sym(a)
    out = []
    for x in t:
        if x.leaf is not None and x.leaf != 'opcode' and x.node is not None and x.node['k'] == 'DeclRefExpr' \
                and x.node.get('dk') == 'local' and x.shift == 0 and x.dmask in (None, 0xffffffff, 0xffff, 0xff):
            out += outer.sym(x.node)
        else:
            out.append(x)
    return out


def _fmt(bm):
    if not bm:
        return '{}'
    items = sorted(bm.items())
    runs = []
    start = prev = items[0]
    for it in items[1:]:
        if it[0] == prev[0] + 1 and it[1] == prev[1] + 1:
            prev = it
            continue
        runs.append((start, prev))
        start = prev = it
    runs.append((start, prev))
    return ','.join('[%d:%d]<-[%d:%d]' % (b[0], a[0], b[1], a[1]) for a, b in runs)


def msp430_decoder(prog):
    obs = []
    for fname, want in MSP_DEC.items():
        fn = prog.fn(fname, 'disasm/msp430.cpp')
        s = Sym(prog, fn, fn.body, inline=False)
        have = set()
        for d, asg in s.assignments().items():
            for op, rhs, st in asg:
                if rhs is None:
                    continue
                for t in s.sym(rhs):
                    if t.leaf == 'opcode' and t.dmask is not None and t.shift <= 0:
                        srcbits = sorted(b - t.shift for b in range(16) if t.dmask >> b & 1)
                        if srcbits and srcbits == list(range(srcbits[0], srcbits[0] + len(srcbits))) and t.dmask & 1:
                            have.add((srcbits[0], len(srcbits)))
        # tests of single bits: (opcode & 0x0040) == 0
        for n in fn.nodes.values():
            if n['k'] == 'BinaryOperator' and n.get('op') == '&':
                l, m = strip(kids(n)[0], casts=True), const(kids(n)[1])
                if l['k'] == 'DeclRefExpr' and l['n'] == 'opcode' and m and m & (m - 1) == 0:
                    have.add((m.bit_length() - 1, 1))
        for field, (lo, w) in want.items():
            ok = (lo, w) in have
            obs.append(Ob('T-ORACLE', fn.file, fn.line, fn.q, 'dec:%s:%s' % (fname, field),
                          DISCHARGED if ok else VIOLATED,
                          '' if ok else 'the decoder never extracts %s = instruction bits [%d:%d] (fields extracted: %s)' % (
                              field, lo + w - 1, lo, sorted(have)),
                          'extracts bits [%d:%d]' % (lo + w - 1, lo)))
    return obs


def msp430_encoder(prog):
    fn = prog.fn('parse_instruction_msp430')
    inv = _enum_names(prog, 'table/msp430.h')
    sws = type_switches(prog, fn, 'table_msp430')
    if not sws:
        raise AnalysisBroken('T-ORACLE: no switch on table_msp430[].type in parse_instruction_msp430')
    obs = []
    found = set()
    for sw in sws:
        for v, stmts in _case_regions(fn, sw).items():
            name = inv.get(v)
            if name == 'OP_JUMP':
                # jump: 10-bit word offset in bits 9..0
                s = Sym(prog, fn, _region(stmts))
                ok = False
                for st in stmts:
                    for x in walk(st):
                        if x['k'] == 'CompoundAssignOperator' and x.get('op') == '|=':
                            for t in s.sym(kids(x)[1]):
                                if t.dmask == 0x3ff and t.shift == 0:
                                    ok = True
                found.add(name)
                obs.append(Ob('T-ORACLE', fn.file, stmts[0]['l'], fn.q, 'enc:OP_JUMP', DISCHARGED if ok else VIOLATED,
                              '' if ok else 'jump offset is not inserted as a 10-bit field at bit 0',
                              'offset & 0x3ff inserted at bit 0'))
                continue
            if name not in MSP_ENC:
                continue
            want = MSP_ENC[name]
            s = Sym(prog, fn, _region(stmts), inline=False)
            got = {}
            for st in stmts:
                for x in walk(st):
                    if x['k'] == 'CompoundAssignOperator' and x.get('op') == '|=':
                        l = strip(kids(x)[0])
                        if l['k'] == 'DeclRefExpr' and l['n'] == 'opcode':
                            for t in s.sym(kids(x)[1]):
                                if t.leaf is not None:
                                    key = t.leaf.split('data.')[-1]
                                    got.setdefault(key, set()).add(t.shift)
            found.add(name)
            problems = []
            for leaf, pos in want.items():
                if got.get(leaf) != {pos}:
                    problems.append('%s is inserted at bit %s, the ISA puts it at bit %d' % (
                        leaf, sorted(got.get(leaf, [])) or 'nowhere', pos))
            obs.append(Ob('T-ORACLE', fn.file, stmts[0]['l'], fn.q, 'enc:' + name, VIOLATED if problems else DISCHARGED,
                          '; '.join(problems), 'insertions %s' % sorted((k, sorted(v2)) for k, v2 in got.items())))
    missing = (set(MSP_ENC) | {'OP_JUMP'}) - found
    if missing:
        raise AnalysisBroken('T-ORACLE: msp430 encoder cases not found: %s' % sorted(missing))
    return obs


def run(prog):
    obs = []
    obs += table_level(prog, 'table_riscv', 'table/riscv.h', RV32I, RV_FIXED, RV_TYPES, 32,
                       # rd=x10, rs1=x21, rs2/shamt=x11, upper imm bits 0b0100101 (avoids every alias pattern)
                       (0b01010 << 7) | (0b10101 << 15) | (0b01011 << 20) | (0b0100101 << 25) | (0b101 << 12))
    obs += riscv_encoder(prog)
    obs += riscv_decoder(prog)
    obs += table_level(prog, 'table_msp430', 'table/msp430.h', MSP430, MSP_FIXED, MSP_TYPES, 16,
                       (0b0101 << 8) | (1 << 7) | (0 << 6) | (0b01 << 4) | 0b0110)
    obs += msp430_encoder(prog)
    obs += msp430_decoder(prog)
    return RuleResult('T-ORACLE', obs, 95, {'rv32i_instructions': len(RV32I), 'msp430_instructions': len(MSP430)})

"""C11 / C09 rules: T-SIB(b) pool walkers, FIND-ORDER, DUP, T-SIB(h) definition names, SCOPE-WIDTH, marker/stack agreement."""
from nk.facts import kids, strip, const, callee, ckey, call_args, show, walk
from nk.cfg import natural_loops
from nk.bitflow import type_width
from nk.report import Ob, RuleResult, DISCHARGED, VIOLATED, OBSERVATION
from nk.build import AnalysisBroken


def pool_walkers(prog, floor=8):
    """T-SIB(b): a function that advances a MemoryPool cursor (`p = p->next`) inside a loop and indexes
    `p->buffer + off` restarts `off` at 0 whenever the cursor advances, and dereferences the cursor it advances."""
    obs = []
    for fn in prog.functions(lambda f: f.file.startswith(('core/', 'fileio/'))):
        if not fn.blocks:
            continue
        adv = []
        for n in fn.nodes.values():
            if n['k'] == 'BinaryOperator' and n.get('op') == '=':
                l, r = strip(kids(n)[0]), strip(kids(n)[1], casts=True)
                if r['k'] == 'MemberExpr' and r['n'] == 'next' and r.get('rec') == 'MemoryPool':
                    adv.append((n, show(l)))
                    # a local alias `MemoryPool *p = cursor;` counts as the cursor
                    for d in fn.nodes.values():
                        if d['k'] == 'DeclStmt' and kids(d):
                            for dd, i in zip([x for x in d.get('decls', ()) if x.get('init')], kids(d)):
                                if show(strip(i, casts=True)) == show(l):
                                    adv.append((n, dd['n']))
        if not adv:
            continue
        # offset expressions used with <cursor>->buffer + off
        offs = set()
        for n in fn.nodes.values():
            if n['k'] == 'BinaryOperator' and n.get('op') == '+':
                a, b = strip(kids(n)[0], casts=True), strip(kids(n)[1], casts=True)
                if a['k'] == 'MemberExpr' and a['n'] == 'buffer' and a.get('rec') == 'MemoryPool':
                    offs.add((show(kids(a)[0]), show(b)))
        if not offs:
            continue
        loops = natural_loops(fn)
        for n, cur in adv:
            w = fn.where.get(n['i'])
            if w is None:
                continue
            inloops = [(h, body) for h, body in loops.items() if w[0] in body]
            if not inloops:
                continue
            h, body = max(inloops, key=lambda x: len(x[1]))
            for c2, off in sorted(offs):
                problems = []
                if c2 != cur:
                    # dereferencing another cursor than the one advanced is fine only if that cursor is advanced too
                    if not any(c == c2 for _, c in adv):
                        problems.append('`%s->buffer` is indexed but the loop advances `%s`' % (c2, cur))
                    else:
                        continue
                # off must be assigned 0 somewhere in the loop body (or be a constant / fresh local per iteration)
                reset = False
                for bid in body:
                    for e in fn.blocks[bid]['e']:
                        x = fn.nodes.get(e)
                        if x is None:
                            continue
                        if x['k'] == 'BinaryOperator' and x.get('op') == '=' and show(kids(x)[0]) == off and const(kids(x)[1]) == 0:
                            reset = True
                        if x['k'] == 'DeclStmt' and any(d['n'] == off for d in x.get('decls', ())) and kids(x) and const(kids(x)[0]) == 0:
                            reset = True
                if not reset and not off.isdigit():
                    # a walker that only looks for free space at the end (`p->buffer + p->ptr`) needs no offset reset
                    if off.endswith('->ptr') and off.startswith(cur):
                        reset = True
                if not reset and not problems:
                    problems.append('offset `%s` is not restarted at 0 when `%s` moves to the next pool: entries of later pools are '
                                    'skipped or misread' % (off, cur))
                obs.append(Ob('T-SIB', fn.file, n['l'], fn.q, 'pool-walk:%s+%s' % (c2, off), VIOLATED if problems else DISCHARGED,
                              '; '.join(problems), 'offset restarts at 0 with the cursor'))
    return RuleResult('T-SIB(b)', obs, floor, {})


def find_order(prog):
    """FIND-ORDER: Symbols::find searches the current scope (only when in a scope) before the global scope."""
    fn = prog.fn('Symbols::find')
    comps = []
    for n in sorted(fn.nodes.values(), key=lambda x: x['i']):
        if n['k'] == 'BinaryOperator' and n.get('op') == '==':
            t = show(n)
            if 'scope' in t and 'strcmp' not in t:
                comps.append((n, t))
    obs = []
    ok = len(comps) == 2 and 'current_scope' in comps[0][1] and const(kids(comps[1][0])[1]) == 0
    # the scoped loop is guarded by in_scope
    guarded = False
    if comps:
        for a in fn.ancestors(comps[0][0]):
            if a['k'] == 'IfStmt':
                ks = [k for k in kids(a) if k is not None]
                if 'in_scope' in show(ks[0]):
                    guarded = True
    ok = ok and guarded
    obs.append(Ob('FIND-ORDER', fn.file, fn.line, fn.q, 'scope-then-global', DISCHARGED if ok else VIOLATED,
                  '' if ok else 'Symbols::find no longer searches `scope == current_scope` (under in_scope) before `scope == 0`: %s' % [c[1] for c in comps],
                  'current scope (if in_scope) first, then scope 0'))
    return RuleResult('FIND-ORDER', obs, 1, {})


def defnames(prog):
    """T-SIB(h): wherever a token buffer filled by tokens_get is passed as the *name* of a definition
    (Symbols::append/set/export_symbol, macros_append), that tokens_get runs with ignore_symbols == 1
    (set immediately before, cleared immediately after) so the name is not replaced by an existing symbol's value."""
    obs = []
    for fn in prog.functions(lambda f: f.file in ('core/directives.cpp', 'core/AsmContext.cpp', 'core/Macros.cpp')):
        for c in sorted(fn.calls(), key=lambda x: x['i']):
            if callee(c) not in ('Symbols::append', 'Symbols::set', 'Symbols::export_symbol', 'macros_append'):
                continue
            a = call_args(c)
            name = strip(a[1] if callee(c) == 'macros_append' else a[0], casts=True)
            if name['k'] != 'DeclRefExpr' or name.get('dk') != 'local':
                continue
            # the tokens_get call that last filled this buffer before the definition
            fills = [t for t in fn.calls() if callee(t) == 'tokens_get' and t['i'] < c['i'] and
                     strip(call_args(t)[1], casts=True).get('d') == name['d']]
            if not fills:
                continue
            t = fills[-1]
            # statement containing the tokens_get and its neighbours in the enclosing compound statement
            st = t
            par = fn.parent.get(st['i'])
            while par is not None and par['k'] != 'CompoundStmt':
                st, par = par, fn.parent.get(par['i'])
            ok = False
            if par is not None:
                sib = [x for x in kids(par) if x is not None]
                i = sib.index(st)

                def sets(x, v):
                    x = strip(x)
                    return x['k'] == 'BinaryOperator' and x.get('op') == '=' and strip(kids(x)[0]).get('n') == 'ignore_symbols' and const(kids(x)[1]) == v
                ok = i > 0 and i + 1 < len(sib) and sets(sib[i - 1], 1) and sets(sib[i + 1], 0)
            # labels (`name:`) are recognised by the tokenizer itself and never substituted
            if fn.q == 'AsmContext::assemble':
                continue
            obs.append(Ob('T-SIB', fn.file, c['l'], fn.q, 'defname:%s(%s)' % (callee(c).split('::')[-1], name['n']),
                          DISCHARGED if ok else VIOLATED,
                          '' if ok else 'the name passed to %s was read by tokens_get with symbol substitution on: an already defined '
                          'name arrives as its value, so a redefinition is not detected' % callee(c),
                          'read under ignore_symbols = 1'))
    return RuleResult('T-SIB(h)', obs, 3, {})


def scope_width(prog):
    """SCOPE-WIDTH: Entry::scope holds every value current_scope can take."""
    rec = prog.records.get('Symbols::Entry')
    sym = prog.records.get('Symbols')
    if rec is None or sym is None:
        raise AnalysisBroken('SCOPE-WIDTH: Symbols records not found')
    ws = [type_width(rec['types'][f['t']]) for f in rec['fields'] if f['n'] == 'scope']
    wc = [type_width(sym['types'][f['t']]) for f in sym['fields'] if f['n'] == 'current_scope']
    fn = prog.fn('Symbols::scope_start')
    guarded = any(n['k'] == 'BinaryOperator' and n.get('op') in ('>=', '==', '>') and 'current_scope' in show(kids(n)[0]) and
                  (const(kids(n)[1]) or 0) >= 255 for n in fn.nodes.values())
    ok = (ws and wc and ws[0] >= wc[0]) or guarded
    obs = [Ob('SCOPE-WIDTH', rec['file'], rec['line'], 'Symbols::Entry', 'scope-width', DISCHARGED if ok else VIOLATED,
              '' if ok else 'Entry::scope is %s bits but current_scope is %s bits and scope_start() has no limit: the 65536th '
              'scope is stored as 0, i.e. its local labels become global' % (ws, wc), 'entry scope as wide as the counter or limited')]
    return RuleResult('SCOPE-WIDTH', obs, 1, {})


# ------------------------------------------------------------------------------------------ C09 rules
def marker(prog):
    """T-SIB(f): the macro parameter marker byte and index base written by macros_parse equal the ones
    macros_expand_params and Macros::dump test/use."""
    mp = prog.fn('macros_parse')
    me = prog.fn('macros_expand_params')
    md = prog.fn('Macros::dump')
    gp = [f for f in prog.by_name.get('get_param_index', []) if f.file == 'core/Macros.cpp']
    if not gp:
        raise AnalysisBroken('T-SIB(f): get_param_index not found')
    gp = gp[0]
    # writer: macro[ptr++] = K; macro[ptr++] = index;
    wk = None
    stmts = sorted((n for n in mp.nodes.values() if n['k'] == 'BinaryOperator' and n.get('op') == '=' and
                    strip(kids(n)[0])['k'] == 'ArraySubscriptExpr' and show(kids(strip(kids(n)[0]))[0]) == 'macro'), key=lambda x: x['i'])
    for a, b in zip(stmts, stmts[1:]):
        if const(kids(a)[1]) is not None and strip(kids(b)[1], casts=True).get('n') == 'index':
            wk = const(kids(a)[1])
    base_w = None
    for n in gp.nodes.values():
        if n['k'] == 'ReturnStmt' and kids(n):
            e = strip(kids(n)[0], casts=True)
            if e['k'] == 'BinaryOperator' and e.get('op') == '+' and const(kids(e)[1]) is not None:
                base_w = const(kids(e)[1])
    if base_w is None:
        # other spellings (`count++; ... return count;`): the smallest value a match can return
        from nk.interval import Analyzer
        fa = Analyzer(prog)._fa_cache(gp)
        lows = []
        for n in gp.nodes.values():
            if n['k'] == 'ReturnStmt' and kids(n) and const(kids(n)[0]) is None:
                lo = fa.eval_at(kids(n)[0], n)[0]
                if lo is not None:
                    lows.append(lo)
        if lows:
            base_w = min(lows)

    def tested(fn, var):
        for n in fn.nodes.values():
            if n['k'] == 'BinaryOperator' and n.get('op') == '==' and show(kids(n)[0]).replace('(cast)', '') in ('*' + var,) and const(kids(n)[1]) is not None:
                return const(kids(n)[1])
        return None
    rk_e, rk_d = tested(me, 'define'), tested(md, 'value')
    base_r = None
    for n in me.nodes.values():
        if n['k'] == 'ArraySubscriptExpr' and show(kids(n)[0]) == 'params_ptr':
            e = strip(kids(n)[1], casts=True)
            if e['k'] == 'BinaryOperator' and e.get('op') == '-' and const(kids(e)[1]) is not None:
                m = strip(kids(e)[0], casts=True)
                src = show(m)
                if m['k'] == 'DeclRefExpr' and m.get('dk') in ('local', 'var', None):
                    # a local copy `const int index = (uint8_t)*define;`
                    for d in me.nodes.values():
                        if d['k'] == 'DeclStmt':
                            for dd, i in zip([x for x in d.get('decls', ()) if x.get('init')], kids(d)):
                                if dd.get('d') == m.get('d') or dd.get('n') == m.get('n'):
                                    src = show(i)
                if 'define' in src:
                    base_r = const(kids(e)[1])
    if None in (wk, rk_e, rk_d, base_w, base_r):
        raise AnalysisBroken('T-SIB(f): marker sites not recognised (%s %s %s %s %s)' % (wk, rk_e, rk_d, base_w, base_r))
    obs = []
    ok = wk == rk_e == rk_d
    obs.append(Ob('T-SIB', mp.file, mp.line, 'macros', 'marker-byte', DISCHARGED if ok else VIOLATED,
                  '' if ok else 'macros_parse writes marker %d, macros_expand_params tests %d, Macros::dump tests %d' % (wk, rk_e, rk_d),
                  'marker byte %d on all three sides' % wk))
    ok = base_w == base_r
    obs.append(Ob('T-SIB', mp.file, mp.line, 'macros', 'index-base', DISCHARGED if ok else VIOLATED,
                  '' if ok else 'parameter index is stored as position+%d but read as value-%d: every argument is substituted by its neighbour' % (base_w, base_r),
                  'index stored +%d, read -%d' % (base_w, base_r)))
    return RuleResult('T-SIB(f)', obs, 2, {})


def save_restore(prog):
    """SAVE-RESTORE: include_parse puts back the reader state it replaced (input file, file name, line,
    listing switch) on every path to its exit."""
    from nk.cfg import forward_paths
    fn = prog.fn('include_parse')
    obs = []
    saves = []
    for n in sorted(fn.nodes.values(), key=lambda x: x['i']):
        if n['k'] == 'BinaryOperator' and n.get('op') == '=':
            l, r = strip(kids(n)[0]), strip(kids(n)[1], casts=True)
            if l['k'] == 'DeclRefExpr' and l.get('dk') == 'local' and r['k'] == 'MemberExpr' and 'asm_context' in show(r):
                saves.append((n, l, r))
    if len(saves) < 3:
        raise AnalysisBroken('SAVE-RESTORE: include_parse saves %d fields' % len(saves))
    for n, l, r in saves:
        w = fn.where.get(n['i'])

        def classify(x, l=l, r=r):
            if x is None:
                return 'exit without restoring %s' % r['n']
            if x['k'] == 'BinaryOperator' and x.get('op') == '=':
                a, b = strip(kids(x)[0]), strip(kids(x)[1], casts=True)
                if a['k'] == 'MemberExpr' and a['n'] == r['n'] and b['k'] == 'DeclRefExpr' and b.get('d') == l['d']:
                    return 'stop'
            return None
        bad = forward_paths(fn, w[0], w[1] + 1, classify)
        obs.append(Ob('SAVE-RESTORE', fn.file, n['l'], fn.q, 'restore:' + r['n'], VIOLATED if bad else DISCHARGED,
                      'a path from saving `%s` to the end of include_parse does not put it back: the including file continues with '
                      'the included file\'s %s' % (r['n'], r['n']) if bad else '', 'restored on every path'))
    return RuleResult('SAVE-RESTORE', obs, 3, {})


def repeat(prog):
    """REPEAT: parse_repeat copies exactly the image range [address before the body, address after the body)
    count-1 more times, reading each byte from the image and emitting it with add_bin8."""
    fn = prog.fn('parse_repeat')
    obs = []
    asm = [c for c in fn.calls() if callee(c) == 'AsmContext::assemble']
    if len(asm) != 1:
        raise AnalysisBroken('REPEAT: parse_repeat not in the recognised shape')
    start = end = None
    for n in sorted(fn.nodes.values(), key=lambda x: x['i']):
        if n['k'] == 'DeclStmt':
            for d, i in zip([d for d in n.get('decls', ()) if d.get('init')], kids(n)):
                s = strip(i, casts=True)
                if s['k'] == 'MemberExpr' and s['n'] == 'address':
                    if n['i'] < asm[0]['i']:
                        start = d
                    else:
                        end = end or d
    loops = [n for n in fn.nodes.values() if n['k'] == 'ForStmt']
    inner = None
    for lp in loops:
        t = show(lp)
        body_calls = [callee(x) for x in walk(lp)]
        if 'AsmContext::memory_read' in body_calls and not any(x['k'] == 'ForStmt' and x is not lp for x in walk(lp)):
            inner = lp
    problems = []
    if start is None or end is None or inner is None:
        raise AnalysisBroken('REPEAT: start/end snapshots or copy loop not found')
    ks = [k for k in kids(inner) if k is not None]
    init, cond = strip(ks[0]), strip(ks[1])
    if not (init['k'] == 'BinaryOperator' and strip(kids(init)[1], casts=True).get('d') == start['d']):
        problems.append('copy loop does not start at the address before the body')
    if not (cond['k'] == 'BinaryOperator' and cond.get('op') == '<' and strip(kids(cond)[1], casts=True).get('d') == end['d']):
        problems.append('copy loop does not stop before the address after the body')
    rv = strip(kids(init)[0]).get('d') if init['k'] == 'BinaryOperator' else None
    reads = [x for x in walk(inner) if callee(x) == 'AsmContext::memory_read' and strip(call_args(x)[0], casts=True).get('d') == rv]
    emits = [x for x in walk(inner) if callee(x) == 'add_bin8']
    if not reads or not emits:
        problems.append('copy loop does not read memory_read(r) and emit it with add_bin8')
    outer = [lp for lp in loops if lp is not inner and any(x is inner for x in walk(lp))]
    if outer:
        oc = strip([k for k in kids(outer[0]) if k is not None][1])
        rhs = strip(kids(oc)[1], casts=True)
        if not (oc.get('op') == '<' and rhs['k'] == 'BinaryOperator' and rhs.get('op') == '-' and const(kids(rhs)[1]) == 1):
            problems.append('outer loop does not run count-1 times (the body itself is the first copy)')
    else:
        problems.append('no outer repeat loop')
    obs.append(Ob('REPEAT', fn.file, inner['l'], fn.q, 'copy-loop', VIOLATED if problems else DISCHARGED, '; '.join(problems),
                  'copies [start, end) count-1 times from the image'))
    return RuleResult('REPEAT', obs, 1, {})


def _assigned_vars(fn, bid):
    """Declaration ids stored to (=, op=, ++/--) by the elements of block bid, with the node."""
    out = []
    for e in fn.blocks[bid]['e']:
        n = fn.nodes.get(e)
        if n is None:
            continue
        tgt = None
        if n['k'] in ('BinaryOperator', 'CompoundAssignOperator') and (n.get('op') == '=' or n.get('op', '').endswith('=') and n.get('op') not in ('==', '!=', '<=', '>=')):
            tgt = strip(kids(n)[0])
        elif n['k'] == 'UnaryOperator' and n.get('op') in ('++', '--'):
            tgt = strip(kids(n)[0])
        if tgt is not None and tgt['k'] == 'DeclRefExpr':
            out.append((tgt.get('d'), n))
    return out


def find_exhaustive(prog, scope=None, floor=4):
    """FIND-EXHAUSTIVE: a lookup loop (a loop that tests `strcmp(...) == 0` on the entries it walks) is left early only
    through the match: every edge out of the loop comes either from a test that mentions only the loop's cursors
    (variables advanced on every iteration) and loop-invariant values, or from a block dominated by the match."""
    from nk.cfg import dominators
    scope = scope or (lambda f: f.file in ('core/Symbols.cpp', 'core/Macros.cpp', 'core/Linker.cpp', 'core/imports_ar.cpp',
                                           'core/imports_obj.cpp', 'core/imports_get_int.cpp'))
    obs = []
    for fn in prog.functions(scope):
        if not fn.blocks:
            continue
        # match blocks: cond contains strcmp(...) == 0 as its own (rightmost) test
        matches = {}
        for bid, b in fn.blocks.items():
            c = fn.nodes.get(b.get('cond')) if 'cond' in b else None
            if c is None:
                continue
            cs = strip(c)
            while cs['k'] == 'BinaryOperator' and cs.get('op') in ('&&', '||'):
                cs = strip(kids(cs)[1])
            if cs['k'] == 'BinaryOperator' and cs.get('op') == '==' and const(kids(cs)[1]) == 0:
                l = strip(kids(cs)[0], casts=True)
                if l['k'] == 'CallExpr' and callee(l) in ('strcmp', 'strcasecmp') and len(b['s']) == 2 and b['s'][0] is not None:
                    matches[bid] = b['s'][0]
        # MATCH-EXACT: a lookup that compares with strncmp/memcmp over the length of one of the two names matches every
        # stored name the searched name is a prefix of (or vice versa) unless the terminator is compared as well
        for bid, b in fn.blocks.items():
            c = fn.nodes.get(b.get('cond')) if 'cond' in b else None
            if c is None:
                continue
            for x in walk(c):
                if x['k'] == 'CallExpr' and callee(x) in ('strncmp', 'strncasecmp', 'memcmp'):
                    a_ = call_args(x)
                    if len(a_) == 3 and const(a_[2]) is None and natural_loops(fn) and any(bid in body for body in natural_loops(fn).values()):
                        txt = show(c)
                        lens = show(a_[2])
                        term = ('[%s]' % lens) in txt
                        if not term:
                            obs.append(Ob('MATCH-EXACT', fn.file, x['l'], fn.q, 'prefix-match:%s' % show(a_[2])[:20], VIOLATED,
                                          '`%s` compares only %s characters inside a lookup loop: a name that is a prefix of (or has '
                                          'as prefix) a stored name matches the wrong entry' % (show(x)[:60], lens)))
        if not matches:
            continue
        dom = dominators(fn)
        preds = fn.preds()
        loops = natural_loops(fn)
        k = 0
        for h, body in sorted(loops.items()):
            ms = {m: t for m, t in matches.items() if m in body}
            if not ms:
                continue
            k += 1
            latches = [t for t in body if h in fn.succs(t)]
            assigned = {}
            for bid in body:
                for d, n in _assigned_vars(fn, bid):
                    assigned.setdefault(d, []).append((bid, n))

            def after_match(bid):
                for m, t in ms.items():
                    if t in dom[bid] and (set(preds[t]) <= {m}):
                        return True
                return False
            cursors = {d for d, sites in assigned.items() if any(all(bid in dom[l] for l in latches) for bid, _ in sites)}
            problems = []
            for bid in sorted(body):
                outs = [s for s in fn.succs(bid) if s not in body]
                if not outs or after_match(bid):
                    continue
                b = fn.blocks[bid]
                c = fn.nodes.get(b.get('cond')) if 'cond' in b else None
                if c is None:
                    problems.append((bid, None, 'line %s: leaves the loop unconditionally before the remaining entries are compared' % _line_of(fn, bid)))
                    continue
                cs = strip(c)
                while cs['k'] == 'BinaryOperator' and cs.get('op') in ('&&', '||'):
                    cs = strip(kids(cs)[1])
                if bid in ms:
                    continue       # the false edge of the match itself cannot leave the loop ... unless it is the loop test
                bad = []
                for x in walk(cs):
                    if x['k'] == 'DeclRefExpr' and x.get('d') in assigned and x.get('d') not in cursors:
                        sites = assigned[x['d']]
                        if not all(after_match(sb) for sb, _ in sites):
                            bad.append(x['n'])
                if bid == h or _is_header_part(fn, h, bid, body):
                    if bad:
                        problems.append((bid, c, 'line %d: the loop test `%s` depends on `%s`, which is set without a match: the search '
                                         'can stop before every entry is compared' % (c['l'], show(c)[:50], bad[0])))
                    continue
                # an exit from inside the body that is not behind the match
                problems.append((bid, c, 'line %d: `%s` leaves the lookup loop without a match: later entries are never compared' % (c['l'], show(c)[:50])))
            hl = _line_of(fn, h)
            obs.append(Ob('FIND-EXHAUSTIVE', fn.file, hl, fn.q, 'lookup-loop#%d' % k, VIOLATED if problems else DISCHARGED,
                          '; '.join(p[2] for p in problems[:2]),
                          'every early exit of the lookup loop at line %s is behind the strcmp match; loop tests use only cursors %s' % (
                              hl, sorted({n_['n'] for d in cursors for _, s_ in assigned[d] for n_ in [strip(kids(s_)[0])]}))))
    return RuleResult('FIND-EXHAUSTIVE', obs, floor, {})


def _line_of(fn, bid):
    b = fn.blocks[bid]
    for e in list(b['e']) + ([b['cond']] if 'cond' in b else []):
        n = fn.nodes.get(e)
        if n is not None and 'l' in n:
            return n['l']
    return fn.line


def _is_header_part(fn, h, bid, body):
    """bid belongs to the loop test: reachable from the header through condition-only blocks (`a && b` tests)."""
    seen, st = set(), [h]
    while st:
        x = st.pop()
        if x in seen or x not in body:
            continue
        seen.add(x)
        b = fn.blocks[x]
        only_cond = all(fn.nodes.get(e) is None or fn.nodes[e]['k'] not in ('CallExpr', 'DeclStmt', 'CompoundAssignOperator') and
                        not (fn.nodes[e]['k'] == 'BinaryOperator' and fn.nodes[e].get('op') == '=') for e in b['e'])
        if not ('cond' in b and (only_cond or x == h) and b.get('termk') in ('WhileStmt', 'ForStmt', 'BinaryOperator', 'DoStmt')):
            continue
        if x == bid:
            return True
        if b.get('termk') == 'BinaryOperator':
            st.extend(s for s in fn.succs(x))
    return False


def unget_eof(prog):
    """UNGET-EOF: characters pushed back with tokens_unget_char() come back from tokens_get_char() with the same int
    value, EOF (-1) included: the unget buffer's element type is signed (or at least as wide as int), so the
    `return tokens.unget[--ptr]` conversion to int restores -1.  With an unsigned byte buffer a pushed-back EOF returns
    as 255 and the text after an `equ` on the last line of an include file (no trailing newline) is misread."""
    from nk.bitflow import type_width
    rec = None
    for name in ('_tokens', 'Tokens'):
        rec = prog.records.get(name) or rec
    if rec is None:
        raise AnalysisBroken('UNGET-EOF: record Tokens not found')
    fld = [f for f in rec['fields'] if f['n'] == 'unget']
    if not fld:
        raise AnalysisBroken('UNGET-EOF: Tokens::unget not found')
    et = rec['types'][fld[0]['t']].split('[')[0].strip()
    signed = et in ('char', 'signed char', 'short', 'int', 'long', 'int8_t', 'int16_t', 'int32_t')
    # the store must come from an int-valued expression and an EOF must be able to reach it: look for the store
    un = prog.fn('tokens_unget_char')
    stores = [n for n in un.nodes.values() if n['k'] == 'BinaryOperator' and n.get('op') == '=' and 'unget' in show(kids(n)[0])]
    if not stores:
        raise AnalysisBroken('UNGET-EOF: tokens_unget_char does not store into unget[]')
    obs = [Ob('UNGET-EOF', rec['file'], rec['line'], 'Tokens', 'unget-element', DISCHARGED if signed else VIOLATED,
              '' if signed else 'Tokens::unget elements are %s: a pushed-back EOF (-1) is read back as %d, an ordinary character' % (
                  et, (1 << (type_width(et) or 8)) - 1),
              'element type %s converts back to the int that was stored' % et, False)]
    return RuleResult('UNGET-EOF', obs, 1, {})


def dup_global(prog):
    """DUP-GLOBAL (C11): Symbols::append() rejects a second definition of a name found by find() whenever no scope is open:
    the condition that guards the "already defined" exit evaluates to true under `in_scope == false`, whatever the other
    operands are (three-valued evaluation of the condition tree).  Scopes only *permit* shadowing a global from inside a scope;
    outside of one a duplicate is an error (current_scope never returns to 0 after the first `.scope`)."""
    fn = prog.fn('Symbols::append')

    def ev(n):
        n = strip(n, casts=True)
        k = n['k']
        if k == 'BinaryOperator' and n.get('op') in ('||', '&&'):
            a, b = ev(kids(n)[0]), ev(kids(n)[1])
            if n['op'] == '||':
                return True if (a is True or b is True) else (False if (a is False and b is False) else None)
            return False if (a is False or b is False) else (True if (a is True and b is True) else None)
        if k == 'UnaryOperator' and n.get('op') == '!':
            v = ev(kids(n)[0])
            return None if v is None else (not v)
        if k == 'BinaryOperator' and n.get('op') in ('==', '!='):
            l, r = strip(kids(n)[0], casts=True), strip(kids(n)[1], casts=True)
            for x, y in ((l, r), (r, l)):
                if x['k'] == 'MemberExpr' and x.get('n') == 'in_scope':
                    c = const(y)
                    if c is None and y['k'] == 'CXXBoolLiteralExpr':
                        c = 1 if y.get('v') else 0
                    if c is not None:
                        return (c == 0) if n['op'] == '==' else (c != 0)
            return None
        if k == 'MemberExpr' and n.get('n') == 'in_scope':
            return False
        return None
    obs = []
    # the error exits under `entry != nullptr`: blocks that print "already defined"
    for b, bb in sorted(fn.blocks.items()):
        for e in bb['e']:
            n = fn.nodes.get(e)
            if n is None or n['k'] != 'CallExpr' or (callee(n) or '').split('(')[0] != 'printf':
                continue
            if not any(x['k'] == 'StringLiteral' and 'already defined' in (x.get('s') or '') for x in walk(n)):
                continue
            # innermost enclosing if
            prev = n
            guard = None
            for anc in fn.ancestors(n):
                if anc['k'] == 'IfStmt' and len(kids(anc)) >= 2 and kids(anc)[1] is not None and \
                        any(x['i'] == n['i'] for x in walk(kids(anc)[1])):
                    guard = kids(anc)[0]
                    break
            if guard is None:
                continue
            v = ev(guard)
            obs.append(Ob('DUP-GLOBAL', fn.file, guard['l'], fn.q, 'already-defined-guard', DISCHARGED if v is True else VIOLATED,
                          '' if v is True else 'with no scope open (`in_scope == false`) the guard `%s` of the "already defined" error is '
                          'not necessarily true: a global label defined twice can be accepted' % show(guard)[:70],
                          'true whenever in_scope is false', False))
    if not obs:
        raise AnalysisBroken('DUP-GLOBAL: no "already defined" exit in Symbols::append')
    return RuleResult('DUP-GLOBAL', obs, 1, {})

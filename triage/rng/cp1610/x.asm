.cp1610
.org 0xffff
  b 0
.org 0xffff
  b 1
.org 0x1fffe
  b 0

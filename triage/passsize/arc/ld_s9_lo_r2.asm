.arc
start:
  ld r2, [r3, fwd]
after:
  nop_s
.set fwd=-5000

#!/usr/bin/env python3
"""Fire tests from the independently seeded changes: every seeded/<id>/patch.diff that is expected to be caught
(selftest/seeds_expected.json: id -> [property, rule substring]) is applied to a scratch copy of /repo (outside /repo
and /verif, removed afterwards); the property's check must exit 1 and name the rule.  Seeds recorded as missed must
leave the check at exit 0 (if one starts firing, move it to the expected list).  Runs up to 8 seeds in parallel."""
import json
import os
import shutil
import subprocess
import sys
import tempfile
from concurrent.futures import ThreadPoolExecutor

HERE = os.path.dirname(os.path.abspath(__file__))
VERIF = os.path.dirname(HERE)


def one(item):
    sid, (prop, rule) = item
    p = os.path.join(VERIF, 'seeded', sid, 'patch.rebased.diff')
    if not os.path.exists(p):
        p = os.path.join(VERIF, 'seeded', sid, 'patch.diff')
    if not os.path.exists(p):
        return sid, 'SKIP', 'no patch'
    tmp = tempfile.mkdtemp(prefix='nkseed-')
    try:
        repo = os.path.join(tmp, 'repo')
        subprocess.run(['rsync', '-a', '--exclude', '.git', '--exclude', 'build/*/', '--exclude', '*.o', '--exclude', '*.a',
                        '/repo/', repo + '/'], check=False, capture_output=True)
        r = subprocess.run(['patch', '-p1', '-s', '-F3', '-d', repo, '-i', p], capture_output=True, text=True)
        if r.returncode != 0:
            return sid, 'SKIP', 'patch no longer applies to the current tree'
        env = dict(os.environ, NK_REPO=repo, NK_NO_EVIDENCE='1')
        r = subprocess.run([os.path.join(VERIF, 'check'), prop], capture_output=True, text=True, env=env, cwd=VERIF)
        out = r.stdout + r.stderr
        if rule is None:
            ok = r.returncode == 0
            return sid, 'ok  ' if ok else 'NOTE', 'recorded as missed; check exit=%d' % r.returncode
        ok = r.returncode == 1 and any(rule in l for l in out.splitlines() if ': ' in l)
        return sid, 'ok  ' if ok else 'FAIL', '%s exit=%d expecting %s' % (prop, r.returncode, rule)
    finally:
        shutil.rmtree(tmp, ignore_errors=True)


def main():
    exp = json.load(open(os.path.join(HERE, 'seeds_expected.json')))
    items = sorted(exp.items())
    if len(sys.argv) > 1:
        items = [i for i in items if i[0] in sys.argv[1:]]
    failed = 0
    with ThreadPoolExecutor(max_workers=8) as ex:
        for sid, st, msg in ex.map(one, items):
            print('%s %s: %s' % (st, sid, msg))
            if st == 'FAIL':
                failed += 1
    print('seed selftest: %d failed' % failed)
    return 1 if failed else 0


if __name__ == '__main__':
    sys.exit(main())

"""C04 (partial): PREC, OPS, CAP, R-DIV (evaluator), LIT-PAIR, LIT-CONV, R-ERR1 on the evaluator's calls."""
from nk import report
from rules import expr, div, err
from . import common

EXPLANATION = (
    'Decides the structural clauses listed; does not decide the behaviour as a whole. PREC: the token -> (precedence, '
    'operation) map extracted from Operator::set_operator equals the documented table, the precedence enumerators are '
    'strictly ordered, the reduce-order comparator is strict (left-to-right on ties). OPS: Operator::execute dispatches '
    'each operation to the Var method whose integer path applies exactly that C operator on the 64-bit value_int. CAP: '
    'the shift-reduce evaluator has at least levels+1 value slots and levels operator slots (necessary for three or more '
    'descending precedence levels). R-DIV: every division/modulo in core/Var.cpp and the evaluator has a provably '
    'non-zero divisor. LIT-PAIR: literal text re-serialisation uses a conversion of the signedness of the parser that '
    're-reads it. LIT-CONV: each digit branch of the hex/octal/binary converters equals n*B + digit(c), evaluated for '
    'every admitted character; accumulators are 64 bits wide. R-ERR1: results of the evaluator\'s error-returning calls '
    'are examined. Not decided: the value of arbitrary expressions (a proof about the algorithm). TICK-FIRST: character constants are converted before the text-only `$` substitution. DIV-OVF: the signed / and % handle the divisor -1 before dividing (INT64_MIN / -1 traps like a zero divisor).')


def run(tier, t0):
    prog = common.program()
    table = err.load_table('err_table.json')

    def scope(fn):
        return fn.file in ('core/eval_expression.cpp', 'core/eval_expression.h', 'core/Var.cpp', 'core/Var.h',
                           'core/Operator.cpp', 'core/Operator.h')
    results = [expr.prec(prog), expr.ops(prog), expr.cap(prog), expr.lit_pair(prog), expr.lit_conv(prog), expr.tick_first(prog), expr.cap_protocol(prog),
               div.div(prog, scope, 2), div.div_ovf(prog, scope, 2), err.err1(prog, scope, table, floor=5)]
    return report.finish('C04', tier, results, EXPLANATION,
                         ['the documented precedence table (docs + property statement) is transcribed in rules/expr.py'],
                         common.TRUSTED, t0)

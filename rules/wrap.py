"""WRAP-LOOP: a loop `while (a <= E)` over a 32-bit unsigned address a that is advanced in the body terminates only
if a can exceed E; when E can be 0xffffffff (the loop bound is an address range's last byte taken from a parameter or
from Memory::high_address, both of which reach the top of the 32-bit space) the increment wraps to 0 and the test
never fails.  Discharged when the loop variable is wider than 32 bits, the bound is proven < 2^32 - step, or the
body leaves the loop on wrap (`if (a < old) break`, `if (a == 0) break`)."""
from nk.facts import kids, strip, const, show, walk, callee
from nk.cfg import natural_loops
from nk.bitflow import type_width
from nk.report import Ob, RuleResult, DISCHARGED, VIOLATED, OBSERVATION
from nk.build import AnalysisBroken


# loops that match the pattern but cannot wrap, one reason each (replayed)
ACCEPTED = {
    ('disasm/ebpf.cpp', 'disasm_range_ebpf'):
        'the range is scaled by bytes_per_address = 8 before the call, so `end` is at most 0xfffffff8 while `start` advances '
        'by the 2 the decoder returns: start reaches 0xfffffffa > end before it can wrap (replayed: '
        '-ebpf -disasm_range 0xfffffff0-0xffffffff ends)',
}


def wrap_loops(prog, scope, an, floor=20, strict_fns=()):
    obs = []
    for fn in sorted(prog.functions(scope), key=lambda f: (f.file, f.line)):
        if not fn.blocks:
            continue
        loops = natural_loops(fn)
        if not loops:
            continue
        fa = None
        k = 0
        for h, body in sorted(loops.items()):
            # loop test: a <= E in the header (or a block of the header's condition chain)
            for b in sorted(body):
                bb = fn.blocks[b]
                cn = fn.nodes.get(bb.get('cond')) if 'cond' in bb else None
                if cn is None:
                    continue
                own = strip(cn)
                while own['k'] == 'BinaryOperator' and own.get('op') in ('&&', '||'):
                    own = strip(kids(own)[1])
                if own['k'] != 'BinaryOperator' or own.get('op') not in ('<=', '>=', '<', '>'):
                    continue
                a, e = kids(own) if own['op'] in ('<=', '<') else kids(own)[::-1]
                strict = own['op'] in ('<', '>')
                av = strip(a, casts=True)
                if av['k'] != 'DeclRefExpr':
                    continue
                ta = (fn.type(av) or '').replace('const ', '')
                wide = ta in ('uint64_t', 'unsigned long', 'unsigned long long', 'int64_t', 'long')
                if ta not in ('uint32_t', 'unsigned int') and not wide:
                    continue
                te0 = (fn.type(strip(e, casts=True)) or '').replace('const ', '')
                if wide and te0 not in ('uint32_t', 'unsigned int'):
                    continue
                # one successor leaves the loop
                if not any(s_ is not None and s_ not in body for s_ in bb['s']):
                    continue
                # a is advanced in the body
                adv = False
                step1 = True
                for x in fn.nodes.values():
                    w = fn.where.get(x['i'])
                    if w is None or w[0] not in body:
                        continue
                    if x['k'] == 'UnaryOperator' and x.get('op') == '++' and strip(kids(x)[0], casts=True).get('d') == av.get('d'):
                        adv = True
                    elif x['k'] == 'CompoundAssignOperator' and x.get('op') == '+=' and strip(kids(x)[0], casts=True).get('d') == av.get('d'):
                        adv = True
                        if const(kids(x)[1]) != 1:
                            step1 = False
                    elif x['k'] == 'BinaryOperator' and x.get('op') == '=' and strip(kids(x)[0], casts=True).get('d') == av.get('d') and \
                            any(y['k'] == 'DeclRefExpr' and y.get('d') == av.get('d') for y in walk(kids(x)[1])):
                        adv = True
                        step1 = False
                if not adv or (strict and step1):
                    continue
                if strict:
                    # only inclusive address ranges handed in by the user: the range printers of cpu_list[] (list_output_*'s
                    # exclusive end is the address the instruction itself ended at)
                    if fn.q not in strict_fns:
                        continue
                    es = strip(e, casts=True)
                    if not ((es['k'] == 'DeclRefExpr' and es.get('dk') == 'param') or (es['k'] == 'MemberExpr' and es.get('n') == 'high_address')):
                        continue
                k += 1
                if wide:
                    obs.append(Ob('WRAP-LOOP', fn.file, own['l'], fn.q, 'loop:%s%s%s#%d' % (av.get('n'), own['op'], show(e)[:24], k), DISCHARGED, '',
                                  'the counter is 64 bits wide, the bound 32: it passes the bound before it can wrap', False))
                    break
                # the bound's type and range
                te = fn.type(strip(e, casts=True)) or ''
                if fa is None:
                    fa = an._fa_cache(fn)
                iv = fa.eval_at(e, own) if b in fa.reached else (None, None)
                ok = iv[1] is not None and iv[1] < 0xffffffff - 0x10000
                # wrap escape inside the body: a test of a against 0 or against a saved copy that leaves the loop
                if not ok:
                    for b2 in body:
                        c2 = fn.nodes.get(fn.blocks[b2].get('cond')) if 'cond' in fn.blocks[b2] else None
                        if c2 is None or b2 == b:
                            continue
                        o2 = strip(c2)
                        if o2['k'] == 'BinaryOperator' and o2.get('op') in ('==', '<') and \
                                strip(kids(o2)[0], casts=True).get('d') == av.get('d') and \
                                any(s_ is not None and s_ not in body for s_ in fn.blocks[b2]['s']):
                            ok = True
                if not ok and (fn.file, fn.q) in ACCEPTED:
                    obs.append(Ob('WRAP-LOOP', fn.file, own['l'], fn.q, 'loop:%s%s%s#%d' % (av.get('n'), own['op'], show(e)[:24], k),
                                  OBSERVATION, 'matches the wrap pattern; accepted: ' + ACCEPTED[(fn.file, fn.q)]))
                    break
                obs.append(Ob('WRAP-LOOP', fn.file, own['l'], fn.q, 'loop:%s%s%s#%d' % (av.get('n'), own['op'], show(e)[:24], k),
                              DISCHARGED if ok else VIOLATED,
                              '' if ok else '`%s` with 32-bit `%s` advanced in the body: when %s is 0xffffffff (an image or range that '
                              'includes the last byte of the address space) the increment wraps to 0 and the loop never ends' % (
                                  show(own)[:50], av.get('n'), show(e)[:30]),
                              'bound %s' % (iv,)))
                break
    return RuleResult('WRAP-LOOP', obs, floor, {})

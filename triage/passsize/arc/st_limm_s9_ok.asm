.arc
start:
  st 1000, [r3, fwd]
after:
  nop_s
.set fwd=50

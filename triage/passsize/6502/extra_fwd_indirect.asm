; 6502 (not one of the listed candidates): jmp (label) with a forward
; label.  Pass 1 takes 1 byte (ignore_operand() eats the ')'), pass 2 takes 3.
.6502
.org 0x1000
start:
  jmp (vector)
after:
  nop
  rts
vector:
  dw 0x1234

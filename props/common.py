"""Shared pieces of the property modules."""
from nk.facts import Program
from nk.callgraph import CallGraph

TRUSTED = ['clang 14 front end (AST, CFG, constant evaluation) via tools/nkfacts.cc',
           'the rule implementations under /verif/rules and /verif/nk',
           'frozen slot/idiom tables under /verif/rules/*.json (each entry read and justified)']

_prog = None
_cg = None


def program():
    global _prog
    if _prog is None:
        _prog = Program()
    return _prog


def callgraph():
    global _cg
    if _cg is None:
        _cg = CallGraph(program())
    return _cg


ASM_MAIN = 'main@main/naken_asm.cpp'
UTIL_MAIN = 'main@main/naken_util.cpp'


def reach_asm():
    return callgraph().reachable([ASM_MAIN])


def reach_util():
    return callgraph().reachable([UTIL_MAIN])


def range_printers():
    """Qualified names in the disasm_range column of cpu_list[]."""
    from nk import tables
    rows, fields, g = tables.rows(program(), 'cpu_list')
    out = set()
    for r in rows:
        f = tables.funcref(r.get('disasm_range'))
        if f:
            out.add(f)
    return out

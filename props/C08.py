"""C08 (partial): R-PROG — decoder lengths >= 1, range loops advance on every path, page walk steps to the next
page boundary; T-LEN length granularity; READ-EXTENT; RUN-EXTENT."""
from nk import report
from rules import prog as rprog, tbl, extent, caselen
from . import common

EXPLANATION = (
    'Decides the structural clauses listed; does not decide the behaviour as a whole. R-PROG(a): interval analysis '
    '(context-sensitive return summaries, constant-table ranges, trace partitioning on re-tested conditions, infeasible '
    'type-switch defaults pruned by comparing the table rows with the case labels) shows every value each of the 59 '
    'single-instruction decoders can return is >= 1. R-PROG(b): in each of the ~107 range loops of the range printers, '
    'listing formatters and UtilContext::disasm, every path through the body advances the address variable by an amount '
    'whose lower bound is >= 1. R-PROG(d): the page walk steps exactly to the next page boundary (recognised idioms). '
    'T-LEN: constant decoder lengths are multiples of the encoder\'s emission unit. READ-EXTENT: for every decoder read Memory::readN(address + O) with a linear offset whose value is formatted into the text by a '
    'call that lies on every path to a `return L`, (O + N - 1) - L is not a constant >= 0 (the text is not built from a byte at or '
    'beyond the reported length); reads that are only tested (a longer form tried first, fallback to a shorter one) are listed as '
    'observations. RUN-EXTENT: the same obligation for the 15 decoders that keep a running position (address += 2; count += 2; '
    'readN(address)): affine updates of address/length locals, bounded operand-loop counters and the value read (through local '
    'assignments and character buffers into the text parameter) are propagated along condition-consistent CFG paths, with the '
    'operand kinds chosen in per-operand switches restricted to those of one table row; at every return the extent of the reads '
    'that reached the text is <= the returned length. HELPER-BASE: for a helper that decoders call as `return helper(.., address + K, ..) + C`, C - K is the same at every call site. TILE-ONCE: a range loop that advances by the decoder length stores to its address variable nowhere else. GUARD-LEN: constant returns under a test of the length column of the matched row equal that length. Not decided: text stays inside the buffer, independence from following bytes that are only tested, '
    'the upper bound on lengths.')


def run(tier, t0):
    prog = common.program()
    cg = common.callgraph()
    results = [rprog.run(prog, cg), tbl.tlen(prog, cg), extent.read_extent(prog, cg), extent.run_extent(prog, cg, floor=12),
               caselen.guard_len(prog), rprog.tile_once(prog), extent.helper_base(prog, 2)]
    return report.finish('C08', tier, results, EXPLANATION,
                         ['opcode tables are not modified at run time (checked: no store to them exists)',
                          'a lower bound that the interval domain cannot establish is reported as an observation, '
                          'not as a violation (decoders of pdp11, tms340, webasm, arc compute lengths by address '
                          'subtraction)'],
                         common.TRUSTED, t0)

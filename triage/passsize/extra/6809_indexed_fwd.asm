.6809
.org 0x1000
start:
  lda fwd,x
after1:
  lda fwd2,x
after2:
  lda [fwd,y]
after3:
  lda fwd,pc
after4:
  nop
.set fwd=5
.set fwd2=100

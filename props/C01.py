"""C01 (narrow): T-ORACLE (RV32I + MSP430 core vs the architecture manuals: table rows, encoder insertions,
decoder extractions), T-LEN (decoder lengths vs encoder emission unit), T-CPU (registry rows)."""
from nk import report
from rules import oracle6502, oracle8051, oracle4004, oracle1802, oracle, tbl, pagebase, caselen, fieldshift, overlap, signext, extent
from . import common

EXPLANATION = (
    'Decides the structural clauses listed; does not decide the behaviour as a whole. T-ORACLE: for the 40 RV32I base '
    'and 31 MSP430 core mnemonics the table row exists with exactly the opcode word of the architecture manual and an '
    'operand type of the right format, a generic encoding of it is first matched by a row with that opcode word, the '
    'encoder case of each format inserts every register/immediate at the ISA bit positions (symbolic bit provenance of '
    'the emitted word, helper permutations inlined), and the decoder case prints operands extracted from exactly those '
    'instruction bits in assembler operand order — encoder and decoder are each compared with the manual, hence with '
    'each other. T-LEN: for every CPU whose encoder emits through a single add_binW unit, each constant length returned '
    'by its decoder is a positive multiple of W (== W for fixed-size ISAs). T-CPU: every cpu_list row has a legal '
    'bytes_per_address and non-null handlers. T-ORACLE(4004) / T-ORACLE(1802): every table row with a documented Intel 4004 / RCA CDP1802 mnemonic has the opcode and fixed-bit mask of that instruction. T-ORACLE(6502) / T-ORACLE(8051): every documented opcode of the NMOS 6502 and of the MCS-51 sits at its index in the opcode-indexed tables with its mnemonic, addressing mode / operand kinds and register number, no mnemonic+mode pair is listed twice, and the per-mode lengths agree. PAGE-BASE: for the paged jumps (8051 ajmp/acall, MIPS j/jal) assembler and disassembler both take the upper target bits from the architectural base (pc+2 / pc+4), so the listed target is the assembled one also at the end of a block. CASE-LEN: for every operand-type enumerator with a case arm in both parse_instruction_X and disasm_X (same table), every byte count the assembler arm can emit is a length the decoder arm returns (arm-local path enumeration; helpers only when they always emit the same count). TABLE-INDEX: inside a search loop over one opcode table no other table is indexed with the loop counter unless the column read is identical in both. CASE-FALLTHROUGH: in the operand-type switches of assemblers and decoders no arm runs into the next one (missing break/return), unless the end of the arm is refuted by evaluating its tests over the table rows of that type and the values of the small-range local they read. DEC-COVER: in the decoders that search `(opcode & mask) == opcode` and switch on the row type, every table row that is the first match of its own opcode word has a case for its type. FIELD-SHIFT: for the CPUs whose encoder emits one 16- or 32-bit unit, every bit position at which an assembler arm inserts a non-constant field is a position the decoder arm of the same operand type reads (shared arms resolved per type, row-only guards evaluated over the rows of the type, fall-through followed). MASK-COVER: in the tables searched with `(word & mask) == opcode` no row has an opcode bit outside its mask (such a row is never matched), unless the bit is an operand field the assembler arm of that type inserts (arm64 Q bit) or the row is a listed spelling. FIELD-OVERLAP: operand fields OR-ed into one emitted word are pairwise disjoint (two operand tuples cannot assemble to one word through a field spilling into its neighbour). SIGN-EXT: every `if (test of v) v = adjust(v)` sign extension in the decoders equals two-complement sign extension of the field for all of its values (exhaustive evaluation in the C type of v). RUN-COVER: in the decoders that keep a running length with every read at a constant offset (8051, msp430, tms9900), on every condition-consistent path the reads tile the returned length whenever the length was incremented on the path (an extension word counted but never read, or two operands taking the same word, prints one text for different encodings). Not decided: the round trip for other CPUs / arbitrary operand values.')


def run(tier, t0):
    prog = common.program()
    cg = common.callgraph()
    results = [oracle.run(prog), oracle6502.oracle(prog), oracle8051.oracle(prog), oracle4004.oracle(prog), oracle1802.oracle(prog), tbl.tlen(prog, cg), tbl.tcpu(prog), pagebase.page_base(prog), caselen.case_len(prog), caselen.table_index(prog), caselen.fallthrough(prog), caselen.dec_cover(prog), fieldshift.field_shift(prog, cg), caselen.mask_cover(prog), overlap.field_overlap(prog, floor=100), signext.sign_ext(prog, 50), extent.run_cover(prog, cg, floor=3)]
    return report.finish('C01', tier, results, EXPLANATION,
                         ['the oracle tables in rules/oracle.py are a faithful transcription of the RISC-V unprivileged '
                          'spec (RV32I) and the MSP430x1xx Family User\'s Guide instruction formats; rules/oracle6502.py transcribes the 151 NMOS 6502 '
                          'opcodes (MCS6500 programming manual) and rules/oracle8051.py the 255 MCS-51 opcodes (Intel programmer\'s guide)',
                          'operands[i] is the i-th operand in source order (assembler operand parser)'],
                         common.TRUSTED, t0)

.epiphany
  ldr r1,[r2],#100
  ldr r1,[r2],#2148
  ldr r1,[r2],#0x10064
  ldr r1,[r2],#-100
  ldr r1,[r2],#-2148
  ldr r1,[r2,#100]
  ldr r1,[r2,#2047]

.arm64
  add w10, w17, w9, lsl #3
  add w10, w17, w9, lsr #3
  add w10, w17, w9, asr #3
  addv h1, v21.4h
  addv h1, v21.8h
  addv b1, v21.8b
  addv b1, v21.16b
  addv s1, v21.4s
  ldr w3, [x4, #16380]
  ldr x3, [x4, #32760]
  ldr b3, [x4, #4095]
  ldr h3, [x4, #8190]
  ldr s3, [x4, #16380]
  ldr d3, [x4, #32760]
  ldr q3, [x4, #16]
  ldr q3, [x4, #4095]
  ldr q3, [x4, #16]!
  ldr d3, [x4, #16]!
  ldr s3, [x4], #255
  dup v1.8b, w3
  dup v1.16b, w3
  dup v1.4h, w3
  dup v1.2d, x3

.arc
  add r1, r4, r2
  add r1, r68, r2
  add.eq r4, r4, r2
  add.eq r68, r68, r2
  add 0, r4, r2
  add 0, r68, r2
  add.eq r4, r4, 5
  add.eq r68, r68, 5
  add.eq r4, r4, 500
  add.eq r68, r68, 500
  add r4, r4, -5
  add r68, r68, -5
  add 0, r4, 5
  add 0, r68, 5
  add 0, r4, 500
  add 0, r68, 500
  add r1, r4, 5
  add r1, r68, 5
  add r1, r4, 500
  add r1, r68, 500
  asl r4, r2
  asl r68, r2
  st 5, [r4, 8]
  st 5, [r68, 8]

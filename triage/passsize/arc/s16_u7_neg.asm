.arc
start:
  cmp_s r0, fwd
after:
  nop_s
.set fwd=-4

"""R-NULL(a): a pointer that is tested against null is not dereferenced on a path where the test said it is null."""
from nk.facts import kids, strip, const, callee, call_args, show, walk
from nk.cfg import forward_paths
from nk.report import Ob, RuleResult, DISCHARGED, VIOLATED, OBSERVATION

DEREF_CALLS = ('strlen', 'strcmp', 'strcasecmp', 'strcpy', 'strcat', 'strncmp', 'atoi', 'atol', 'atoll', 'fclose', 'fgets',
               'fread', 'fwrite', 'fprintf', 'getc', 'fgetc', 'putc', 'fputc', 'fseek', 'ftell')


def _null_test(cond):
    """(decl id, name, null_on_true) for conditions `p == NULL`, `p != NULL`, `!p`, `p`."""
    c = strip(cond)
    if c['k'] == 'BinaryOperator' and c.get('op') in ('==', '!='):
        a, b = strip(kids(c)[0], casts=True), strip(kids(c)[1], casts=True)
        for x, y in ((a, b), (b, a)):
            if x['k'] == 'DeclRefExpr' and x.get('dk') in ('local', 'param') and \
                    (y['k'] in ('GNUNullExpr', 'CXXNullPtrLiteralExpr') or (const(y) == 0 and y['k'] == 'IntegerLiteral')):
                return x['d'], x['n'], c['op'] == '=='
    if c['k'] == 'UnaryOperator' and c.get('op') == '!':
        x = strip(kids(c)[0], casts=True)
        if x['k'] == 'DeclRefExpr' and x.get('dk') in ('local', 'param'):
            return x['d'], x['n'], True
    return None


def _walk_null(fn, start, classify, d):
    """Forward search on the path where decl d is null; later tests of the same pointer prune their non-null edge."""
    bad = []
    seen = set()
    work = [start]
    while work:
        bid = work.pop()
        if bid in seen:
            continue
        seen.add(bid)
        stopped = False
        for e in fn.blocks[bid]['e']:
            n = fn.nodes.get(e)
            if n is None:
                continue
            r = classify(n)
            if r is None:
                continue
            if r != 'stop':
                bad.append((r, n))
            stopped = True
            break
        if stopped:
            continue
        b = fn.blocks[bid]
        cond = fn.nodes.get(b.get('cond')) if 'cond' in b else None
        if cond is not None and len(b['s']) == 2:
            c = strip(cond)
            while c['k'] == 'BinaryOperator' and c.get('op') in ('||', '&&') and b.get('termk') != 'BinaryOperator':
                c = strip(kids(c)[1])
            t = _null_test(c)
            if t is not None and t[0] == d:
                nxt = b['s'][0] if t[2] else b['s'][1]
                if nxt is not None:
                    work.append(nxt)
                continue
        for s_ in fn.succs(bid):
            work.append(s_)
    return bad


ACCEPTED = {
    ('core/Memory.cpp', 'Memory::write8'): 'the page loop allocates page->next before advancing, so `page` is never null after the loop (exit is only by break)',
    ('core/Memory.cpp', 'Memory::write_debug'): 'same page loop as write8: next page is allocated before advancing',
    ('core/Memory.cpp', 'Memory::write'): 'same page loop as write8: next page is allocated before advancing',
}


def null_a(prog, scope, floor=20):
    obs = []
    for fn in prog.functions(scope):
        if not fn.blocks:
            continue
        k = 0
        for b in sorted(fn.blocks.values(), key=lambda x: -x['id']):
            cond = fn.nodes.get(b.get('cond')) if 'cond' in b else None
            if cond is None or len(b['s']) != 2 or b.get('termk') not in ('IfStmt', 'WhileStmt', 'ForStmt', 'ConditionalOperator', 'BinaryOperator'):
                continue
            t = _null_test(cond)
            if t is None:
                continue
            d, name, null_on_true = t
            ptr_t = None
            for n in walk(cond):
                if n['k'] == 'DeclRefExpr' and n.get('d') == d:
                    ptr_t = fn.type(n)
            if not ptr_t or not ptr_t.endswith('*'):
                continue
            k += 1
            start = b['s'][0] if null_on_true else b['s'][1]
            if start is None:
                continue

            def classify(n, d=d):
                if n is None:
                    return 'stop'
                kk = n['k']
                # reassignment ends the null fact
                if kk == 'BinaryOperator' and n.get('op') == '=' and strip(kids(n)[0]).get('d') == d:
                    return 'stop'
                if kk == 'UnaryOperator' and n.get('op') == '&' and strip(kids(n)[0]).get('d') == d:
                    return 'stop'
                if kk == 'ReturnStmt':
                    return 'stop'
                if kk == 'UnaryOperator' and n.get('op') == '*' and strip(kids(n)[0], casts=True).get('d') == d:
                    return 'dereference `*%s`' % name
                if kk == 'ArraySubscriptExpr' and strip(kids(n)[0], casts=True).get('d') == d:
                    return 'dereference `%s[…]`' % name
                if kk == 'MemberExpr' and n.get('arrow') and kids(n) and strip(kids(n)[0], casts=True).get('d') == d:
                    return 'dereference `%s->%s`' % (name, n['n'])
                if kk == 'CallExpr' and callee(n) in DEREF_CALLS:
                    for a in call_args(n):
                        if strip(a, casts=True).get('d') == d:
                            return 'passes null `%s` to %s' % (name, callee(n))
                if kk in ('CallExpr',) and callee(n) in ('exit', 'abort'):
                    return 'stop'
                return None
            bad = _walk_null(fn, start, classify, d)
            construct = 'null-test#%d:%s' % (k, name)
            if bad and (fn.file, fn.q) in ACCEPTED:
                obs.append(Ob('R-NULL', fn.file, cond['l'], fn.q, construct, DISCHARGED, '', 'accepted: ' + ACCEPTED[(fn.file, fn.q)]))
            elif bad:
                what, node = bad[0]
                obs.append(Ob('R-NULL', fn.file, (node or cond)['l'], fn.q, construct, VIOLATED,
                              '`%s` is tested against null at line %d and on the path where it is null the code goes on to %s '
                              '(line %d): null dereference' % (name, cond['l'], what, (node or cond)['l'])))
            else:
                obs.append(Ob('R-NULL', fn.file, cond['l'], fn.q, construct, DISCHARGED, '',
                              'no dereference of `%s` on the null path before reassignment/return' % name))
    return RuleResult('R-NULL', obs, floor, {})

.epiphany
.org 0x100
start:
  b fwd
l1:
  mov r0, #small
l2:
  add r1, r2, #small3
l6:
  lsr r1, r2, #small3
l8:
  ldr r1, [r2], #small3
lb:
  mov r0, #5
  add r1, r2, #2
  b start
  ldr r1,[r2,#3]
  ldr r1,[r2,#9]
  movts 0xf0404, r1
  movts 0xf0504, r1
  movfs r1, 0xf0404
  movfs r1, 0xf0440
fwd:
  b start
  nop
.set small=5
.set small3=2

.arc
start:
  add_s r1, sp, fwd
after:
  nop_s
.set fwd=200

.arc
start:
  add r2, r1, fwd
after:
  nop_s
.set fwd=-1

"""R-STR: every strcpy / strcat into a buffer of known capacity copies a string whose maximal length fits.

capacity   a char array of declared size N (local, member, global) holds N bytes; `buf + k` (constant k) holds N - k;
           a pointer parameter holds the smallest capacity any caller passes for it (call graph, cpu_list columns
           resolved, three levels)
max length a string literal has its length; a char array of size N filled by the tokeniser holds at most N - 1
           characters; a field of a constant table (`table[n].instr`) has the longest initialiser of that column; a
           pointer parameter has the largest bound any caller's argument has; anything else is unknown
strcat     the destination's current length is bounded by the longest strcpy into it plus all strcats into it in the
           function (each counted once; a strcat inside a loop is unbounded)
Verdicts   proven when capacity > worst-case length; violation only when a copied literal alone does not fit (the
           worst-case lengths of arrays are capacities, not contents, so a larger sum proves nothing);
           otherwise not decided (observation), with the triage reason from rules/str_table.json where there is one."""
import json
import os
from nk.facts import kids, strip, const, show, walk, callee, call_args, ckey
from nk.cfg import natural_loops
from nk import tables
from nk.report import Ob, RuleResult, DISCHARGED, VIOLATED, OBSERVATION
from nk.build import AnalysisBroken

HERE = os.path.dirname(os.path.abspath(__file__))


def _arr_size(t):
    if not t or '[' not in t or not t.replace('const ', '').startswith(('char', 'unsigned char', 'uint8_t', 'signed char', 'int8_t')):
        return None
    try:
        return int(t.split('[')[1].split(']')[0])
    except ValueError:
        return None


class Ctx:
    def __init__(self, prog, cg):
        self.prog, self.cg = prog, cg
        self._col = {}
        self._callers = None

    def callers(self, fn):
        if self._callers is None:
            self._callers = {}
            for f2 in self.prog.fns.values():
                for c in f2.calls():
                    k = ckey(c)
                    if k:
                        self._callers.setdefault(k, []).append((f2, c))
                    elif c.get('indirect'):
                        tgt = strip(kids(c)[0], casts=True)
                        for key in self.cg.columns.get(tgt.get('n'), ()):
                            self._callers.setdefault(key, []).append((f2, c))
        return self._callers.get(fn.key, [])

    def column_max(self, gname, field):
        k = (gname, field)
        if k not in self._col:
            m = None
            try:
                rows, fields, g = tables.rows(self.prog, gname)
                for r in rows:
                    s = tables.strval(r.get(field)) if r.get(field) is not None else None
                    if s is not None:
                        m = max(m or 0, len(s))
            except (AnalysisBroken, KeyError, TypeError):
                m = None
            self._col[k] = m
        return self._col[k]

    # -------------------------------------------------------------------------------- capacity of a destination
    def capacity(self, fn, e, depth=0):
        e = strip(e, casts=True)
        t = fn.type(e) or ''
        n = _arr_size(t)
        if n is not None and e['k'] in ('DeclRefExpr', 'MemberExpr'):
            return n
        if e['k'] == 'BinaryOperator' and e.get('op') == '+':
            a, b = kids(e)
            base = self.capacity(fn, a, depth)
            k = const(b)
            if base is not None and k is not None and 0 <= k <= base:
                return base - k
            return None
        if e['k'] == 'DeclRefExpr' and e.get('dk') == 'param' and depth < 3:
            pi = [i for i, p in enumerate(fn.params()) if p['d'] == e['d']]
            cs = self.callers(fn)
            if not pi or not cs:
                return None
            best = None
            for f2, c in cs:
                a = call_args(c)
                if pi[0] >= len(a):
                    return None
                v = self.capacity(f2, a[pi[0]], depth + 1)
                if v is None:
                    return None
                best = v if best is None else min(best, v)
            return best
        return None

    # -------------------------------------------------------------------------------- maximal length of a source
    def maxlen(self, fn, e, depth=0):
        e = strip(e, casts=True)
        if e['k'] == 'StringLiteral':
            return len(e.get('s') or '')
        if e['k'] == 'ConditionalOperator':
            ks = kids(e)
            a, b = self.maxlen(fn, ks[1], depth), self.maxlen(fn, ks[2], depth)
            return None if a is None or b is None else max(a, b)
        t = fn.type(e) or ''
        n = _arr_size(t)
        if n is not None and e['k'] in ('DeclRefExpr', 'MemberExpr'):
            return n - 1
        if e['k'] == 'MemberExpr':
            base = strip(kids(e)[0]) if kids(e) else None
            if base is not None and base['k'] == 'ArraySubscriptExpr':
                arr = strip(kids(base)[0], casts=True)
                if arr['k'] == 'DeclRefExpr' and arr.get('dk') == 'global':
                    return self.column_max(arr['n'], e['n'])
        if e['k'] == 'ArraySubscriptExpr':
            arr = strip(kids(e)[0], casts=True)
            if arr['k'] == 'DeclRefExpr' and arr.get('dk') in ('global', 'local'):
                g = None
                try:
                    g = self.prog.global_def(arr['n']) if arr.get('dk') == 'global' else None
                except AnalysisBroken:
                    g = None
                if g is not None and 'init' in g:
                    m = None
                    for x in walk(g['init']):
                        if x['k'] == 'StringLiteral':
                            m = max(m or 0, len(x.get('s') or ''))
                    return m
        if e['k'] == 'DeclRefExpr' and e.get('dk') == 'param' and depth < 3:
            pi = [i for i, p in enumerate(fn.params()) if p['d'] == e['d']]
            cs = self.callers(fn)
            if not pi or not cs:
                return None
            best = None
            for f2, c in cs:
                a = call_args(c)
                if pi[0] >= len(a):
                    return None
                v = self.maxlen(f2, a[pi[0]], depth + 1)
                if v is None:
                    return None
                best = v if best is None else max(best, v)
            return best
        return None


def load_table():
    p = os.path.join(HERE, 'str_table.json')
    if not os.path.exists(p):
        return {}
    with open(p) as f:
        t = json.load(f)
    return {(e['file'], e['function'], e['construct']): e['reason'] for e in t.get('accepted', [])}


INF = 10 ** 9


def strs(prog, cg, scope, floor=20):
    ctx = Ctx(prog, cg)
    table = load_table()
    obs = []
    for fn in sorted(prog.functions(scope), key=lambda f: (f.file, f.line)):
        if not fn.blocks:
            continue
        calls = [c for c in sorted(fn.calls(), key=lambda x: x['i']) if callee(c) in ('strcpy', 'strcat')]
        if not calls:
            continue
        dsts = {}
        for c in calls:
            dsts.setdefault(show(strip(call_args(c)[0], casts=True)), []).append(c)
        # every call that writes a destination some other way resets what is known about its length
        writers = {}
        for c in fn.calls():
            q = callee(c)
            if q in ('strcpy', 'strcat') or not call_args(c):
                continue
            a0 = show(strip(call_args(c)[0], casts=True))
            if a0 in dsts:
                w = fn.where.get(c['i'])
                if w:
                    bound = None
                    if q == 'snprintf' and len(call_args(c)) > 1 and const(call_args(c)[1]) is not None:
                        bound = max(const(call_args(c)[1]) - 1, 0)
                    writers.setdefault(a0, {})[c['i']] = bound
        for dtxt, cs in dsts.items():
            cap = ctx.capacity(fn, call_args(cs[0])[0])
            lens = {c['i']: ctx.maxlen(fn, call_args(c)[1]) for c in cs}
            kind = {c['i']: callee(c) for c in cs}
            other = writers.get(dtxt, {})
            # forward dataflow: L = worst-case strlen(dst) at block entry; None = unknown
            first = strip(call_args(cs[0])[0], casts=True)
            init = None if (first['k'] == 'DeclRefExpr' and first.get('dk') == 'param') or first['k'] != 'DeclRefExpr' else None
            inn = {fn.entry: init}
            at_call = {}
            work = [fn.entry]
            visits = {}
            UNSET = object()
            state = {b: UNSET for b in fn.blocks}
            state[fn.entry] = init
            while work:
                b = work.pop()
                visits[b] = visits.get(b, 0) + 1
                L = state[b]
                for e in fn.blocks[b]['e']:
                    if e in lens:
                        ln = lens[e]
                        if kind[e] == 'strcpy':
                            at_call[e] = _mx(at_call.get(e, UNSET), ln, UNSET)
                            L = ln
                        else:
                            tot = None if (L is None or ln is None) else min(L + ln, INF)
                            at_call[e] = _mx(at_call.get(e, UNSET), tot, UNSET)
                            L = tot
                    elif e in other:
                        L = other[e]
                if visits[b] > 6 and L is not None:
                    L = INF
                for s_ in fn.succs(b):
                    old = state[s_]
                    new = L if old is UNSET else (None if (old is None or L is None) else max(old, L))
                    if old is UNSET or new != old:
                        state[s_] = new
                        work.append(s_)
            k = 0
            for c in cs:
                k += 1
                q = callee(c)
                construct = '%s(%s)#%d' % (q, dtxt[:30], k)
                need = at_call.get(c['i'], UNSET)
                if need is UNSET:
                    continue        # unreachable
                src = strip(call_args(c)[1], casts=True)
                if cap is not None and q == 'strcpy' and src['k'] == 'StringLiteral' and len(src.get('s') or '') >= cap:
                    obs.append(Ob('R-STR', fn.file, c['l'], fn.q, construct, VIOLATED,
                                  '`%s`: the %d characters of the literal plus the terminator do not fit the %d-byte buffer' % (
                                      show(c)[:60], len(src.get('s') or ''), cap)))
                elif cap is not None and need is not None and need < cap:
                    obs.append(Ob('R-STR', fn.file, c['l'], fn.q, construct, DISCHARGED, '',
                                  '%d characters at most into %d bytes' % (need, cap), True))
                else:
                    why = table.get((fn.file, fn.q, construct.split('#')[0]))
                    obs.append(Ob('R-STR', fn.file, c['l'], fn.q, construct, OBSERVATION,
                                  'capacity %s, worst-case length %s: not decided%s' % (
                                      cap, 'unbounded (loop)' if need is not None and need >= INF else need, '; ' + why if why else '')))
    return RuleResult('R-STR', obs, floor, {})


def _mx(old, new, UNSET):
    if old is UNSET:
        return new
    if old is None or new is None:
        return None
    return max(old, new)

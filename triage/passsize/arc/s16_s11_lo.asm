.arc
start:
  add_s r0, gp, fwd
after:
  nop_s
.set fwd=-2000
